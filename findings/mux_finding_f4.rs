
/// F4 (verif): two bytes `00 C0` (header 0xC000: both frame-kind bits set) right after the mux handshake.
/// Append to node/components/network/src/mux/tests/mod.rs and run: cargo test -p zksync_consensus_network --offline verif_f4
/// Pre-fix: process_inbound_frames hits unreachable!("bad FrameKind") (panic); post-fix: RunError::Protocol.
#[tokio::test]
async fn verif_f4_bad_frame_kind_is_a_protocol_error() {
    use zksync_concurrency::io;
    let ctx = &ctx::test_root(&ctx::RealClock);
    let cfg = Arc::new(mux::Config { read_buffer_size: 1000, read_frame_size: 100, read_frame_count: 10, write_frame_size: 100 });
    let m = mux::Mux { cfg, accept: BTreeMap::new(), connect: BTreeMap::new() };
    let (a, mut b) = tokio::io::duplex(1 << 16);
    let peer = async {
        let h = mux::Handshake { accept_max_streams: Default::default(), connect_max_streams: Default::default() };
        frame::send_proto(ctx, &mut b, &h).await.unwrap();
        let _: mux::Handshake = frame::recv_proto(ctx, &mut b, 10 * 1024).await.unwrap();
        io::write_all(ctx, &mut b, &[0x00, 0xC0]).await.unwrap().unwrap();
        io::flush(ctx, &mut b).await.unwrap().unwrap();
        let mut buf = [0u8; 1];
        let _ = io::read_exact(ctx, &mut b, &mut buf).await;
    };
    let run = async {
        match m.run(ctx, a).await {
            Err(mux::RunError::Protocol(_)) => {}
            other => panic!("expected a protocol error, got {other:?}"),
        }
    };
    tokio::select! { _ = run => {}, _ = peer => panic!("peer finished first") }
}
