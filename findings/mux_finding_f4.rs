
/// F4 (verif): two bytes `00 C0` (header 0xC000: both frame-kind bits set, stream kind ACCEPT, stream id 0) right after the mux
/// handshake, on a connection that has (at least) one stream with id 0 on the receiving side.
/// Append to node/components/network/src/mux/tests/mod.rs and run: cargo test -p zksync_consensus_network --offline verif_f4
/// Pre-fix: process_inbound_frames hits unreachable!("bad FrameKind") (panic; the node's profiles abort on panic);
/// post-fix: RunError::Protocol.
#[tokio::test]
async fn verif_f4_bad_frame_kind_is_a_protocol_error() {
    use zksync_concurrency::{io, limiter};
    let ctx = &ctx::test_root(&ctx::RealClock);
    let cfg = Arc::new(mux::Config { read_buffer_size: 1000, read_frame_size: 100, read_frame_count: 10, write_frame_size: 100 });
    // one "connect" stream for capability 0: frames the peer sends on ITS accept side (stream kind ACCEPT) are dispatched to it
    let queue = mux::StreamQueue::new(ctx, 1, limiter::Rate::INF);
    let m = mux::Mux { cfg, accept: BTreeMap::new(), connect: [(0, queue)].into() };
    let (a, mut b) = tokio::io::duplex(1 << 16);
    let peer = async {
        let h = mux::Handshake { accept_max_streams: [(0, 1)].into(), connect_max_streams: Default::default() };
        frame::send_proto(ctx, &mut b, &h).await.unwrap();
        let _: mux::Handshake = frame::recv_proto(ctx, &mut b, 10 * 1024).await.unwrap();
        io::write_all(ctx, &mut b, &[0x00, 0xC0]).await.unwrap().unwrap();
        io::flush(ctx, &mut b).await.unwrap().unwrap();
        let mut buf = [0u8; 1];
        let _ = io::read_exact(ctx, &mut b, &mut buf).await;
    };
    let run = async {
        match m.run(ctx, a).await {
            Err(mux::RunError::Protocol(_)) => {}
            other => panic!("expected a protocol error, got {other:?}"),
        }
    };
    // both sides run to completion (the mux scope must not be dropped before it finishes)
    tokio::join!(run, peer);
}
