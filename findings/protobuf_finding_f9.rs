//! F9 (open, property C09): a native replay of the Kani counterexample of std_conv/socket_addr_v6_scope_roundtrip.
//! Copy to node/libs/protobuf/tests/ and run `cargo test -p zksync_protobuf --offline --test protobuf_finding_f9`: it FAILS on HEAD.
use zksync_protobuf::ProtoFmt;

#[test]
fn f9_scoped_ipv6_socket_addr_round_trip() {
    // the solver's input: ip ::, port 0, flowinfo 1, scope id 0
    let a = std::net::SocketAddr::V6(std::net::SocketAddrV6::new(std::net::Ipv6Addr::UNSPECIFIED, 0, 1, 0));
    assert_eq!(<std::net::SocketAddr as ProtoFmt>::read(&a.build()).unwrap(), a);
}

#[test]
fn f9_link_local_with_scope_id() {
    let a: std::net::SocketAddr = "[fe80::1%5]:80".parse().unwrap();
    assert_eq!(<std::net::SocketAddr as ProtoFmt>::read(&a.build()).unwrap(), a);
}
