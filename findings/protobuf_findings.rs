// Native replay of finding F3 against the real zksync_protobuf crate.
// Place as node/libs/protobuf/tests/verif_findings.rs and run: cargo test -p zksync_protobuf --offline --test verif_findings
use zksync_protobuf::ProtoFmt;

/// F3: Timestamp{seconds: i64::MAX, nanos: 1_000_000_000} made time::Duration::new panic ("overflow constructing Duration").
#[test]
fn f3_timestamp_with_overflowing_nanos_is_a_decode_error() {
    let t = zksync_protobuf::proto::std::Timestamp { seconds: Some(i64::MAX), nanos: Some(1_000_000_000) };
    assert!(<zksync_concurrency::time::Utc as ProtoFmt>::read(&t).is_err());
    let d = zksync_protobuf::proto::std::Duration { seconds: Some(i64::MAX), nanos: Some(i32::MAX) };
    assert!(<zksync_concurrency::time::Duration as ProtoFmt>::read(&d).is_err());
}
