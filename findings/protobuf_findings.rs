// Native replay of finding F3 against the real zksync_protobuf crate.
// Place as node/libs/protobuf/tests/verif_findings.rs and run: cargo test -p zksync_protobuf --offline --test verif_findings
use zksync_protobuf::ProtoFmt;

/// F3: Timestamp{seconds: i64::MAX, nanos: 1_000_000_000} made time::Duration::new panic ("overflow constructing Duration").
#[test]
fn f3_timestamp_with_overflowing_nanos_is_a_decode_error() {
    let t = zksync_protobuf::proto::std::Timestamp { seconds: Some(i64::MAX), nanos: Some(1_000_000_000) };
    assert!(<zksync_concurrency::time::Utc as ProtoFmt>::read(&t).is_err());
    let d = zksync_protobuf::proto::std::Duration { seconds: Some(i64::MAX), nanos: Some(i32::MAX) };
    assert!(<zksync_concurrency::time::Duration as ProtoFmt>::read(&d).is_err());
}

/// F7: a Timestamp / Duration with seconds == i64::MIN and negative nanos DECODES, but re-encoding it (which happens when the hash of
/// a received message is computed: Signed::verify -> Msg::hash -> canonical -> build) computed `seconds -= 1` and overflowed:
/// a panic in builds with overflow checks (the dev profile aborts), a wrapped (wrong) encoding otherwise.
#[test]
fn f7_duration_at_the_lower_end_of_the_range_is_reencoded() {
    let p = zksync_protobuf::proto::std::Duration { seconds: Some(i64::MIN), nanos: Some(-5) };
    let d = <zksync_concurrency::time::Duration as ProtoFmt>::read(&p).unwrap();
    let back = <zksync_concurrency::time::Duration as ProtoFmt>::read(&d.build()).unwrap();
    assert_eq!(back, d);
    let t = zksync_protobuf::proto::std::Timestamp { seconds: Some(i64::MIN), nanos: Some(-1) };
    let u = <zksync_concurrency::time::Utc as ProtoFmt>::read(&t).unwrap();
    let back = <zksync_concurrency::time::Utc as ProtoFmt>::read(&u.build()).unwrap();
    assert_eq!(back, u);
}
