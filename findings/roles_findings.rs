// Native replays of findings F1, F2, F5, F6 against the real zksync_consensus_roles crate.
// Place as node/libs/roles/tests/verif_findings.rs and run: cargo test -p zksync_consensus_roles --offline --test verif_findings
// On the pre-fix snapshot (e043778) every test panics inside the library; after the fix: commits they pass.
use zksync_consensus_roles::validator::{self, LeaderSelection, LeaderSelectionMode, Schedule, ValidatorInfo, ViewNumber};

fn schedule(mode: LeaderSelectionMode, frequency: u64, weights: &[u64]) -> Schedule {
    let rng = &mut <rand::rngs::StdRng as rand::SeedableRng>::seed_from_u64(7);
    let vs: Vec<_> = weights.iter().map(|w| ValidatorInfo {
        key: rand::Rng::gen::<validator::SecretKey>(rng).public(), weight: *w, leader: true }).collect();
    Schedule::new(vs, LeaderSelection { frequency, mode }).unwrap()
}

/// F1: LeaderSelection::frequency == 0 is documented as "never rotates" but view_leader divided by it.
#[test]
fn f1_frequency_zero_never_rotates() {
    let s = schedule(LeaderSelectionMode::RoundRobin, 0, &[1, 1, 1]);
    let l0 = s.view_leader(ViewNumber(0));
    for v in [1u64, 2, 17, u64::MAX] { assert_eq!(s.view_leader(ViewNumber(v)), l0); }
}

/// F2: weighted eligibility indexed to_u64_digits()[0], which is empty when keccak(turn) % leader_weight == 0 (always for weight 1).
#[test]
fn f2_weighted_total_leader_weight_one() {
    let s = schedule(LeaderSelectionMode::Weighted, 1, &[1]);
    for v in 0..50u64 { let _ = s.view_leader(ViewNumber(v)); }
}

/// F6: ViewNumber::next on u64::MAX (reached from an unverified justification) overflowed in builds with overflow checks.
#[test]
fn f6_view_number_next_is_total() {
    let _ = ViewNumber(u64::MAX).next();
}

/// F5: decoding a Genesis with protocol_version != 2 hit unreachable!().
#[test]
fn f5_genesis_with_unknown_protocol_version_is_a_decode_error() {
    use zksync_protobuf::ProtoFmt;
    let g = validator::GenesisRaw {
        chain_id: validator::ChainId(1), fork_number: validator::ForkNumber(0), protocol_version: validator::ProtocolVersion(2),
        first_block: validator::BlockNumber(0), validators_schedule: None };
    let mut p = g.build();
    p.protocol_version = Some(3);
    assert!(validator::GenesisRaw::read(&p).is_err());
}
