"""Mechanical generation of the prost message types from the .proto files of /repo (R-proto).

prost maps (proto3, every scalar field here is `optional` = explicit presence):
    optional <scalar> f   -> pub f: Option<scalar>          optional bytes f -> Option<Vec<u8>>
    optional <Msg> f      -> pub f: Option<Msg>             repeated <T> f   -> Vec<T>
    oneof t { A a = 1; }  -> pub t: Option<msg_snake::T>    with  pub mod msg_snake { pub enum T { A(A), .. } }
    message names         -> heck UpperCamelCase ("TimeoutQCV2" -> "TimeoutQcv2"); field names -> snake_case ("bytes_" -> "bytes")
Only what the conversion functions can observe is produced: the field list with types. (prost's derives, Default, the reflection
descriptor and the wire codec are not represented: the wire layer is outside the claim.)
"""
import re

SCALARS = {"uint64": "u64", "uint32": "u32", "int64": "i64", "int32": "i32", "bool": "bool", "bytes": "Vec<u8>", "string": "String",
           "sint64": "i64", "sint32": "i32", "fixed64": "u64", "fixed32": "u32"}


class ProtoError(Exception):
    pass


def _words(name):
    """heck's word segmentation: `_` splits; lower->upper splits after the lower; within an upper run, an upper followed by a
    lower starts a new word; digits inherit the case mode of the preceding letter."""
    out = []
    for part in re.split(r"[^A-Za-z0-9]+", name):
        if not part:
            continue
        start = 0
        mode = None                      # 'l' / 'u'
        n = len(part)
        for i, c in enumerate(part):
            nxt = part[i + 1] if i + 1 < n else ""
            if c.islower():
                nmode = 'l'
            elif c.isupper():
                nmode = 'u'
            else:
                nmode = mode
            if nxt:
                if nmode == 'l' and nxt.isupper():
                    out.append(part[start:i + 1])
                    start = i + 1
                    nmode = None
                elif mode == 'u' and c.isupper() and nxt.islower():
                    if i > start:
                        out.append(part[start:i])
                    start = i
            mode = nmode
        if start < n:
            out.append(part[start:])
    return out


def camel(name):
    return "".join(w[:1].upper() + w[1:].lower() for w in _words(name))


def snake(name):
    return "_".join(w.lower() for w in _words(name))


def _strip_comments(text):
    text = re.sub(r"/\*.*?\*/", "", text, flags=re.S)
    return re.sub(r"//[^\n]*", "", text)


def _tokens(text):
    return re.findall(r"[A-Za-z_][A-Za-z0-9_.]*|\d+|\"[^\"]*\"|[{}=;,<>\[\]()]", text)


class Msg:
    def __init__(self, name, pkg):
        self.name, self.pkg = name, pkg
        self.fields = []      # (label, type, name)
        self.oneofs = []      # (name, [(type, name)])
        self.nested = []


def parse(text, msgs):
    toks = _tokens(_strip_comments(text))
    i = 0
    pkg = ""

    def skip_stmt(i):
        while toks[i] != ";":
            i += 1
        return i + 1

    def parse_msg(i, pkg, prefix):
        # toks[i] == 'message'
        m = Msg(prefix + toks[i + 1], pkg)
        if toks[i + 2] != "{":
            raise ProtoError("expected { after message " + m.name)
        i += 3
        while toks[i] != "}":
            t = toks[i]
            if t == "message":
                i, sub = parse_msg(i, pkg, "")
                sub.parent = m
                m.nested.append(sub)
            elif t in ("reserved", "option"):
                i = skip_stmt(i)
            elif t == "oneof":
                oname = toks[i + 1]
                if toks[i + 2] != "{":
                    raise ProtoError("oneof")
                i += 3
                alts = []
                while toks[i] != "}":
                    alts.append((toks[i], toks[i + 1]))
                    i = skip_stmt(i)
                i += 1
                m.oneofs.append((oname, alts))
            elif t in ("optional", "repeated", "required"):
                m.fields.append((t, toks[i + 1], toks[i + 2]))
                i = skip_stmt(i)
            elif t in ("enum", "map", "extensions", "extend"):
                raise ProtoError("unsupported construct in message %s: %s" % (m.name, t))
            else:     # proto3 implicit-presence field
                m.fields.append(("plain", toks[i], toks[i + 1]))
                i = skip_stmt(i)
        return i + 1, m

    while i < len(toks):
        t = toks[i]
        if t == "package":
            pkg = toks[i + 1]
            i = skip_stmt(i)
        elif t in ("syntax", "import", "option"):
            i = skip_stmt(i)
        elif t == "message":
            i, m = parse_msg(i, pkg, "")
            msgs.append(m)
        elif t == "enum":
            raise ProtoError("top-level enum unsupported")
        else:
            raise ProtoError("unexpected token %r" % t)
    return msgs


def _rust_type(ty, pkg_mod, owner):
    """Rust path of a field type as seen from a module that glob-imports `mod proto` (every nested module does `use super::*`)."""
    if ty in SCALARS:
        return SCALARS[ty]
    parts = ty.split(".")
    name = camel(parts[-1])
    if len(parts) > 1:
        for pkg, mod in pkg_mod.items():
            if pkg.split(".")[-(len(parts) - 1):] == parts[:-1]:
                return (mod + "::" if mod else "") + name
        raise ProtoError("unknown package in type " + ty)
    for n in owner.nested:
        if n.name == ty:
            return snake(owner.name) + "::" + name
    return name


def _emit_msg(m, ind, pkg_mod, derive):
    lines = [ind + derive, ind + "pub struct %s {" % camel(m.name)]
    for label, ty, name in m.fields:
        rt = _rust_type(ty, pkg_mod, m)
        if label == "repeated":
            rt = "Vec<%s>" % rt
        elif label != "plain" or ty not in SCALARS:
            # explicit presence (`optional`), and every singular MESSAGE field, is an Option in prost
            rt = "Option<%s>" % rt
        lines.append(ind + "    pub %s: %s," % (snake(name), rt))
    for oname, alts in m.oneofs:
        lines.append(ind + "    pub %s: Option<%s::%s>," % (snake(oname), snake(m.name), camel(oname)))
    lines.append(ind + "}")
    if m.oneofs or m.nested:
        lines.append(ind + "pub mod %s {" % snake(m.name))
        lines.append(ind + "    use super::*;")
        for oname, alts in m.oneofs:
            lines.append(ind + "    " + derive)
            lines.append(ind + "    pub enum %s {" % camel(oname))
            for ty, name in alts:
                rt = _rust_type(ty, pkg_mod, m)
                if rt.startswith(snake(m.name) + "::"):
                    rt = rt[len(snake(m.name)) + 2:]
                lines.append(ind + "        %s(%s)," % (camel(name), rt))
            lines.append(ind + "    }")
        for n in m.nested:
            lines.extend(_emit_msg(n, ind + "    ", pkg_mod, derive))
        lines.append(ind + "}")
    return lines


def generate(repo, files_by_pkg, derive="#[derive(PartialEq, Eq, Structural)]"):
    """files_by_pkg: list of (package name, module name inside `proto` ('' = top level), [proto files relative to repo]).
    Returns (rust text of `pub mod proto { .. }`, list of (file, sha256))."""
    import hashlib
    import os
    by_pkg = {}
    prov = []
    for pkg, mod, files in files_by_pkg:
        msgs = by_pkg.setdefault(pkg, [])
        for f in files:
            text = open(os.path.join(repo, f)).read()
            prov.append((f, hashlib.sha256(text.encode()).hexdigest()))
            parse(text, msgs)
        for m in msgs:
            if m.pkg != pkg:
                raise ProtoError("package of %s is %s, expected %s" % (m.name, m.pkg, pkg))
    pkg_mod = {pkg: mod for pkg, mod, _ in files_by_pkg}
    body = []
    for pkg, mod, _ in files_by_pkg:
        if mod:
            body.append("    pub mod %s {\n        use super::*;" % mod)
            for m in by_pkg[pkg]:
                # inside `mod <mod>` the package's own messages are bare names
                body.extend(_emit_msg(m, "        ", dict(pkg_mod, **{pkg: ""}), derive))
            body.append("    }")
        else:
            for m in by_pkg[pkg]:
                body.extend(_emit_msg(m, "    ", pkg_mod, derive))
    return "pub mod proto {\n    use vstd::prelude::*;\n" + "\n".join(body) + "\n}\n", prov
