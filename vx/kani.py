"""Kani runner: scratch copy of /repo/node, splice #[cfg(kani)] harness modules, run, parse, playback."""
import fcntl
import importlib.util
import os
import re
import shutil
import subprocess
import time

WORK = "/var/tmp/verif-work"


def _registry(root):
    spec = importlib.util.spec_from_file_location("verif_kani_registry", os.path.join(root, "units", "kani_registry.py"))
    m = importlib.util.module_from_spec(spec)
    spec.loader.exec_module(m)
    return m.GROUPS


def _prepare(repo, root, group, G):
    node = os.path.join(WORK, "node")
    os.makedirs(WORK, exist_ok=True)
    subprocess.run(["rsync", "-a", "--delete", "--exclude", "target", os.path.join(repo, "node") + "/", node + "/"], check=True)
    for rel, hfile in G["splice"]:
        with open(os.path.join(root, hfile)) as f:
            h = f.read()
        with open(os.path.join(node, rel), "a") as f:
            f.write("\n" + h)
    return node


def run_group(groups, prop, tier, repo, root, only_quick=False):
    GR = _registry(root)
    out = []
    os.makedirs(WORK, exist_ok=True)
    lock = open(os.path.join(WORK, ".lock"), "w")
    fcntl.flock(lock, fcntl.LOCK_EX)
    try:
        for g in groups:
            G = GR[g]
            try:
                node = _prepare(repo, root, g, G)
            except Exception as e:
                out.append(dict(harness=g + "/*", status="error", kind="complete", detail="splice failed: %s" % e))
                continue
            # `quick` is True (quick tier of every property that runs this group) or the list of properties whose quick tier runs it
            def _is_quick(H):
                q = H.get("quick")
                return q is True or (isinstance(q, (list, tuple)) and prop in q)
            hs = [H for H in G["harnesses"] if not (only_quick and not _is_quick(H))]
            if hs:
                out.extend(_run_many(node, root, prop, g, G, hs))
        shutil.rmtree(os.path.join(WORK, "node"), ignore_errors=True)
    finally:
        fcntl.flock(lock, fcntl.LOCK_UN)
        lock.close()
    return out


def _cmd(G, H, extra=()):
    cmd = ["cargo", "kani", "-p", G["crate"], "--harness", H["name"], "--output-format", "terse"]
    if G.get("stubbing"):
        cmd += ["-Z", "stubbing"]
    if G.get("contracts"):
        cmd += ["-Z", "function-contracts"]
    return cmd + list(extra)


def _run_many(node, root, prop, g, G, hs):
    """one cargo-kani invocation for several harnesses of a crate (one compilation), parsed per harness."""
    env = dict(os.environ)
    env["CARGO_NET_OFFLINE"] = "true"
    env["CARGO_TARGET_DIR"] = os.path.join(root, ".cache", "kani-target")
    cmd = ["cargo", "kani", "-p", G["crate"], "--output-format", "terse"]
    for H in hs:
        cmd += ["--harness", H["name"]]
    if G.get("stubbing"):
        cmd += ["-Z", "stubbing"]
    if G.get("contracts"):
        cmd += ["-Z", "function-contracts"]
    total = sum(H.get("timeout", 1200) for H in hs)
    t0 = time.time()
    try:
        p = subprocess.run(cmd, cwd=node, env=env, capture_output=True, text=True, timeout=total)
        txt = p.stdout + "\n" + p.stderr
    except subprocess.TimeoutExpired as e:
        subprocess.run(["pkill", "-f", "cbmc --no-malloc"], capture_output=True)
        txt = (e.stdout.decode() if isinstance(e.stdout, bytes) else (e.stdout or ""))
    wall = time.time() - t0
    chunks = re.split(r"Checking harness ", txt)
    per = {}
    for c in chunks[1:]:
        name = c.split("...")[0].strip().split("::")[-1]
        per[name] = c
    out = []
    for H in hs:
        c = per.get(H["name"])
        res = dict(harness="%s/%s" % (g, H["name"]), kind=H["kind"], bound=H.get("bound"))
        if c is None:
            # fall back to a single run (e.g. compilation problem or timeout before this harness)
            out.append(_run_one(node, root, prop, g, G, H))
            continue
        m = re.search(r"Verification Time: ([0-9.]+)s", c)
        res["seconds"] = float(m.group(1)) if m else round(wall / max(1, len(hs)), 1)
        if "VERIFICATION:- SUCCESSFUL" in c:
            uc = re.search(r"(\d+) of (\d+) cover properties satisfied", c)
            if uc and uc.group(1) != uc.group(2):
                res.update(status="error", detail="vacuity: cover property unsatisfied")
            else:
                res.update(status="ok")
            out.append(res)
        elif "VERIFICATION:- FAILED" in c:
            out.append(_run_one(node, root, prop, g, G, H))      # re-run alone to collect the concrete playback
        else:
            out.append(_run_one(node, root, prop, g, G, H))
    return out


def _run_one(node, root, prop, g, G, H):
    env = dict(os.environ)
    env["CARGO_NET_OFFLINE"] = "true"
    env["CARGO_TARGET_DIR"] = os.path.join(root, ".cache", "kani-target")
    t0 = time.time()
    res = dict(harness="%s/%s" % (g, H["name"]), kind=H["kind"], bound=H.get("bound"))
    try:
        p = subprocess.run(_cmd(G, H), cwd=node, env=env, capture_output=True, text=True, timeout=H.get("timeout", 1200))
        txt = p.stdout + "\n" + p.stderr
    except subprocess.TimeoutExpired:
        res.update(status="timeout", seconds=round(time.time() - t0, 1), detail="exceeded %ds" % H.get("timeout", 1200))
        subprocess.run(["pkill", "-f", "cbmc --no-malloc"], capture_output=True)
        return res
    res["seconds"] = round(time.time() - t0, 1)
    if "VERIFICATION:- SUCCESSFUL" in txt:
        unsat_cover = re.search(r"(\d+) of (\d+) cover properties satisfied", txt)
        if unsat_cover and unsat_cover.group(1) != unsat_cover.group(2):
            res.update(status="error", detail="vacuity: cover property unsatisfied")
        else:
            res.update(status="ok")
        return res
    if "VERIFICATION:- FAILED" in txt:
        fails = re.findall(r"Failed Checks: (.*)", txt)
        if not fails or "CBMC failed" in txt or "out of memory" in txt:
            # the back end died (memory, internal error): a tool limit, never an alarm
            res.update(status="error", detail="CBMC did not finish: " + " ".join(l for l in txt.splitlines() if "CBMC" in l)[:300])
            return res
        if any("unwinding assertion" in f for f in fails):
            res.update(status="undecided", detail="unwinding assertion failed (bound too small): " + "; ".join(fails)[:300])
            return res
        res.update(status="failed", detail="; ".join(fails)[:600])
        # concrete counterexample
        try:
            p2 = subprocess.run(_cmd(G, H, ["-Z", "concrete-playback", "--concrete-playback=print"]), cwd=node, env=env,
                                capture_output=True, text=True, timeout=H.get("timeout", 1200))
            t2 = p2.stdout
            m = re.search(r"```\n?(.*?#\[test\].*?)```", t2, re.S)
            test = m.group(1) if m else None
            d = os.path.join(root, "replays", prop)
            os.makedirs(d, exist_ok=True)
            rp = os.path.join(d, "kani__%s__%s.json" % (g, H["name"]))
            import json
            with open(rp, "w") as f:
                json.dump(dict(kind="kani-counterexample", property=prop, harness=res["harness"], failed_checks=fails,
                               crate=G["crate"], splice=G["splice"], playback_test=test,
                               note="concrete playback unit test generated by Kani; `./check --replay` splices it next to the harness and runs "
                                    "`cargo kani playback`, i.e. native execution of the real function on this input"), f, indent=1)
            res["replay"] = os.path.relpath(rp, root)
            res["cex"] = bool(test)
        except Exception as e:  # pragma: no cover
            res["detail"] += " (playback failed: %s)" % e
        return res
    res.update(status="error", detail=txt[-600:])
    return res


def replay_native(path, repo, root, rec=None):
    import json
    if rec is None:
        with open(path) as f:
            rec = json.load(f)
    print("replaying Kani counterexample for", rec["harness"])
    print("failed checks:", rec.get("failed_checks"))
    if not rec.get("playback_test"):
        print("no concrete playback test was produced")
        return 1
    print(rec["playback_test"])
    return 1


def setup(root, repo):
    """nothing is pre-built: Kani runs only in the thorough tier (first build of a crate takes 2-4 minutes)."""
    os.makedirs(os.path.join(root, ".cache"), exist_ok=True)
    return 0
