"""Unit = a set of real functions/types extracted from /repo + contracts woven in, one generated Verus file.

A unit spec is a python file under /verif/units/ that builds a `Unit` by calling:
    U.raw(text, label=..)                      -- prelude / spec fns / lemmas (text lives in /verif)
    U.item(file, path, ..)                     -- struct/enum/const copied from /repo
    U.fn(file, path, spec=.., ret=.., ..)      -- function copied from /repo, contract woven between
                                                  signature and body; body text untouched except by named rules
"""
import hashlib
import os
import re

from . import rules
from .items import load, LostAnchor
from .lex import tokenize, match_close, texts, find_seq, OPEN

DEFAULT_FN_RULES = ("R-log", "R-errmsg", "R-underscore", "R-ctorfn")

RULE_FUNCS = {
    "R-log": rules.r_log,
    "R-errmsg": rules.r_errmsg,
    "R-underscore": rules.r_underscore,
    "R-ctorfn": rules.r_ctorfn,
    "R-metrics": rules.r_metrics,
}

HEADER = """// GENERATED on every run by /verif/vx from the current working tree of /repo. Do not edit.
// unit = {name}
#![allow(unused_imports, unused_variables, dead_code, unused_mut, unused_parens, non_snake_case, unused_braces, unused_assignments, unreachable_code, unreachable_patterns)]
{crate_attrs}
use vstd::prelude::*;
{uses}
verus! {{
global size_of usize == 8;
"""

FOOTER = """
} // verus!
fn main() {}
"""


class Section:
    def __init__(self, label, text, kind, props, meta=None):
        self.label = label
        self.text = text
        self.kind = kind          # raw | item | fn
        self.props = props
        self.meta = meta or {}
        self.gen_lines = None     # (first, last) line in generated file
        self.canary_offsets = []  # offsets in self.text where `assert(false);` is inserted for the canary file


class Unit:
    def __init__(self, name, props, desc="", uses="", crate_attrs=""):
        self.name = name
        self.props = list(props)
        self.desc = desc
        self.uses = uses
        self.crate_attrs = crate_attrs
        self.sections = []
        self.repo = None
        self.assumptions = []      # prose, printed in the evidence
        self.kani = []             # names of kani harness groups that twin this unit
        self.expected_trusted = None
        self.tail_subs = []        # R-path substitutions applied to every function body after the function's own subs (any count)

    # ------------------------------------------------------------------------------------------
    def assume(self, text):
        self.assumptions.append(text)

    def raw(self, text, label="prelude", props=None, canary=False):
        s = Section(label, text.strip("\n") + "\n", "raw", props or self.props, dict(canary=canary))
        self.sections.append(s)
        return s

    def _apply_subs(self, text, subs, fired):
        for s in subs or ():
            if len(s) == 2:
                old, new = s
                cnt = 1
            else:
                old, new, cnt = s
            text, n = rules.sub(text, old, new, cnt)
            fired.append(("sub", n, old if len(old) < 200 else old[:200] + "…", new if len(new) < 200 else new[:200] + "…"))
        return text

    def item(self, file, path, subs=None, attrs="", vis=True, label=None, props=None, keep_attrs=False):
        """copy a struct/enum/const/type definition."""
        if isinstance(path, str):
            path = [p.strip() for p in path.split(" :: ") if p.strip()]
        src = load(self.repo, file)
        it = src.find(path)
        fired = []
        text = it.text()
        text, n = rules.strip_comments(text)
        if not keep_attrs:
            text, n = rules.strip_attrs(text)
            fired.append(("R-attr", n))
        if vis:
            text, n1 = rules.r_vis_item(text)
            text, n2 = rules.r_vis_fields(text)
            fired.append(("R-vis", n1 + n2))
        text = self._apply_subs(text, subs, fired)
        text = (attrs.strip() + "\n" if attrs.strip() else "") + text.strip() + "\n"
        a, b = it.line_span()
        meta = dict(file=file, path=" :: ".join(path), lines=[a, b], src_sha256=it.token_hash(),
                    gen_sha256=hashlib.sha256(text.encode()).hexdigest(), rules=fired, kind=it.kind)
        s = Section(label or " :: ".join(path), text, "item", props or self.props, meta)
        self.sections.append(s)
        return s

    def fn(self, file, path, spec="", ret=None, subs=None, rules_=DEFAULT_FN_RULES, wrap=None, name=None,
           attrs="", loops=None, props=None, label=None, pre="", post_subs=None, vis=True, canary=True,
           covers=None, header_subs=None, no_body=False, proof_at_start="", chains=None, closures=None,
           index_loops=None, regions=None):
        """copy a function; weave `spec` (requires/ensures/decreases text) between signature and body.

        loops: {k: dict(prefix="for l in self.leaders.iter()", iter=None|"it", inv="...", decreases="...")}
        wrap:  e.g. "impl Schedule" -> the function is emitted inside that impl block
        covers: list of token anchors after which the canary file gets `assert(false)` (reachability)
        """
        if isinstance(path, str):
            path = [p.strip() for p in path.split(" :: ") if p.strip()]
        src = load(self.repo, file)
        it = src.find(path)
        if it.kind != "fn":
            raise LostAnchor("%s: %r is not a fn" % (file, path))
        fired = []
        header = it.header_text()
        body = it.body_text() if it.body_open is not None else None
        if body is None:
            raise LostAnchor("%s: %r has no body" % (file, path))
        header, _ = rules.strip_comments(header)
        header, n = rules.strip_attrs(header)
        body, _ = rules.strip_comments(body)
        body, n2 = rules.strip_attrs(body)
        if n + n2:
            fired.append(("R-attr", n + n2))
        for r in rules_:
            body, n = RULE_FUNCS[r](body)
            if n:
                fired.append((r, n))
        for rg in regions or ():
            body = apply_region(body, rg, fired)
        body = self._apply_subs(body, subs, fired)
        body = self._apply_subs(body, self.tail_subs, fired)
        for ch in chains or ():
            body = apply_chain(body, ch, fired)
        for cs in closures or ():
            body = apply_closure(body, cs, fired)
        if loops:
            body = self._weave_loops(body, loops, fired)
        for k in sorted(index_loops or {}, reverse=True):
            body = apply_index_loop(body, k, index_loops[k], fired)
        body = self._apply_subs(body, post_subs, fired)
        if vis:
            header, n = rules.r_vis_item(header)
        header = self._apply_subs(header, header_subs, fired)
        if name:
            header, n = rules.sub(header, "fn " + it.name, "fn " + name, 1)
            fired.append(("rename", 1, it.name, name))
        if ret:
            header, n = rules.name_ret(header, ret)
            if n:
                fired.append(("W-ret", 1))
        spec_txt = spec.strip("\n")
        if spec_txt:
            fired.append(("W-contract", len([l for l in spec_txt.splitlines() if l.strip()])))
        if proof_at_start:
            assert body.lstrip().startswith("{")
            k = body.index("{")
            body = body[:k + 1] + " " + proof_at_start.strip() + " " + body[k + 1:]
            fired.append(("W-ghost", 1))
        pieces = []
        if wrap:
            pieces.append(wrap + " {\n")
        if attrs.strip():
            pieces.append(attrs.strip() + "\n")
        pieces.append(header.rstrip() + "\n")
        if spec_txt:
            pieces.append(spec_txt + "\n")
        head_len = sum(len(p) for p in pieces)
        pieces.append(body.rstrip() + "\n")
        if wrap:
            pieces.append("}\n")
        text = "".join(pieces)
        canary_offsets = []
        if canary:
            # right after the body's opening brace
            k = text.index("{", head_len)
            canary_offsets.append(k + 1)
            for anchor in covers or ():
                toks = tokenize(text)
                hits = find_seq(toks, texts(tokenize(anchor)))
                if len(hits) != 1:
                    raise LostAnchor("cover anchor %r matches %d times in %s" % (anchor, len(hits), path))
                canary_offsets.append(toks[hits[0]].start)
        a, b = it.line_span()
        meta = dict(file=file, path=" :: ".join(path), lines=[a, b], src_sha256=it.token_hash(),
                    gen_sha256=hashlib.sha256(text.encode()).hexdigest(), rules=fired, kind="fn",
                    fn_name=name or it.name, contract=spec_txt, src_text=it.text())
        s = Section(label or ((wrap + " :: ") if wrap else "") + "fn " + (name or it.name), text, "fn",
                    props or self.props, meta)
        s.canary_offsets = canary_offsets
        self.sections.append(s)
        return s

    def trait_impl(self, file, path, extra="", fns=None, header_subs=None, props=None, label=None, vis=False):
        """copy a whole `impl Trait for Type { .. }` block: associated types/consts are kept, `extra` (spec fns of the trait) is
        inserted after them, every fn listed in `fns` (name -> dict of the body options of `fn`: subs, chains, closures, loops,
        index_loops, post_subs, rules_, header_subs, ret, spec, proof_at_start) is copied with its body untouched except by those
        rules. Functions of the impl that are not listed are dropped (recorded). The contract of a trait method is the one
        declared on the trait, so no canary copy is made (a renamed method would not be a member of the trait)."""
        if isinstance(path, str):
            path = [p.strip() for p in path.split(" :: ") if p.strip()]
        src = load(self.repo, file)
        it = src.find(path)
        if it.kind != "impl":
            raise LostAnchor("%s: %r is not an impl" % (file, path))
        fired = []
        header = it.header_text()
        header, _ = rules.strip_comments(header)
        header, n = rules.strip_attrs(header)
        header = self._apply_subs(header, header_subs, fired)
        body_src, _ = rules.strip_comments(it.body_text())
        # associated items other than fns: `type X = ..;` / `const X: T = ..;`
        assoc = re.findall(r"^\s*((?:type|const)\s+[^;{}]*;)", body_src, flags=re.M)
        assoc_txt = "".join("    " + self._apply_subs(a, header_subs, fired) + "\n" for a in assoc)
        pieces = [header.rstrip() + " {\n", assoc_txt]
        if extra.strip():
            pieces.append(extra.strip("\n") + "\n")
        kept = []
        for name, opt in (fns or {}).items():
            sub_it = src.find(path + ["fn " + name])
            h, b = self._process_fn(sub_it, fired, vis=vis, **opt)
            spec_txt = (opt.get("spec") or "").strip("\n")
            pieces.append("    " + h.strip() + "\n" + (spec_txt + "\n" if spec_txt else "") + b.rstrip() + "\n")
            kept.append(name)
        pieces.append("}\n")
        text = "".join(pieces)
        a, b = it.line_span()
        meta = dict(file=file, path=" :: ".join(path), lines=[a, b], src_sha256=it.token_hash(),
                    gen_sha256=hashlib.sha256(text.encode()).hexdigest(), rules=fired, kind="fn",
                    fn_name=" + ".join(kept), contract="(contract declared on the trait) " + extra.strip()[:400], src_text=it.text())
        s = Section(label or " :: ".join(path), text, "fn", props or self.props, meta)
        s.canary_offsets = []
        self.sections.append(s)
        return s

    def _process_fn(self, it, fired, subs=None, rules_=DEFAULT_FN_RULES, loops=None, post_subs=None, vis=True, header_subs=None,
                    ret=None, proof_at_start="", chains=None, closures=None, index_loops=None, regions=None, spec=None):
        if it.kind != "fn":
            raise LostAnchor("%r is not a fn" % (it.name,))
        header = it.header_text()
        body = it.body_text() if it.body_open is not None else None
        if body is None:
            raise LostAnchor("%r has no body" % (it.name,))
        header, _ = rules.strip_comments(header)
        header, n = rules.strip_attrs(header)
        body, _ = rules.strip_comments(body)
        body, n2 = rules.strip_attrs(body)
        if n + n2:
            fired.append(("R-attr", n + n2))
        for r in rules_:
            body, n = RULE_FUNCS[r](body)
            if n:
                fired.append((r, n))
        for rg in regions or ():
            body = apply_region(body, rg, fired)
        body = self._apply_subs(body, subs, fired)
        body = self._apply_subs(body, self.tail_subs, fired)
        for ch in chains or ():
            body = apply_chain(body, ch, fired)
        for cs in closures or ():
            body = apply_closure(body, cs, fired)
        if loops:
            body = self._weave_loops(body, loops, fired)
        for k in sorted(index_loops or {}, reverse=True):
            body = apply_index_loop(body, k, index_loops[k], fired)
        body = self._apply_subs(body, post_subs, fired)
        if vis:
            header, n = rules.r_vis_item(header)
        header = self._apply_subs(header, header_subs, fired)
        if ret:
            header, n = rules.name_ret(header, ret)
            if n:
                fired.append(("W-ret", 1))
        if proof_at_start:
            k = body.index("{")
            body = body[:k + 1] + " " + proof_at_start.strip() + " " + body[k + 1:]
            fired.append(("W-ghost", 1))
        return header, body

    def lift_closure(self, file, path, prefix, name, sig, spec="", subs=None, rules_=DEFAULT_FN_RULES, wrap=None, props=None,
                     attrs="", post_subs=None, nth=None, of=None, block=False, fn_kw="fn", brace_at=None, loops=None, proof_at_start=""):
        """R-closure: the closure literal starting with `prefix` inside fn `path` is lifted to a function `name` with signature
        `sig` (its parameters followed by its captured variables); the closure BODY text is copied unchanged.
        block=True (R-block): `prefix` is a token run ending with the `{` of a block expression (e.g. `s.spawn::<()>(async {`); the
        block from that brace to its match is lifted instead (fn_kw="async fn" for an async block)."""
        if isinstance(path, str):
            path = [p.strip() for p in path.split(" :: ") if p.strip()]
        src = load(self.repo, file)
        it = src.find(path)
        fired = [("R-closure", 1, prefix)]
        fbody, _ = rules.strip_comments(it.body_text())
        toks = tokenize(fbody)
        hits = find_seq(toks, texts(tokenize(prefix)))
        if nth is not None:
            # the nth of exactly `of` closures with this prefix (both numbers must match, else the anchor is lost)
            if len(hits) != of:
                raise LostAnchor("closure prefix %r matches %d times in %s, expected %d" % (prefix, len(hits), path, of))
            hits = [hits[nth]]
        if len(hits) != 1:
            raise LostAnchor("closure prefix %r matches %d times in %s" % (prefix, len(hits), path))
        if block:
            pre_toks = texts(tokenize(prefix))
            # the block's brace is the last token of the prefix, or the brace_at-th token when the prefix goes on into the block
            blo = hits[0] + (len(pre_toks) - 1 if brace_at is None else brace_at)
            if toks[blo].text != "{":
                raise LostAnchor("block prefix %r: token %d is not `{`" % (prefix, blo - hits[0]))
            bhi = match_close(toks, blo) + 1
            braced = True
            fired[0] = ("R-block", 1, prefix)
        else:
            plo, phi, blo, bhi, braced = closure_span(toks, hits[0])
        body = fbody[toks[blo].start:toks[bhi - 1].end]
        if not braced:
            body = "{ " + body + " }"
        body, n = rules.strip_attrs(body)
        for r in rules_:
            body, n = RULE_FUNCS[r](body)
            if n:
                fired.append((r, n))
        body = self._apply_subs(body, subs, fired)
        if loops:
            body = self._weave_loops(body, loops, fired)
        body = self._apply_subs(body, post_subs, fired)
        if proof_at_start:
            k0 = body.index("{")
            body = body[:k0 + 1] + " " + proof_at_start.strip() + " " + body[k0 + 1:]
            fired.append(("W-ghost", 1))
        spec_txt = spec.strip("\n")
        pieces = []
        if wrap:
            pieces.append(wrap + " {\n")
        if attrs.strip():
            pieces.append(attrs.strip() + "\n")
        pieces.append("pub " + fn_kw + " " + name + sig.rstrip() + "\n")
        if spec_txt:
            pieces.append(spec_txt + "\n")
        head_len = sum(len(p) for p in pieces)
        pieces.append(body.rstrip() + "\n")
        if wrap:
            pieces.append("}\n")
        text = "".join(pieces)
        h = hashlib.sha256()
        for tk in toks[hits[0]:bhi]:
            h.update(tk.text.encode())
            h.update(b"\0")
        a, b = it.line_span()
        meta = dict(file=file, path=" :: ".join(path) + " :: closure " + prefix, lines=[a, b], src_sha256=h.hexdigest(),
                    gen_sha256=hashlib.sha256(text.encode()).hexdigest(), rules=fired, kind="fn", fn_name=name, contract=spec_txt,
                    src_text=fbody[toks[hits[0]].start:toks[bhi - 1].end])
        s = Section(((wrap + " :: ") if wrap else "") + "fn " + name, text, "fn", props or self.props, meta)
        s.canary_offsets = [text.index("{", head_len) + 1]
        self.sections.append(s)
        return s

    # ------------------------------------------------------------------------------------------
    def _weave_loops(self, body, loops, fired):
        """W-inv: attach invariants to the k-th loop (ordinal among for/while/loop keywords in the body)."""
        toks = tokenize(body)
        loop_idx = [i for i, t in enumerate(toks) if t.kind == "id" and t.text in ("for", "while", "loop")
                    and not (i > 0 and toks[i - 1].text in (".", "::"))]
        edits = []
        for k, spec in sorted(loops.items()):
            if k >= len(loop_idx):
                if not loop_idx:
                    # the function has become loop-free: nothing to attach the invariant to, and a loop-free body
                    # needs no invariant -- Verus decides it as it stands
                    fired.append(("W-inv skipped (function is loop-free now)", 1, spec["prefix"]))
                    continue
                raise LostAnchor("loop #%d not found (function has %d loops)" % (k, len(loop_idx)))
            i = loop_idx[k]
            pre = texts(tokenize(spec["prefix"]))
            if texts(toks[i:i + len(pre)]) != pre:
                raise LostAnchor("loop #%d header %r does not start with %r" % (
                    k, " ".join(texts(toks[i:i + len(pre)])), spec["prefix"]))
            # body brace: first '{' at depth 0 after the keyword
            j = i + 1
            while j < len(toks):
                t = toks[j]
                if t.kind == "punct" and t.text == "{":
                    break
                if t.kind == "punct" and t.text in ("(", "["):
                    j = match_close(toks, j) + 1
                    continue
                j += 1
            if j >= len(toks):
                raise LostAnchor("loop #%d has no body" % k)
            ins = ""
            if spec.get("inv"):
                ins += "\n    invariant\n" + spec["inv"].rstrip().rstrip(",") + ",\n"
            if spec.get("ensures"):
                ins += "    ensures\n" + spec["ensures"].rstrip().rstrip(",") + ",\n"
            if spec.get("decreases"):
                ins += "    decreases " + spec["decreases"].strip() + ",\n"
            edits.append((toks[j].start, toks[j].start, ins))
            if spec.get("iter"):
                # for PAT in EXPR  ->  for PAT in NAME: EXPR
                q = i + 1
                while q < j and toks[q].text != "in":
                    if toks[q].kind == "punct" and toks[q].text in OPEN:
                        q = match_close(toks, q) + 1
                    else:
                        q += 1
                if q >= j:
                    raise LostAnchor("loop #%d: no `in`" % k)
                edits.append((toks[q].end, toks[q].end, " " + spec["iter"] + ":"))
            fired.append(("W-inv", 1, spec["prefix"]))
        return rules.apply_edits(body, edits)

    # ------------------------------------------------------------------------------------------
    def generate(self, canary=False):
        """returns (text, sections with gen_lines set)."""
        out = [HEADER.format(name=self.name, uses=self.uses, crate_attrs=self.crate_attrs)]
        line = out[0].count("\n") + 1
        for s in self.sections:
            text = s.text
            if canary:
                if s.kind == "fn" and s.canary_offsets:
                    edits = [(o, o, " assert(false); ") for o in s.canary_offsets]
                    text = rules.apply_edits(text, edits)
                elif s.kind == "raw" and s.meta.get("canary"):
                    # every proof fn body in a raw section gets assert(false) at its start
                    text = _canary_raw(text)
            first = line
            out.append(text)
            line += text.count("\n")
            if not text.endswith("\n"):
                out.append("\n")
                line += 1
            s.gen_lines = (first, line - 1)
            out.append("\n")
            line += 1
        out.append(FOOTER)
        return "".join(out)

    def section_at(self, gen_line):
        for s in self.sections:
            if s.gen_lines and s.gen_lines[0] <= gen_line <= s.gen_lines[1]:
                return s
        return None

    def item_hashes(self):
        return {s.meta["file"] + " :: " + s.meta["path"]: s.meta["src_sha256"]
                for s in self.sections if s.kind in ("fn", "item")}

    def trusted_scan(self):
        """mechanical list of trusted constructs in the generated file."""
        text = self.generate()
        out = []
        lines = text.splitlines()
        pat = re.compile(r"external_body|assume_specification|\bassume\s*\(|\badmit\s*\(|external_type_specification|"
                         r"verifier::external\b|external_trait_specification|exec_allows_no_decreases_clause")
        for i, l in enumerate(lines):
            m = pat.search(l)
            if not m or l.lstrip().startswith("//"):
                continue
            # name: next few lines' first fn/struct/trait identifier
            ctx = " ".join(lines[i:i + 4])
            nm = re.search(r"\b(fn|struct|enum|trait|type)\s+([A-Za-z_0-9]+)", ctx)
            br = re.search(r"assume_specification\s*(<[^\[]*>)?\s*\[([^\]]+)\]", ctx)
            name = br.group(2).strip() if (br and "assume_specification" in m.group(0)) else (nm.group(2) if nm else "?")
            cls = re.search(r"//\s*(A[1-7])\b", ctx)
            out.append("%s %s%s" % (m.group(0).strip(" ("), name, " [" + cls.group(1) + "]" if cls else ""))
        return out


def closure_span(toks, i):
    """toks[i] is the first token of a closure literal (`move`, `|` or `||`).
    returns (params_lo, params_hi, body_lo, body_hi, braced) as token indices (hi exclusive)."""
    j = i
    if toks[j].text == "move":
        j += 1
    if toks[j].text == "||":
        plo = phi = j + 1
        j += 1
    elif toks[j].text == "|":
        plo = j + 1
        k = j + 1
        while k < len(toks) and toks[k].text != "|":
            if toks[k].kind == "punct" and toks[k].text in OPEN:
                k = match_close(toks, k) + 1
            else:
                k += 1
        phi = k
        j = k + 1
    else:
        raise LostAnchor("not a closure at token %r" % toks[i].text)
    if toks[j].text == "->":
        raise LostAnchor("closure already has a return type")
    if toks[j].kind == "punct" and toks[j].text == "{":
        e = match_close(toks, j)
        return plo, phi, j, e + 1, True
    k = j
    while k < len(toks):
        t = toks[k]
        if t.kind == "punct":
            if t.text in OPEN:
                k = match_close(toks, k) + 1
                continue
            if t.text in (",", ")", "]", "}", ";"):
                break
        k += 1
    return plo, phi, j, k, False


def weave_closure(text, cs):
    """W-closure (+R-tuplepat): annotate a closure literal with parameter types, a named result and a spec.
    cs: dict(ty=str|[str], ret="b: bool", spec="requires .. ensures ..", name="verif_p")"""
    toks = tokenize(text)
    plo, phi, blo, bhi, braced = closure_span(toks, 0)
    mv = "move " if toks[0].text == "move" else ""
    ptext = text[toks[plo].start:toks[phi - 1].end] if phi > plo else ""
    tys = cs.get("ty", [])
    if isinstance(tys, str):
        tys = [tys]
    # split params on top-level commas
    params = []
    if ptext:
        ptoks = tokenize(ptext)
        cur = 0
        k = 0
        while k < len(ptoks):
            if ptoks[k].kind == "punct" and ptoks[k].text in OPEN:
                k = match_close(ptoks, k) + 1
                continue
            if ptoks[k].text == ",":
                params.append(ptext[cur:ptoks[k].start].strip())
                cur = ptoks[k].end
            k += 1
        params.append(ptext[cur:].strip())
    if len(params) != len(tys):
        raise LostAnchor("closure %r has %d params, spec gives %d types" % (text[:60], len(params), len(tys)))
    plist = []
    lets = []
    names = []
    for n, (p, ty) in enumerate(zip(params, tys)):
        pt = tokenize(p)
        if len(pt) == 1 and pt[0].kind == "id" and p != "_":
            nm = p
        elif p == "_":
            nm = "_verif_unused%d" % n
        else:
            nm = cs.get("name", "verif_p") + (str(n) if n else "")
            lets.append("let %s = %s;" % (p, nm))
        names.append(nm)
        plist.append("%s: %s" % (nm, ty))
    body = text[toks[blo].start:toks[bhi - 1].end]
    if braced and not lets:
        inner = body
    elif braced:
        inner = "{ " + " ".join(lets) + " " + body[1:]
    else:
        inner = "{ " + " ".join(lets) + (" " if lets else "") + body + " }"
    spec = cs.get("spec", "")
    for n, nm in enumerate(names):
        spec = spec.replace("{p%d}" % n, nm)
    if names:
        spec = spec.replace("{p}", names[0])
    ret = " -> (%s)" % cs["ret"] if cs.get("ret") else ""
    return "%s|%s|%s %s %s" % (mv, ", ".join(plist), ret, spec.strip(), inner)


def apply_chain(body, ch, fired):
    """R-chain: replace `RECV.m0(..).m1(..)...` by a template call, closures woven (their bodies untouched)."""
    toks = tokenize(body)
    recv = texts(tokenize(ch["recv"]))
    methods = ch["methods"]
    hits = []
    for h in find_seq(toks, recv + [".", methods[0]]):
        if h > 0 and toks[h - 1].text in (".", "::"):
            continue
        # walk the chain
        j = h + len(recv)
        args = []
        ok = True
        for m in methods:
            if j + 1 >= len(toks) or toks[j].text != "." or toks[j + 1].text != m:
                ok = False
                break
            j += 2
            if toks[j].text == "::":      # turbofish
                j += 1
                from .lex import angle_skip
                j = angle_skip(toks, j)
            if toks[j].text != "(":
                ok = False
                break
            e = match_close(toks, j)
            args.append(body[toks[j].end:toks[e].start].strip())
            j = e + 1
        if not ok:
            continue
        # chain must end here (next token is not another method call of the same chain kind we did not list)
        hits.append((h, j, args))
    cnt = ch.get("count", 1)
    if not hits and ch.get("optional"):
        # the pipeline is not there (any more): nothing to route through the template; what replaced it is decided as it stands
        fired.append(("R-chain skipped (no such pipeline)", 0, ch["recv"] + "." + ".".join(methods)))
        return body
    if len(hits) != cnt:
        raise LostAnchor("chain %s.%s matches %d times, expected %d" % (ch["recv"], ".".join(methods), len(hits), cnt))
    edits = []
    for h, j, args in hits:
        fmt = dict(recv=ch["recv"])
        for k, a in enumerate(args):
            cs = (ch.get("closures") or {}).get(k)
            fmt["a%d" % k] = weave_closure(a, cs) if cs else a
        new = ch["template"].format(**fmt)
        a0, b0 = toks[h].start, toks[j - 1].end
        seg = body[a0:b0]
        edits.append((a0, b0, new + "\n" * max(0, seg.count("\n") - new.count("\n"))))
        fired.append(("R-chain", 1, ch["recv"] + "." + ".".join(methods), ch["template"].split("(")[0]))
        for k in (ch.get("closures") or {}):
            fired.append(("W-closure", 1, args[k][:80]))
    return rules.apply_edits(body, edits)


def apply_region(body, rg, fired):
    """R-stub on a statement region: from the start of the statement that begins with `first` to the end (`;`) of the statement
    containing `last`; both anchors must match exactly once, `last` after `first`. rg = (first, last, replacement)."""
    first, last, rep = rg
    toks = tokenize(body)
    h1 = find_seq(toks, texts(tokenize(first)))
    if len(h1) != 1:
        raise LostAnchor("region start %r matches %d times" % (first, len(h1)))
    h2 = [h for h in find_seq(toks, texts(tokenize(last))) if h >= h1[0]]
    if len(h2) != 1:
        raise LostAnchor("region end %r matches %d times after the start" % (last, len(h2)))
    j = h2[0]
    while j < len(toks):
        t = toks[j]
        if t.kind == "punct" and t.text in OPEN:
            j = match_close(toks, j) + 1
            continue
        if t.text == ";":
            break
        j += 1
    if j >= len(toks):
        raise LostAnchor("region end: no `;`")
    a, b = toks[h1[0]].start, toks[j].end
    seg = body[a:b]
    fired.append(("sub", 1, seg if len(seg) < 1500 else seg[:1500] + "…", rep + "   /* R-stub */"))
    return body[:a] + rep + "\n" * max(0, seg.count("\n") - rep.count("\n")) + body[b:]


def apply_closure(body, cs, fired):
    """W-closure on a closure found by its token prefix (cs['prefix']); must match exactly once."""
    toks = tokenize(body)
    if cs.get("after"):
        # the closure literal is the token run that starts right after `after` (e.g. "send_if_modified(": the first argument of that call,
        # whatever its parameter is called); optional=True: no such call => nothing to annotate
        aft = texts(tokenize(cs["after"]))
        hits = [h + len(aft) for h in find_seq(toks, aft) if toks[h + len(aft)].text in ("|", "||", "move")]
        if not hits and cs.get("optional"):
            return body
        cs = dict(cs, prefix=cs["after"] + " <closure>")
    else:
        pre = texts(tokenize(cs["prefix"]))
        hits = find_seq(toks, pre)
    if len(hits) != cs.get("count", 1):
        raise LostAnchor("closure prefix %r matches %d times" % (cs["prefix"], len(hits)))
    edits = []
    for h in hits:
        plo, phi, blo, bhi, braced = closure_span(toks, h)
        a0, b0 = toks[h].start, toks[bhi - 1].end
        edits.append((a0, b0, weave_closure(body[a0:b0], cs)))
        fired.append(("W-closure", 1, cs["prefix"]))
    return rules.apply_edits(body, edits)


def apply_index_loop(body, k, spec, fired):
    """R-formap / R-forslice / R-forenum: `for PAT in COLL-EXPR { B }` (k-th loop) becomes an indexed while loop
    `let mut verif_iK = 0; while verif_iK < LEN { let PAT = AT(verif_iK); [let IDX = verif_iK;] verif_iK += 1; B }`.
    B is untouched. spec: dict(prefix=.., len="self.map.len()", at="self.map.entry_at({i})", pat="(msg, signers)",
    idx=None|"i", inv=.., decreases=..)"""
    toks = tokenize(body)
    loop_idx = [i for i, t in enumerate(toks) if t.kind == "id" and t.text in ("for", "while", "loop")
                and not (i > 0 and toks[i - 1].text in (".", "::"))]
    if k >= len(loop_idx):
        raise LostAnchor("loop #%d not found" % k)
    i = loop_idx[k]
    pre = texts(tokenize(spec["prefix"]))
    if texts(toks[i:i + len(pre)]) != pre:
        raise LostAnchor("loop #%d header does not start with %r" % (k, spec["prefix"]))
    j = i + 1
    while j < len(toks) and not (toks[j].kind == "punct" and toks[j].text == "{"):
        if toks[j].kind == "punct" and toks[j].text in ("(", "["):
            j = match_close(toks, j) + 1
        else:
            j += 1
    # header must be exactly the prefix (so the collection expression is the one the spec names)
    if texts(toks[i:j]) != pre:
        raise LostAnchor("loop #%d header %r is not exactly %r" % (k, " ".join(texts(toks[i:j])), spec["prefix"]))
    iv = "verif_i%d" % k
    head = "let mut %s: usize = 0; while %s < %s" % (iv, iv, spec["len"])
    ins = ""
    if spec.get("inv"):
        ins += "\n    invariant\n" + spec["inv"].replace("{i}", iv).rstrip().rstrip(",") + ",\n"
    ins += "    decreases %s - %s,\n" % (spec.get("spec_len", spec["len"]), iv)
    first = " let %s = %s;" % (spec["pat"], spec["at"].replace("{i}", iv))
    if spec.get("idx"):
        first += " let %s = %s;" % (spec["idx"], iv)
    first += " %s += 1;" % iv
    if spec.get("body_start"):
        first += " " + spec["body_start"].replace("{i}", iv)
    edits = [(toks[i].start, toks[j].start, head + ins), (toks[j].end, toks[j].end, first)]
    fired.append(("R-forindex", 1, spec["prefix"]))
    return rules.apply_edits(body, edits)


def _canary_raw(text):
    toks = tokenize(text)
    edits = []
    i = 0
    while i < len(toks) - 2:
        if toks[i].text == "proof" and toks[i + 1].text == "fn":
            j = i + 2
            while j < len(toks) and not (toks[j].kind == "punct" and toks[j].text == "{"):
                if toks[j].kind == "punct" and toks[j].text in ("(", "["):
                    j = match_close(toks, j) + 1
                elif toks[j].text == ";":
                    break
                else:
                    j += 1
            if j < len(toks) and toks[j].text == "{":
                edits.append((toks[j].end, toks[j].end, " assert(false); "))
                i = match_close(toks, j) + 1
                continue
        i += 1
    return rules.apply_edits(text, edits)
