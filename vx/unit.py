"""Unit = a set of real functions/types extracted from /repo + contracts woven in, one generated Verus file.

A unit spec is a python file under /verif/units/ that builds a `Unit` by calling:
    U.raw(text, label=..)                      -- prelude / spec fns / lemmas (text lives in /verif)
    U.item(file, path, ..)                     -- struct/enum/const copied from /repo
    U.fn(file, path, spec=.., ret=.., ..)      -- function copied from /repo, contract woven between
                                                  signature and body; body text untouched except by named rules
"""
import hashlib
import os
import re

from . import rules
from .items import load, LostAnchor
from .lex import tokenize, match_close, texts, find_seq, OPEN

DEFAULT_FN_RULES = ("R-log", "R-errmsg", "R-underscore")

RULE_FUNCS = {
    "R-log": rules.r_log,
    "R-errmsg": rules.r_errmsg,
    "R-underscore": rules.r_underscore,
}

HEADER = """// GENERATED on every run by /verif/vx from the current working tree of /repo. Do not edit.
// unit = {name}
#![allow(unused_imports, unused_variables, dead_code, unused_mut, unused_parens, non_snake_case, unused_braces, unused_assignments, unreachable_code, unreachable_patterns)]
{crate_attrs}
use vstd::prelude::*;
{uses}
verus! {{
global size_of usize == 8;
"""

FOOTER = """
} // verus!
fn main() {}
"""


class Section:
    def __init__(self, label, text, kind, props, meta=None):
        self.label = label
        self.text = text
        self.kind = kind          # raw | item | fn
        self.props = props
        self.meta = meta or {}
        self.gen_lines = None     # (first, last) line in generated file
        self.canary_offsets = []  # offsets in self.text where `assert(false);` is inserted for the canary file


class Unit:
    def __init__(self, name, props, desc="", uses="", crate_attrs=""):
        self.name = name
        self.props = list(props)
        self.desc = desc
        self.uses = uses
        self.crate_attrs = crate_attrs
        self.sections = []
        self.repo = None
        self.assumptions = []      # prose, printed in the evidence
        self.kani = []             # names of kani harness groups that twin this unit
        self.expected_trusted = None

    # ------------------------------------------------------------------------------------------
    def assume(self, text):
        self.assumptions.append(text)

    def raw(self, text, label="prelude", props=None, canary=False):
        s = Section(label, text.strip("\n") + "\n", "raw", props or self.props, dict(canary=canary))
        self.sections.append(s)
        return s

    def _apply_subs(self, text, subs, fired):
        for s in subs or ():
            if len(s) == 2:
                old, new = s
                cnt = 1
            else:
                old, new, cnt = s
            text, n = rules.sub(text, old, new, cnt)
            fired.append(("sub", n, old if len(old) < 200 else old[:200] + "…", new if len(new) < 200 else new[:200] + "…"))
        return text

    def item(self, file, path, subs=None, attrs="", vis=True, label=None, props=None, keep_attrs=False):
        """copy a struct/enum/const/type definition."""
        if isinstance(path, str):
            path = [p.strip() for p in path.split("::") if p.strip()]
        src = load(self.repo, file)
        it = src.find(path)
        fired = []
        text = it.text()
        text, n = rules.strip_comments(text)
        if not keep_attrs:
            text, n = rules.strip_attrs(text)
            fired.append(("R-attr", n))
        if vis:
            text, n1 = rules.r_vis_item(text)
            text, n2 = rules.r_vis_fields(text)
            fired.append(("R-vis", n1 + n2))
        text = self._apply_subs(text, subs, fired)
        text = (attrs.strip() + "\n" if attrs.strip() else "") + text.strip() + "\n"
        a, b = it.line_span()
        meta = dict(file=file, path=" :: ".join(path), lines=[a, b], src_sha256=it.token_hash(),
                    gen_sha256=hashlib.sha256(text.encode()).hexdigest(), rules=fired, kind=it.kind)
        s = Section(label or " :: ".join(path), text, "item", props or self.props, meta)
        self.sections.append(s)
        return s

    def fn(self, file, path, spec="", ret=None, subs=None, rules_=DEFAULT_FN_RULES, wrap=None, name=None,
           attrs="", loops=None, props=None, label=None, pre="", post_subs=None, vis=True, canary=True,
           covers=None, header_subs=None, no_body=False, proof_at_start=""):
        """copy a function; weave `spec` (requires/ensures/decreases text) between signature and body.

        loops: {k: dict(prefix="for l in self.leaders.iter()", iter=None|"it", inv="...", decreases="...")}
        wrap:  e.g. "impl Schedule" -> the function is emitted inside that impl block
        covers: list of token anchors after which the canary file gets `assert(false)` (reachability)
        """
        if isinstance(path, str):
            path = [p.strip() for p in path.split("::") if p.strip()]
        src = load(self.repo, file)
        it = src.find(path)
        if it.kind != "fn":
            raise LostAnchor("%s: %r is not a fn" % (file, path))
        fired = []
        header = it.header_text()
        body = it.body_text() if it.body_open is not None else None
        if body is None:
            raise LostAnchor("%s: %r has no body" % (file, path))
        header, _ = rules.strip_comments(header)
        header, n = rules.strip_attrs(header)
        body, _ = rules.strip_comments(body)
        body, n2 = rules.strip_attrs(body)
        if n + n2:
            fired.append(("R-attr", n + n2))
        for r in rules_:
            body, n = RULE_FUNCS[r](body)
            if n:
                fired.append((r, n))
        body = self._apply_subs(body, subs, fired)
        if loops:
            body = self._weave_loops(body, loops, fired)
        body = self._apply_subs(body, post_subs, fired)
        if vis:
            header, n = rules.r_vis_item(header)
        header = self._apply_subs(header, header_subs, fired)
        if name:
            header, n = rules.sub(header, "fn " + it.name, "fn " + name, 1)
            fired.append(("rename", 1, it.name, name))
        if ret:
            header, n = rules.name_ret(header, ret)
            if n:
                fired.append(("W-ret", 1))
        spec_txt = spec.strip("\n")
        if spec_txt:
            fired.append(("W-contract", len([l for l in spec_txt.splitlines() if l.strip()])))
        if proof_at_start:
            assert body.lstrip().startswith("{")
            k = body.index("{")
            body = body[:k + 1] + " " + proof_at_start.strip() + " " + body[k + 1:]
            fired.append(("W-ghost", 1))
        pieces = []
        if wrap:
            pieces.append(wrap + " {\n")
        if attrs.strip():
            pieces.append(attrs.strip() + "\n")
        pieces.append(header.rstrip() + "\n")
        if spec_txt:
            pieces.append(spec_txt + "\n")
        head_len = sum(len(p) for p in pieces)
        pieces.append(body.rstrip() + "\n")
        if wrap:
            pieces.append("}\n")
        text = "".join(pieces)
        canary_offsets = []
        if canary:
            # right after the body's opening brace
            k = text.index("{", head_len)
            canary_offsets.append(k + 1)
            for anchor in covers or ():
                toks = tokenize(text)
                hits = find_seq(toks, texts(tokenize(anchor)))
                if len(hits) != 1:
                    raise LostAnchor("cover anchor %r matches %d times in %s" % (anchor, len(hits), path))
                canary_offsets.append(toks[hits[0]].start)
        a, b = it.line_span()
        meta = dict(file=file, path=" :: ".join(path), lines=[a, b], src_sha256=it.token_hash(),
                    gen_sha256=hashlib.sha256(text.encode()).hexdigest(), rules=fired, kind="fn",
                    fn_name=name or it.name, contract=spec_txt, src_text=it.text())
        s = Section(label or ((wrap + " :: ") if wrap else "") + "fn " + (name or it.name), text, "fn",
                    props or self.props, meta)
        s.canary_offsets = canary_offsets
        self.sections.append(s)
        return s

    # ------------------------------------------------------------------------------------------
    def _weave_loops(self, body, loops, fired):
        """W-inv: attach invariants to the k-th loop (ordinal among for/while/loop keywords in the body)."""
        toks = tokenize(body)
        loop_idx = [i for i, t in enumerate(toks) if t.kind == "id" and t.text in ("for", "while", "loop")
                    and not (i > 0 and toks[i - 1].text in (".", "::"))]
        edits = []
        for k, spec in sorted(loops.items()):
            if k >= len(loop_idx):
                raise LostAnchor("loop #%d not found (function has %d loops)" % (k, len(loop_idx)))
            i = loop_idx[k]
            pre = texts(tokenize(spec["prefix"]))
            if texts(toks[i:i + len(pre)]) != pre:
                raise LostAnchor("loop #%d header %r does not start with %r" % (
                    k, " ".join(texts(toks[i:i + len(pre)])), spec["prefix"]))
            # body brace: first '{' at depth 0 after the keyword
            j = i + 1
            while j < len(toks):
                t = toks[j]
                if t.kind == "punct" and t.text == "{":
                    break
                if t.kind == "punct" and t.text in ("(", "["):
                    j = match_close(toks, j) + 1
                    continue
                j += 1
            if j >= len(toks):
                raise LostAnchor("loop #%d has no body" % k)
            ins = ""
            if spec.get("inv"):
                ins += "\n    invariant\n" + spec["inv"].rstrip().rstrip(",") + ",\n"
            if spec.get("ensures"):
                ins += "    ensures\n" + spec["ensures"].rstrip().rstrip(",") + ",\n"
            if spec.get("decreases"):
                ins += "    decreases " + spec["decreases"].strip() + ",\n"
            edits.append((toks[j].start, toks[j].start, ins))
            if spec.get("iter"):
                # for PAT in EXPR  ->  for PAT in NAME: EXPR
                q = i + 1
                while q < j and toks[q].text != "in":
                    if toks[q].kind == "punct" and toks[q].text in OPEN:
                        q = match_close(toks, q) + 1
                    else:
                        q += 1
                if q >= j:
                    raise LostAnchor("loop #%d: no `in`" % k)
                edits.append((toks[q].end, toks[q].end, " " + spec["iter"] + ":"))
            fired.append(("W-inv", 1, spec["prefix"]))
        return rules.apply_edits(body, edits)

    # ------------------------------------------------------------------------------------------
    def generate(self, canary=False):
        """returns (text, sections with gen_lines set)."""
        out = [HEADER.format(name=self.name, uses=self.uses, crate_attrs=self.crate_attrs)]
        line = out[0].count("\n") + 1
        for s in self.sections:
            text = s.text
            if canary:
                if s.kind == "fn" and s.canary_offsets:
                    edits = [(o, o, " assert(false); ") for o in s.canary_offsets]
                    text = rules.apply_edits(text, edits)
                elif s.kind == "raw" and s.meta.get("canary"):
                    # every proof fn body in a raw section gets assert(false) at its start
                    text = _canary_raw(text)
            first = line
            out.append(text)
            line += text.count("\n")
            if not text.endswith("\n"):
                out.append("\n")
                line += 1
            s.gen_lines = (first, line - 1)
            out.append("\n")
            line += 1
        out.append(FOOTER)
        return "".join(out)

    def section_at(self, gen_line):
        for s in self.sections:
            if s.gen_lines and s.gen_lines[0] <= gen_line <= s.gen_lines[1]:
                return s
        return None

    def item_hashes(self):
        return {s.meta["file"] + " :: " + s.meta["path"]: s.meta["src_sha256"]
                for s in self.sections if s.kind in ("fn", "item")}

    def trusted_scan(self):
        """mechanical list of trusted constructs in the generated file."""
        text = self.generate()
        out = []
        lines = text.splitlines()
        pat = re.compile(r"external_body|assume_specification|\bassume\s*\(|\badmit\s*\(|external_type_specification|"
                         r"verifier::external\b|external_trait_specification|exec_allows_no_decreases_clause")
        for i, l in enumerate(lines):
            m = pat.search(l)
            if not m or l.lstrip().startswith("//"):
                continue
            # name: next few lines' first fn/struct/trait identifier
            ctx = " ".join(lines[i:i + 4])
            nm = re.search(r"\b(fn|struct|enum|trait|type)\s+([A-Za-z_0-9]+)", ctx)
            br = re.search(r"assume_specification\s*(<[^\[]*>)?\s*\[([^\]]+)\]", ctx)
            name = br.group(2).strip() if (br and "assume_specification" in m.group(0)) else (nm.group(2) if nm else "?")
            cls = re.search(r"//\s*(A[1-7])\b", ctx)
            out.append("%s %s%s" % (m.group(0).strip(" ("), name, " [" + cls.group(1) + "]" if cls else ""))
        return out


def _canary_raw(text):
    toks = tokenize(text)
    edits = []
    i = 0
    while i < len(toks) - 2:
        if toks[i].text == "proof" and toks[i + 1].text == "fn":
            j = i + 2
            while j < len(toks) and not (toks[j].kind == "punct" and toks[j].text == "{"):
                if toks[j].kind == "punct" and toks[j].text in ("(", "["):
                    j = match_close(toks, j) + 1
                elif toks[j].text == ";":
                    break
                else:
                    j += 1
            if j < len(toks) and toks[j].text == "{":
                edits.append((toks[j].end, toks[j].end, " assert(false); "))
                i = match_close(toks, j) + 1
                continue
        i += 1
    return rules.apply_edits(text, edits)
