"""./check driver: property -> units -> generated Verus files -> verdict, evidence, replay."""
import concurrent.futures as cf
import hashlib
import importlib.util
import json
import os
import re
import shutil
import sys
import time
import traceback

from . import verus as V
from .items import LostAnchor
from .lex import LexError
from .unit import Unit

ROOT = os.path.dirname(os.path.dirname(os.path.abspath(__file__)))
REPO = os.environ.get("VERIF_REPO", "/repo")
WORK = os.path.join(ROOT, ".work")


def load_registry():
    spec = importlib.util.spec_from_file_location("verif_registry", os.path.join(ROOT, "units", "registry.py"))
    m = importlib.util.module_from_spec(spec)
    spec.loader.exec_module(m)
    return m


def load_unit(name):
    p = os.path.join(ROOT, "units", name + ".py")
    spec = importlib.util.spec_from_file_location("verif_unit_" + name, p)
    m = importlib.util.module_from_spec(spec)
    spec.loader.exec_module(m)
    U = m.build(REPO)
    assert isinstance(U, Unit)
    U.repo = REPO
    return U


def known_findings():
    p = os.path.join(ROOT, "known_findings.json")
    if not os.path.exists(p):
        return []
    with open(p) as f:
        return json.load(f)


class UnitResult:
    def __init__(self, name):
        self.name = name
        self.status = "HELD"        # HELD | UNDECIDED | BROKEN | FAILED
        self.reason = ""
        self.failures = []          # dict(section, props, kind, msg, gen_line, gen_text, diag, src_file, src_line)
        self.verified = 0
        self.errors = 0
        self.smt_ms = 0
        self.wall_s = 0.0
        self.funcs = {}
        self.unit = None
        self.canaries_expected = 0
        self.canaries_failed_as_expected = 0
        self.cmd = ""
        self.runs = 0
        self.trusted = []
        self.stderr = ""


def _canary_variant(U):
    """Generated text of the canary file: main text + one renamed copy per canary point, each with one
    `assert(false);` — every copy must FAIL exactly that assertion (else its precondition/context is vacuous)."""
    from . import rules
    from .lex import tokenize, texts, find_seq
    base = U.generate()
    # strip footer
    k = base.rindex("} // verus!")
    head = base[:k]
    extra = []
    expect = []   # (name, line) filled after assembly
    n = 0
    for s in U.sections:
        if s.kind == "fn" and s.canary_offsets:
            for ci, off in enumerate(s.canary_offsets):
                fn = s.meta["fn_name"]
                new = "%s__canary%d" % (fn, n)
                text = rules.apply_edits(s.text, [(off, off, " assert(false); /*CANARY:%s*/ " % new)])
                text, cnt = rules.sub(text, "fn " + fn, "fn " + new, 1)
                extra.append(text)
                n += 1
        elif s.kind == "raw" and s.meta.get("canary"):
            toks = tokenize(s.text)
            from .lex import match_close
            i = 0
            while i < len(toks) - 2:
                if toks[i].text == "proof" and toks[i + 1].text == "fn":
                    name = toks[i + 2].text
                    # body = the LAST top-level brace group before the next item starts (spec clauses may contain braces)
                    ITEM_KW = ("pub", "proof", "spec", "open", "closed", "fn", "impl", "broadcast", "uninterp", "struct",
                               "enum", "use", "const", "trait", "type", "#")
                    j = i + 3
                    ok = False
                    last_open = None
                    q = j
                    while q < len(toks):
                        if toks[q].kind == "punct" and toks[q].text == "{":
                            last_open = q
                            q = match_close(toks, q) + 1
                            if q >= len(toks) or toks[q].text in ITEM_KW:
                                break
                            continue
                        if toks[q].kind == "punct" and toks[q].text in ("(", "["):
                            q = match_close(toks, q) + 1
                            continue
                        if toks[q].text == ";" :
                            last_open = None
                            break
                        q += 1
                    if last_open is not None:
                        ok = True
                        j = last_open
                    if ok:
                        e = match_close(toks, j)
                        # include leading `pub` if present
                        a = toks[i - 1].start if i > 0 and toks[i - 1].text in ("pub", "broadcast") else toks[i].start
                        new = name + "__canary%d" % n
                        body = s.text[a:toks[e].end]
                        rel = toks[j].end - a
                        body = body[:rel] + " assert(false); /*CANARY:%s*/ " % new + body[rel:]
                        body = body.replace("fn " + name, "fn " + new, 1)
                        extra.append(body + "\n")
                        n += 1
                        i = e + 1
                        continue
                i += 1
    text = head + "\n// ---- canary copies ----\n" + "\n".join(extra) + "\n} // verus!\nfn main() {}\n"
    lines = {}
    for ln, l in enumerate(text.splitlines(), 1):
        m = re.search(r"/\*CANARY:([A-Za-z0-9_]+)\*/", l)
        if m:
            lines[ln] = m.group(1)
    return text, lines


def run_unit(name, prop, tier, seed):
    R = UnitResult(name)
    t0 = time.time()
    try:
        U = load_unit(name)
        main_txt = U.generate()
        can_txt, can_lines = _canary_variant(U)
    except (LostAnchor, LexError) as e:
        R.status = "UNDECIDED"
        R.reason = "lost-anchor: %s" % e
        R.wall_s = time.time() - t0
        return R
    except Exception as e:
        R.status = "BROKEN"
        R.reason = "unit spec error: %s\n%s" % (e, traceback.format_exc())
        R.wall_s = time.time() - t0
        return R
    R.unit = U
    R.trusted = U.trusted_scan()
    d = os.path.join(WORK, prop)
    os.makedirs(d, exist_ok=True)
    main_p = os.path.join(d, name + ".rs")
    can_p = os.path.join(d, name + "_canary.rs")
    with open(main_p, "w") as f:
        f.write(main_txt)
    with open(can_p, "w") as f:
        f.write(can_txt)
    rlimit = 30 if tier == "quick" else 120
    with cf.ThreadPoolExecutor(2) as ex:
        fm = ex.submit(V.run, main_p, rlimit, seed or None, 10, 8)
        fc = ex.submit(V.run, can_p, 10, None, 1, 6, 1800,
                       ("--verify-root", "--verify-function", "*__canary*")) if can_lines else None
        rm = fm.result()
        rc_ = fc.result() if fc else None
    R.cmd = rm["cmd"]
    R.runs = 1
    R.verified, R.errors, R.smt_ms, R.funcs = rm["verified"], rm["errors"], rm["smt_ms"], rm["funcs"]
    R.stderr = rm["stderr"]

    def classify(res):
        tool = [x for x in res["diags"] if x.level == "error" and x.kind == "tool"]
        resource = [x for x in res["diags"] if x.level == "error" and x.kind == "resource"]
        proof = [x for x in res["diags"] if x.level == "error" and x.kind == "proof"]
        return tool, resource, proof

    tool, resource, proof = classify(rm)
    if rm["json"] is None or rm["vir_error"] or tool:
        R.status = "UNDECIDED"
        R.reason = "verus rejected the generated file (not a proof failure): " + (
            tool[0].full() if tool else rm["stderr"][-2000:])
        R.wall_s = time.time() - t0
        return R

    def sect_failures(proof_diags):
        out = {}
        for x in proof_diags:
            s = U.section_at(x.line) if x.line else None
            if s is None or s.kind != "fn":
                # the primary span is a contract declared elsewhere (e.g. on a trait): attribute to the function shown in the snippet
                for ln in reversed(getattr(x, "lines", [])):
                    s2 = U.section_at(ln)
                    if s2 is not None and s2.kind == "fn":
                        s = s2
                        x.line = ln
                        break
            key = s.label if s else "?"
            out.setdefault(key, []).append((s, x))
        return out

    fails = sect_failures(proof)
    res_sections = set()
    for x in resource:
        s = U.section_at(x.line) if x.line else None
        res_sections.add(s.label if s else "?")
    # retry (another seed, more resources): a function is discharged if ANY run proves it
    attempts = 0
    max_attempts = 2 if tier == "quick" else 3
    while (fails or res_sections) and attempts < max_attempts:
        attempts += 1
        r2 = V.run(main_p, rlimit * 4 * attempts, (seed or 0) + 17 * attempts, 10, 8)
        R.runs += 1
        t2, rs2, p2 = classify(r2)
        if r2["json"] is None or r2["vir_error"] or t2:
            break
        f2 = sect_failures(p2)
        rs2s = set()
        for x in rs2:
            s = U.section_at(x.line) if x.line else None
            rs2s.add(s.label if s else "?")
        fails = {k: v for k, v in fails.items() if k in f2}
        res_sections = {k for k in res_sections if k in rs2s or k in f2}
        for k in list(res_sections):
            if k in f2 and k not in fails:
                fails[k] = f2[k]
                res_sections.discard(k)
        if not fails and not res_sections:
            R.verified, R.errors = r2["verified"], r2["errors"]
            R.smt_ms += r2["smt_ms"]
    if res_sections and not fails:
        R.status = "UNDECIDED"
        R.reason = "resource limit exceeded in: " + ", ".join(sorted(res_sections))
        R.wall_s = time.time() - t0
        return R
    gen_lines = main_txt.splitlines()
    for key, lst in fails.items():
        for s, x in lst:
            gl = gen_lines[x.line - 1].strip() if x.line and x.line <= len(gen_lines) else ""
            src_file = src_line = None
            if s is not None and s.kind == "raw" and s.meta.get("file"):
                # a lemma whose text was generated from an item of /repo names that item
                src_file = s.meta["file"]
                src_line = (s.meta.get("lines") or [None])[0]
            if s is not None and s.kind == "fn":
                src_file = s.meta["file"]
                a, b = s.meta["lines"]
                try:
                    with open(os.path.join(REPO, src_file)) as f:
                        sl = f.read().splitlines()
                    cands = [i for i in range(a - 1, min(b, len(sl))) if sl[i].strip() == gl and gl]
                    if len(cands) == 1:
                        src_line = cands[0] + 1
                    else:
                        src_line = a
                except OSError:
                    pass
            R.failures.append(dict(section=key, props=list(s.props) if s else list(U.props), kind=x.msg,
                                   gen_line=x.line, gen_text=gl, diag=x.full(), src_file=src_file,
                                   src_line=src_line, contract=(s.meta.get("contract") if s else None),
                                   src_sha=(s.meta.get("src_sha256") if s else None)))
    if R.failures:
        R.status = "FAILED"
    # canaries
    if rc_ is not None:
        R.canaries_expected = len(can_lines)
        ctool, cres, cproof = classify(rc_)
        if rc_["json"] is None or rc_["vir_error"] or ctool:
            if R.status == "HELD":
                R.status = "BROKEN"
                R.reason = "canary file rejected: " + (ctool[0].full() if ctool else rc_["stderr"][-1500:])
        else:
            hit = set()
            for x in cproof:
                if x.line in can_lines and "assertion failed" in x.msg:
                    hit.add(can_lines[x.line])
            R.canaries_failed_as_expected = len(hit)
            missing = sorted(set(can_lines.values()) - hit)
            if missing and R.status == "HELD":
                R.status = "BROKEN"
                R.reason = "vacuity canary verified (contract or context contradictory) for: " + ", ".join(missing)
    R.wall_s = time.time() - t0
    return R


def baseline_path(unit):
    return os.path.join(ROOT, "baseline", unit + ".json")


def load_baseline(unit):
    p = baseline_path(unit)
    if os.path.exists(p):
        with open(p) as f:
            return json.load(f)
    return None


def write_replay(prop, unit, fail, idx, extra=""):
    d = os.path.join(ROOT, "replays", prop)
    os.makedirs(d, exist_ok=True)
    safe = re.sub(r"[^A-Za-z0-9_]+", "_", "%s__%s" % (unit, fail["section"]))[:120]
    p = os.path.join(d, "%s__%d.json" % (safe, idx))
    rec = dict(kind="verus-obligation", property=prop, unit=unit, obligation="%s :: %s :: %s" % (unit, fail["section"], fail["kind"]),
               clause_or_statement=fail["gen_text"], contract=fail.get("contract"),
               repo_file=fail["src_file"], repo_line=fail["src_line"],
               verifier_output=fail["diag"], counterexample=None,
               note="Verus gives no counterexample; the obligation was discharged on the unchanged tree and now fails "
                    "in every attempt (several seeds / resource limits)." + extra)
    with open(p, "w") as f:
        json.dump(rec, f, indent=1)
    return os.path.relpath(p, ROOT)


def check_property(prop, tier, seed, reg):
    t0 = time.time()
    P = reg.PROPS[prop]
    units = P["units"]
    results = []
    with cf.ThreadPoolExecutor(max(1, min(4, len(units)))) as ex:
        futs = [ex.submit(run_unit, u, prop, tier, seed) for u in units]
        for f in futs:
            results.append(f.result())
    kf = [k for k in known_findings() if k.get("property") == prop and k.get("status") == "open"]
    violations = []
    known_hits = []
    undecided = []
    broken = []
    for R in results:
        if R.status == "UNDECIDED":
            undecided.append(R)
        elif R.status == "BROKEN":
            broken.append(R)
        elif R.status == "FAILED":
            base = load_baseline(R.name)
            cur = R.unit.item_hashes()
            changed = base is None or any(base.get("hashes", {}).get(k) != v for k, v in cur.items()) \
                or set(base.get("hashes", {})) != set(cur)
            mine = [f for f in R.failures if prop in f["props"] or P.get("count_all")]
            if not mine:
                continue
            rest = []
            for f in mine:
                hit = None
                for k in kf:
                    if k.get("unit") == R.name and k.get("section") == f["section"] and k.get("match", "") in f["diag"]:
                        hit = k
                        break
                if hit:
                    known_hits.append((hit, f))
                else:
                    rest.append(f)
            if not rest:
                continue
            if not changed and base is not None and not os.environ.get("VERIF_NO_BASELINE"):
                R.status = "UNDECIDED"
                R.reason = ("obligations failed although every extracted item is byte-identical to the baseline "
                            "(solver instability or a change in /verif itself): " +
                            "; ".join("%s: %s" % (f["section"], f["kind"]) for f in rest))
                undecided.append(R)
                continue
            for f in rest:
                violations.append((R, f))
    # optional kani twins (thorough tier, or to find a failing input for a violation)
    kani_results = []
    # ... and when a Verus unit is UNDECIDED (unsupported construct, lost anchor): a complete Kani harness on the real crate can still
    # decide its part of the property, and a failing one yields a concrete counterexample (a Kani pass does not lift the exit code 2)
    if P.get("kani") and (tier == "thorough" or violations or undecided or P.get("kani_quick")) and not os.environ.get("VERIF_NO_KANI"):
        try:
            from . import kani as K
            kani_results = K.run_group(P["kani"], prop, tier, REPO, ROOT, only_quick=(tier == "quick" and not violations and not undecided))
        except Exception as e:  # tooling problem: never an alarm
            kani_results = [dict(harness="*", status="error", detail="kani runner failed: %s" % e, kind="bounded")]
    out_lines = []
    rc = 0
    vio_count = 0
    seen_known = set()
    for k, f in known_hits:
        key = k.get("id", k.get("what"))
        if key in seen_known:
            continue
        seen_known.add(key)
        out_lines.append("KNOWN-FINDING: property=%s %s" % (prop, k.get("what")))
    # a harness that an OPEN known finding names is reported as that finding, never used as the counterexample twin of something else
    known_harness = {kk.get("kani_harness"): kk for kk in kf if kk.get("kani_harness")}
    for k in kani_results:
        if k.get("status") == "failed" and k["harness"] in known_harness:
            kk = known_harness[k["harness"]]
            k["known_finding"] = kk.get("id")
            if kk.get("id") not in seen_known:
                seen_known.add(kk.get("id"))
                out_lines.append("KNOWN-FINDING: property=%s %s" % (prop, kk.get("what")))
    kani_cex = [k for k in kani_results if k.get("status") == "failed" and not k.get("known_finding")]
    idx = 0
    for R, f in violations:
        idx += 1
        extra = ""
        rp = write_replay(prop, R.name, f, idx)
        tail = " no-failing-input-found"
        # attach a kani counterexample if a twin harness failed
        for k in kani_cex:
            if k.get("replay"):
                rp = k["replay"]
                tail = ""
                break
        out_lines.append("VIOLATION property=%s replay=%s%s" % (prop, rp, tail))
        out_lines.append("  obligation: %s :: %s :: %s" % (R.name, f["section"], f["kind"]))
        out_lines.append("  at: %s:%s  `%s`" % (f["src_file"], f["src_line"], f["gen_text"]))
        vio_count += 1
    if not violations:
        for k in kani_cex:
            known = False
            for kk in kf:
                if kk.get("kani_harness") == k["harness"]:
                    known = True
                    if kk.get("id") not in seen_known:
                        seen_known.add(kk.get("id"))
                        out_lines.append("KNOWN-FINDING: property=%s %s" % (prop, kk.get("what")))
            if known:
                continue
            out_lines.append("VIOLATION property=%s replay=%s%s" % (
                prop, k.get("replay") or "", "" if k.get("cex") else " no-failing-input-found"))
            out_lines.append("  obligation: kani harness %s: %s" % (k["harness"], k.get("detail", "")))
            vio_count += 1
    if vio_count:
        rc = 1
    elif undecided or broken:
        rc = 2
    for R in undecided:
        out_lines.append("UNDECIDED property=%s unit=%s reason=%s" % (prop, R.name, R.reason.replace("\n", " | ")[:1500]))
    for R in broken:
        out_lines.append("BROKEN-CHECK property=%s unit=%s reason=%s" % (prop, R.name, R.reason.replace("\n", " | ")[:1500]))
    for k in kani_results:
        if k.get("status") in ("error", "timeout", "undecided"):
            out_lines.append("NOTE property=%s kani harness %s: %s (%s) — cross-check absent, not a failure" % (
                prop, k["harness"], k["status"], k.get("detail", "")[:300]))
    wall = time.time() - t0
    write_evidence(prop, tier, seed, P, results, kani_results, vio_count, wall, known_hits)
    for R in results:
        out_lines.append("unit %-14s %-9s verified=%d errors=%d canaries=%d/%d smt=%.1fs wall=%.1fs runs=%d" % (
            R.name, R.status, R.verified, R.errors, R.canaries_failed_as_expected, R.canaries_expected,
            R.smt_ms / 1000.0, R.wall_s, R.runs))
    for k in kani_results:
        out_lines.append("kani %-40s %-9s %s %.1fs" % (k["harness"], k["status"], k.get("kind", ""), k.get("seconds", 0)))
    if rc == 0:
        out_lines.append("HELD property=%s tier=%s (%.1fs)" % (prop, tier, wall))
    return rc, out_lines


def write_evidence(prop, tier, seed, P, results, kani_results, vio_count, wall, known_hits):
    os.makedirs(os.path.join(ROOT, "evidence"), exist_ok=True)
    obligations = 0
    discharged = 0
    trusted = []
    fns = []
    samples = []
    assumptions = list(P.get("assumptions", []))
    unverified = []
    smt = 0.0
    cmds = []
    can_e = can_f = 0
    for R in results:
        obligations += R.verified + R.errors
        discharged += R.verified
        smt += R.smt_ms / 1000.0
        can_e += R.canaries_expected
        can_f += R.canaries_failed_as_expected
        if R.cmd:
            cmds.append(R.cmd)
        for t in R.trusted:
            trusted.append("%s: %s" % (R.name, t))
        if R.unit is not None:
            for a in R.unit.assumptions:
                if a not in assumptions:
                    assumptions.append(a)
            for s in R.unit.sections:
                if s.kind in ("fn", "item"):
                    fns.append(dict(unit=R.name, file=s.meta["file"], item=s.meta["path"], lines=s.meta["lines"],
                                    src_sha256=s.meta["src_sha256"], gen_sha256=s.meta["gen_sha256"],
                                    rules=[list(map(str, r)) for r in s.meta["rules"]],
                                    under_contract=bool(s.meta.get("contract")) if s.kind == "fn" else None,
                                    kind=s.kind))
                    for r in s.meta["rules"]:
                        if r[0] == "sub" and "R-stub" in str(r[3]):
                            unverified.append(dict(unit=R.name, fn=s.meta["path"], original=r[2], replaced_by=r[3]))
                    if s.kind == "fn" and s.meta.get("contract") and len(samples) < 4:
                        samples.append(dict(unit=R.name, function=s.meta["path"], file=s.meta["file"],
                                            contract=s.meta["contract"][:1200]))
        if R.status != "HELD":
            assumptions.append("unit %s: %s %s" % (R.name, R.status, R.reason[:400]))
    bounded = []
    for k in kani_results:
        if k.get("known_finding"):
            continue      # listed under known_findings_hit: a recorded open finding is not among the obligations this run claims
        if k.get("kind") in ("complete", "contract") and k.get("status") in ("ok", "failed"):
            obligations += 1
            if k["status"] == "ok":
                discharged += 1
        if k.get("kind", "").startswith("bounded"):
            bounded.append(dict(harness=k["harness"], bound=k.get("bound"), result=k["status"], seconds=k.get("seconds")))
    if not samples:
        samples = [dict(note="no contracted function in this run")]
    ev = dict(
        property_id=prop, tier=tier, seed=int(seed or 0), level=P.get("level", "proof"),
        coverage=dict(
            obligations=obligations, discharged=discharged,
            checker_cmd=" ; ".join(cmds) if cmds else "verus (not run)",
            trusted_base=sorted(set(trusted)),
            samples=samples,
            explanation=P.get("explanation", ""),
            functions_under_contract=fns,
            unverified_statements=unverified,
            bounded_checks=bounded,
            kani=[{k: v for k, v in kr.items() if k != "output"} for kr in kani_results],
            back_ends=dict(verus=V.verus_version(), smt="z3 (bundled with Verus)"),
            smt_seconds=round(smt, 3),
            canaries=dict(expected_to_fail=can_e, failed_as_expected=can_f),
            units=[dict(unit=R.name, status=R.status, verified=R.verified, errors=R.errors, runs=R.runs,
                        wall_s=round(R.wall_s, 2)) for R in results],
            known_findings_hit=[k.get("id") for k, f in known_hits] + [k["known_finding"] for k in kani_results if k.get("known_finding")],
        ),
        assumptions=assumptions,
        wall_s=round(wall, 2),
        violations=vio_count,
    )
    if not ev["coverage"]["explanation"]:
        del ev["coverage"]["explanation"]
    with open(os.path.join(ROOT, "evidence", prop + ".json"), "w") as f:
        json.dump(ev, f, indent=1)


def rebaseline(reg, only=None):
    os.makedirs(os.path.join(ROOT, "baseline"), exist_ok=True)
    names = sorted({u for p in reg.PROPS.values() for u in p["units"]})
    for n in names:
        if only and n not in only:
            continue
        U = load_unit(n)
        U.generate()
        with open(baseline_path(n), "w") as f:
            json.dump(dict(unit=n, hashes=U.item_hashes()), f, indent=1, sort_keys=True)
        print("baseline", n, len(U.item_hashes()), "items")


def replay(path, reg):
    p = path if os.path.isabs(path) else os.path.join(ROOT, path)
    if p.endswith(".rs"):
        from . import kani as K
        return K.replay_native(p, REPO, ROOT)
    with open(p) as f:
        rec = json.load(f)
    if rec.get("kind") == "native-test":
        from . import kani as K
        return K.replay_native(os.path.join(ROOT, rec["test_file"]), REPO, ROOT, rec)
    print("replaying obligation:", rec["obligation"])
    print("stored verifier output:\n" + rec["verifier_output"])
    prop, unit = rec["property"], rec["unit"]
    os.environ["VERIF_NO_BASELINE"] = "1"
    R = run_unit(unit, prop, "quick", 0)
    sec = rec["obligation"].split(" :: ")[1]
    again = [f for f in R.failures if f["section"] == sec]
    if again:
        print("REPRODUCED: the obligation still fails on the current tree:")
        for f in again:
            print(f["diag"])
        return 1
    print("NOT REPRODUCED: unit status %s %s" % (R.status, R.reason))
    return 0


def main(argv):
    reg = load_registry()
    args = argv[1:]
    if not args:
        print("usage: check <Cxx> [--tier quick|thorough] | --replay <file> | --setup | --rebaseline [unit..] | --gen <unit>")
        return 2
    if args[0] == "--setup":
        from . import setup as S
        return S.setup(ROOT, REPO, reg)
    if args[0] == "--rebaseline":
        rebaseline(reg, set(args[1:]) or None)
        return 0
    if args[0] == "--replay":
        return replay(args[1], reg)
    if args[0] == "--gen":
        U = load_unit(args[1])
        sys.stdout.write(U.generate())
        return 0
    if args[0] == "--unit":
        os.environ["VERIF_NO_BASELINE"] = "1"
        R = run_unit(args[1], "_dev", "quick", int(os.environ.get("VERIF_SEED", "0") or 0))
        print(R.status, R.reason)
        print("verified", R.verified, "errors", R.errors, "canaries %d/%d" % (R.canaries_failed_as_expected, R.canaries_expected),
              "wall %.1f" % R.wall_s)
        for f in R.failures:
            print("--", f["section"])
            print(f["diag"])
        if R.status == "UNDECIDED" and R.stderr:
            print(R.stderr[-6000:])
        slow = sorted(R.funcs.items(), key=lambda kv: -kv[1]["time_ms"])[:5]
        for k, v in slow:
            print("  %6d ms  %s" % (v["time_ms"], k))
        return 0 if R.status == "HELD" else 1
    prop = args[0]
    tier = os.environ.get("VERIF_TIER", "quick")
    if "--tier" in args:
        tier = args[args.index("--tier") + 1]
    if tier not in ("quick", "thorough"):
        tier = "quick"
    seed = int(os.environ.get("VERIF_SEED", "0") or 0)
    if prop not in reg.PROPS:
        print("unknown property", prop)
        return 2
    rc, lines = check_property(prop, tier, seed, reg)
    print("\n".join(lines))
    return rc
