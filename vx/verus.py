"""Run Verus on a generated file; parse diagnostics into per-function obligations."""
import json
import os
import re
import subprocess
import time

PROOF_FAIL = (
    "postcondition not satisfied",
    "precondition not satisfied",
    "assertion failed",
    "invariant not satisfied",
    "possible arithmetic underflow/overflow",
    "possible division by zero",
    "possible bit shift underflow/overflow",
    "unreachable",
    "decreases not satisfied",
    "could not prove termination",
    "index out of bounds",
    "assertion failure",
    "cannot show invariant",
    "loop invariant",
    "recommendation not met",   # only reported as note; listed for completeness
    "failed to satisfy",
    "constructed value may fail to meet its declared type invariant",
    "possible truncation",
    "unable to prove",
    "requires not satisfied",
    "closure precondition",
    "the value may be out of range",
)
RESOURCE = ("Resource limit (rlimit) exceeded", "resource limit", "timed out", "canceled")

ERR_RE = re.compile(r"^(error|warning|note)(\[[A-Z0-9]+\])?: (.*)$")
GUTTER_RE = re.compile(r"^\s*(\d+)\s*\|")
LOC_RE = re.compile(r"^\s*--> (.+?):(\d+):(\d+)\s*$")


class Diag:
    def __init__(self, level, msg):
        self.level = level
        self.msg = msg
        self.line = None
        self.col = None
        self.text = []
        self.lines = []       # every line number shown in the snippet gutter (primary and secondary spans)

    @property
    def kind(self):
        m = self.msg
        for r in RESOURCE:
            if r.lower() in m.lower():
                return "resource"
        for p in PROOF_FAIL:
            if p in m:
                return "proof"
        if m.startswith("aborting due to") or m.startswith("could not compile"):
            return "summary"
        return "tool"

    def full(self):
        return "\n".join(self.text)


def parse_stderr(err):
    diags = []
    cur = None
    for line in err.splitlines():
        m = ERR_RE.match(line)
        if m:
            cur = Diag(m.group(1), m.group(3))
            cur.text.append(line)
            diags.append(cur)
            continue
        if cur is None:
            continue
        cur.text.append(line)
        g = GUTTER_RE.match(line)
        if g:
            cur.lines.append(int(g.group(1)))
        m = LOC_RE.match(line)
        if m and cur.line is None:
            cur.line = int(m.group(2))
            cur.col = int(m.group(3))
    return diags


def verus_version():
    try:
        out = subprocess.run(["verus", "--version"], capture_output=True, text=True, timeout=60).stdout
        m = re.search(r"Version: (\S+)", out)
        return m.group(1) if m else out.strip()
    except Exception as e:  # pragma: no cover
        return "unknown (%s)" % e


def run(path, rlimit=30, seed=None, multiple_errors=10, threads=None, timeout=1800, extra=()):
    cmd = ["verus", path, "--output-json", "--time", "--multiple-errors", str(multiple_errors),
           "--rlimit", str(rlimit), "--no-report-long-running"]
    if threads:
        cmd += ["--num-threads", str(threads)]
    if seed:
        cmd += ["--smt-option", "smt.random_seed=%d" % seed, "--smt-option", "sat.random_seed=%d" % seed]
    cmd += list(extra)
    t0 = time.time()
    env = dict(os.environ)
    try:
        p = subprocess.run(cmd, capture_output=True, text=True, timeout=timeout, cwd=os.path.dirname(path), env=env)
        out, err, rc = p.stdout, p.stderr, p.returncode
    except subprocess.TimeoutExpired as e:
        out = e.stdout.decode() if isinstance(e.stdout, bytes) else (e.stdout or "")
        err = (e.stderr.decode() if isinstance(e.stderr, bytes) else (e.stderr or "")) + "\nerror: timed out"
        rc = 124
    wall = time.time() - t0
    js = None
    try:
        k = out.index("{")
        js = json.loads(out[k:])
    except Exception:
        js = None
    res = dict(cmd=" ".join(cmd), rc=rc, wall_s=wall, json=js, stderr=err, diags=parse_stderr(err))
    funcs = {}
    smt_ms = 0
    if js:
        try:
            smt_ms = js["times-ms"]["smt"]["smt-run"]
            for mod in js["times-ms"]["smt"]["smt-run-module-times"]:
                for f in mod.get("function-breakdown", []):
                    name = f["function"]
                    d = funcs.setdefault(name, dict(success=True, time_ms=0, rlimit=0, mode=f.get("mode:", "")))
                    d["success"] = d["success"] and bool(f["success"])
                    d["time_ms"] += f.get("time", 0)
                    d["rlimit"] += f.get("rlimit", 0)
        except (KeyError, TypeError):
            pass
    res["funcs"] = funcs
    res["smt_ms"] = smt_ms
    vr = (js or {}).get("verification-results", {})
    res["verified"] = vr.get("verified", 0)
    res["errors"] = vr.get("errors", 0)
    res["success"] = bool(vr.get("success", False)) and rc == 0
    res["vir_error"] = bool(vr.get("encountered-vir-error", False))
    return res
