"""Named, purely syntactic rewrite rules (DESIGN.md section 3.3). Each takes text, returns (text, count)."""
from .lex import tokenize, match_close, texts, find_seq, OPEN, CLOSE, angle_skip
from .items import LostAnchor


def apply_edits(text, edits):
    """edits: list of (start, end, replacement) over `text`, non-overlapping."""
    edits = sorted(edits, key=lambda e: (e[0], e[1]))
    out = []
    pos = 0
    for a, b, r in edits:
        if a < pos:
            raise ValueError("overlapping edits at %d" % a)
        out.append(text[pos:a])
        out.append(r)
        pos = b
    out.append(text[pos:])
    return "".join(out)


def strip_comments(text):
    toks = tokenize(text, keep_comments=True)
    edits = []
    for t in toks:
        if t.kind == "comment":
            edits.append((t.start, t.end, "\n" * t.text.count("\n")))
    return apply_edits(text, edits), len(edits)


def strip_attrs(text):
    """R-attr: delete every outer/inner attribute `#[..]` / `#![..]`."""
    toks = tokenize(text)
    edits = []
    i = 0
    while i < len(toks):
        if toks[i].text == "#" and toks[i].kind == "punct":
            j = i + 1
            if j < len(toks) and toks[j].text == "!":
                j += 1
            if j < len(toks) and toks[j].text == "[":
                k = match_close(toks, j)
                seg = text[toks[i].start:toks[k].end]
                edits.append((toks[i].start, toks[k].end, "\n" * seg.count("\n")))
                i = k + 1
                continue
        i += 1
    return apply_edits(text, edits), len(edits)


def _vis_span(toks, i):
    """if toks[i] starts a visibility qualifier return index past it, else i."""
    if i < len(toks) and toks[i].text == "pub" and toks[i].kind == "id":
        if i + 1 < len(toks) and toks[i + 1].text == "(":
            # pub(crate) etc. -- but not `pub (A, B)` tuple field type: check inner starts with crate/super/in/self
            inner = toks[i + 2].text if i + 2 < len(toks) else ""
            if inner in ("crate", "super", "in", "self"):
                return match_close(toks, i + 1) + 1
        return i + 1
    return i


def r_vis_item(text):
    """R-vis for an item header: make the item itself `pub` (text starts at the item's first token)."""
    toks = tokenize(text)
    j = _vis_span(toks, 0)
    if j == 0:
        return "pub " + text, 1
    return "pub " + text[toks[j].start:], 1


def r_vis_fields(text):
    """R-vis for struct bodies: every named / tuple field becomes `pub`. Enums are left alone."""
    toks = tokenize(text)
    # find 'struct'
    k = None
    for i, t in enumerate(toks):
        if t.kind == "id" and t.text == "struct":
            k = i
            break
        if t.kind == "id" and t.text in ("enum", "fn", "impl"):
            return text, 0
    if k is None:
        return text, 0
    # find body opener
    i = k + 2
    if i < len(toks) and toks[i].text == "<":
        i = angle_skip(toks, i)
    # skip where clause
    while i < len(toks) and toks[i].text not in ("{", "(", ";"):
        i += 1
    if i >= len(toks) or toks[i].text == ";":
        return text, 0
    close = match_close(toks, i)
    edits = []
    n = 0
    j = i + 1
    at_field_start = True
    while j < close:
        t = toks[j]
        if at_field_start:
            e = _vis_span(toks, j)
            if e == j:
                edits.append((t.start, t.start, "pub "))
            else:
                edits.append((t.start, toks[e].start, "pub "))
            n += 1
            at_field_start = False
            j = e if e > j else j
            continue
        if t.kind == "punct" and t.text in OPEN:
            j = match_close(toks, j) + 1
            continue
        if t.text == "<":
            j = angle_skip(toks, j)
            continue
        if t.text == ",":
            at_field_start = j + 1 < close
        j += 1
    return apply_edits(text, edits), n


def _stmt_end(toks, i):
    """index of the ';' that ends the statement starting at token i (depth 0)."""
    j = i
    while j < len(toks):
        t = toks[j]
        if t.kind == "punct":
            if t.text in OPEN:
                j = match_close(toks, j) + 1
                continue
            if t.text == ";":
                return j
            if t.text in CLOSE:
                return None
        j += 1
    return None


LOG_LEVELS = ("trace", "debug", "info", "warn", "error")


def r_log(text):
    """R-log: delete statements that are a single tracing::<level>!(..) invocation."""
    toks = tokenize(text)
    edits = []
    for i in range(len(toks) - 4):
        if (toks[i].text == "tracing" and toks[i + 1].text == "::" and toks[i + 2].text in LOG_LEVELS
                and toks[i + 3].text == "!" and toks[i + 4].text in ("(", "[", "{")):
            prev = toks[i - 1].text if i > 0 else "{"
            if prev not in (";", "{", "}"):
                continue
            k = match_close(toks, i + 4)
            end = toks[k].end
            if k + 1 < len(toks) and toks[k + 1].text == ";":
                end = toks[k + 1].end
            seg = text[toks[i].start:end]
            edits.append((toks[i].start, end, "\n" * seg.count("\n")))
    return apply_edits(text, edits), len(edits)


def _split_first_comma(toks, lo, hi):
    """index of first top-level ',' in toks[lo:hi], or None."""
    j = lo
    while j < hi:
        t = toks[j]
        if t.kind == "punct":
            if t.text in OPEN:
                j = match_close(toks, j) + 1
                continue
            if t.text == ",":
                return j
        j += 1
    return None


def r_errmsg(text):
    """R-errmsg: anyhow::bail!/ensure!/format_err!/anyhow! lose their message; .context(x) -> .context(())."""
    toks = tokenize(text)
    edits = []
    n = 0
    i = 0
    while i < len(toks) - 4:
        if toks[i].text == "anyhow" and toks[i + 1].text == "::" and toks[i + 3].text == "!" and toks[i + 4].text == "(":
            mac = toks[i + 2].text
            k = match_close(toks, i + 4)
            if mac == "bail":
                edits.append((toks[i].start, toks[k].end, "return Err(anyhow_error())"))
                n += 1
                i = k + 1
                continue
            if mac == "ensure":
                c = _split_first_comma(toks, i + 5, k)
                cend = toks[c].start if c is not None else toks[k].start
                cond = text[toks[i + 5].start:cend].rstrip()
                seg = text[toks[i].start:toks[k].end]
                pad = "\n" * (seg.count("\n") - cond.count("\n"))
                edits.append((toks[i].start, toks[k].end, "if !(" + cond + ") { return Err(anyhow_error()); }" + pad))
                n += 1
                i = k + 1
                continue
            if mac in ("format_err", "anyhow"):
                edits.append((toks[i].start, toks[k].end, "anyhow_error()"))
                n += 1
                i = k + 1
                continue
        if (toks[i].text == "." and toks[i + 1].text in ("context", "with_context", "wrap")
                and toks[i + 2].text == "("):
            k = match_close(toks, i + 2)
            name = "context" if toks[i + 1].text != "wrap" else "wrap"
            seg = text[toks[i + 1].start:toks[k].end]
            edits.append((toks[i + 1].start, toks[k].end, name + "(())" + "\n" * seg.count("\n")))
            n += 1
            # do not skip: nested contexts inside args are dropped with the args
            i = k + 1
            continue
        i += 1
    return apply_edits(text, edits), n


def r_underscore(text):
    """R-underscore: closure parameter `_` -> `_verif_unused`."""
    toks = tokenize(text)
    edits = []
    for i in range(1, len(toks) - 1):
        if toks[i].text == "_" and toks[i].kind == "id" and toks[i - 1].text == "|" and toks[i + 1].text == "|":
            edits.append((toks[i].start, toks[i].end, "_verif_unused"))
    return apply_edits(text, edits), len(edits)


def _match_pat(toks, i, pat):
    """match pattern tokens (with holes ('$', name)) at toks[i]; returns (end_index, {name: (lo, hi)}) or None."""
    caps = {}
    j = i
    k = 0
    while k < len(pat):
        p = pat[k]
        if isinstance(p, tuple):
            # hole: balanced run up to the next literal pattern token at depth 0 (or a closer at depth 0)
            nxt = pat[k + 1] if k + 1 < len(pat) else None
            lo = j
            while j < len(toks):
                t = toks[j]
                if nxt is not None and not isinstance(nxt, tuple) and t.text == nxt and j > lo:
                    break
                if t.kind == "punct" and t.text in OPEN:
                    j = match_close(toks, j) + 1
                    continue
                if t.kind == "punct" and t.text in CLOSE:
                    break
                j += 1
            if j == lo:
                return None
            caps[p[1]] = (lo, j)
            k += 1
            continue
        if j >= len(toks) or toks[j].text != p:
            return None
        j += 1
        k += 1
    return j, caps


def sub(text, old, new, count=1):
    """literal replacement keyed on *tokens* (whitespace/comment-insensitive); count must match.
    `$A`, `$B`.. in `old` are holes matching a balanced token run; `$A` in `new` is replaced by the captured source text."""
    toks = tokenize(text)
    raw = tokenize(old)
    pat = []
    k = 0
    while k < len(raw):
        if raw[k].text == "$" and k + 1 < len(raw) and raw[k + 1].kind == "id":
            pat.append(("$", raw[k + 1].text))
            k += 2
        else:
            pat.append(raw[k].text)
            k += 1
    sel = []
    i = 0
    first = pat[0]
    while i < len(toks):
        if isinstance(first, tuple) or toks[i].text == first:
            m = _match_pat(toks, i, pat)
            if m:
                sel.append((i, m[0], m[1]))
                i = m[0]
                continue
        i += 1
    if count is not None and len(sel) != count:
        raise LostAnchor("sub: pattern %r matches %d times, expected %d" % (old, len(sel), count))
    edits = []
    for lo, hi, caps in sel:
        a = toks[lo].start
        b = toks[hi - 1].end
        rep = new
        for name, (clo, chi) in caps.items():
            rep = rep.replace("$" + name, text[toks[clo].start:toks[chi - 1].end])
        seg = text[a:b]
        pad = "\n" * max(0, seg.count("\n") - rep.count("\n"))
        edits.append((a, b, rep + pad))
    return apply_edits(text, edits), len(sel)


def name_ret(header, ret):
    """`fn f(..) -> T [where ..]` => `fn f(..) -> (ret: T) [where ..]`."""
    toks = tokenize(header)
    # locate parameter list: first '(' after 'fn' name (skip generics)
    i = 0
    while toks[i].text != "fn":
        i += 1
    i += 2
    if toks[i].text == "<":
        i = angle_skip(toks, i)
    assert toks[i].text == "(", header
    k = match_close(toks, i)
    if k + 1 >= len(toks) or toks[k + 1].text != "->":
        # unit return
        return header, 0
    a = toks[k + 2].start
    # return type ends at 'where' at depth 0 or end
    j = k + 2
    end = len(header.rstrip())
    while j < len(toks):
        t = toks[j]
        if t.kind == "punct" and t.text in OPEN:
            j = match_close(toks, j) + 1
            continue
        if t.text == "<":
            j = angle_skip(toks, j)
            continue
        if t.text == "where":
            end = toks[j].start
            break
        j += 1
    ty = header[a:end].rstrip()
    return header[:a] + "(" + ret + ": " + ty + ")" + header[a + len(ty):], 1


def r_ctorfn(text):
    """R-ctorfn: an enum constructor used as a function value in `.map_err(Path::Variant)` becomes a closure."""
    toks = tokenize(text)
    edits = []
    for i in range(len(toks) - 3):
        if toks[i].text == "." and toks[i + 1].text in ("map_err", "map") and toks[i + 2].text == "(":
            k = match_close(toks, i + 2)
            inner = toks[i + 3:k]
            if len(inner) >= 3 and all((t.kind == "id") if n % 2 == 0 else (t.text == "::") for n, t in enumerate(inner)) \
                    and len(inner) % 2 == 1 and inner[-1].text[0].isupper():
                path = "".join(t.text for t in inner)
                edits.append((inner[0].start, inner[-1].end, "|verif_e| %s(verif_e)" % path))
    return apply_edits(text, edits), len(edits)


def r_metrics(text):
    """R-log (metrics): delete statements that start with `metrics::METRICS` / `crate::metrics::METRICS` (value unused)."""
    toks = tokenize(text)
    edits = []
    i = 0
    while i < len(toks) - 3:
        start = None
        if toks[i].text == "metrics" and toks[i + 1].text == "::" and toks[i + 2].text == "METRICS":
            start = i
        elif (toks[i].text == "crate" and toks[i + 1].text == "::" and toks[i + 2].text == "metrics"
              and i + 4 < len(toks) and toks[i + 4].text == "METRICS"):
            start = i
        if start is not None and (start == 0 or toks[start - 1].text in (";", "{", "}")):
            e = _stmt_end(toks, start)
            if e is not None:
                seg = text[toks[start].start:toks[e].end]
                edits.append((toks[start].start, toks[e].end, "\n" * seg.count("\n")))
                i = e + 1
                continue
        i += 1
    return apply_edits(text, edits), len(edits)
