"""Locate items (fn / struct / enum / const / impl / mod / trait) in a Rust source file by path."""
import hashlib
import os

from .lex import tokenize, match_close, OPEN, texts, angle_skip


class LostAnchor(Exception):
    """An item / anchor named by a unit spec cannot be found (or is ambiguous) in the working tree."""


QUALS = {"pub", "async", "const", "unsafe", "default", "extern"}


class Source:
    def __init__(self, path, text=None):
        self.path = path
        if text is None:
            with open(path, "r", encoding="utf-8") as f:
                text = f.read()
        self.text = text
        self.toks = tokenize(text)

    # ---- container scan -------------------------------------------------------------------
    def _top_level(self, lo, hi):
        """yield token indices in [lo,hi) that are at bracket depth 0 relative to the range."""
        j = lo
        toks = self.toks
        while j < hi:
            yield j
            if toks[j].kind == "punct" and toks[j].text in OPEN:
                j = match_close(toks, j) + 1
            else:
                j += 1

    def _item_start(self, j, lo):
        """walk back from keyword token j over visibility/qualifier tokens."""
        toks = self.toks
        k = j
        while k - 1 >= lo:
            p = toks[k - 1]
            if p.kind == "id" and p.text in QUALS:
                k -= 1
            elif p.kind == "str" and k - 2 >= lo and toks[k - 2].text == "extern":
                k -= 1
            elif p.text == ")" and p.kind == "punct":
                # pub(crate) / pub(super) / pub(in path)
                q = k - 1
                depth = 0
                while q >= lo:
                    if toks[q].text == ")":
                        depth += 1
                    elif toks[q].text == "(":
                        depth -= 1
                        if depth == 0:
                            break
                    q -= 1
                if q - 1 >= lo and toks[q - 1].text == "pub":
                    k = q - 1
                else:
                    break
            else:
                break
        return k

    def _find_in(self, lo, hi, seg):
        """find items matching one path segment inside token range [lo,hi). returns list of dicts."""
        toks = self.toks
        segt = texts(tokenize(seg))
        kind = segt[0]
        found = []
        for j in self._top_level(lo, hi):
            t = toks[j]
            if t.kind != "id" or t.text != kind:
                continue
            if kind in ("fn", "struct", "enum", "const", "static", "type", "mod", "trait", "union"):
                if j + 1 >= hi or toks[j + 1].text != segt[1]:
                    continue
                if kind == "const" and toks[j + 1].text == "fn":
                    continue
                start = self._item_start(j, lo)
                # find end
                k = j + 2
                body_open = None
                end = None
                while k < hi:
                    tx = toks[k].text
                    if toks[k].kind == "punct":
                        if tx == "{":
                            body_open = k
                            end = match_close(toks, k)
                            break
                        if tx == ";":
                            end = k
                            break
                        if tx in OPEN:
                            k = match_close(toks, k) + 1
                            continue
                    k += 1
                if end is None:
                    continue
                # tuple struct `struct X(..);` ends with ';' (handled above: '(' skipped, ';' found)
                found.append(dict(kind=kind, name=segt[1], start=start, kw=j, body_open=body_open, end=end))
            elif kind == "impl":
                # header = tokens from impl up to the first '{' at depth 0
                k = j + 1
                while k < hi and not (toks[k].kind == "punct" and toks[k].text == "{"):
                    if toks[k].kind == "punct" and toks[k].text in ("(", "["):
                        k = match_close(toks, k) + 1
                    else:
                        k += 1
                if k >= hi:
                    continue
                header = texts(toks[j:k])
                if header == segt:
                    start = self._item_start(j, lo)
                    found.append(dict(kind="impl", name=" ".join(segt[1:]), start=start, kw=j, body_open=k,
                                      end=match_close(toks, k)))
        return found

    def find(self, path):
        """path: list of segments, e.g. ["impl Schedule", "fn view_leader"].
        An `impl` segment may match several blocks with the same header; the item must be unique overall."""
        ranges = [(0, len(self.toks))]
        item = None
        for n, seg in enumerate(path):
            cands = []
            for lo, hi in ranges:
                cands.extend(self._find_in(lo, hi, seg))
            last = n + 1 == len(path)
            if not cands or (len(cands) != 1 and (last or not seg.startswith("impl"))):
                raise LostAnchor("%s: segment %r of %r matches %d items" % (self.path, seg, path, len(cands)))
            item = cands[0]
            if not last:
                ranges = []
                for c in cands:
                    if c["body_open"] is None:
                        raise LostAnchor("%s: %r has no body" % (self.path, seg))
                    ranges.append((c["body_open"] + 1, c["end"]))
        return Item(self, item)


class Item:
    def __init__(self, src, d):
        self.src = src
        self.kind = d["kind"]
        self.name = d["name"]
        self.start = d["start"]        # token index of first token (visibility / qualifier / keyword)
        self.kw = d["kw"]              # token index of the keyword
        self.body_open = d["body_open"]
        self.end = d["end"]            # token index of closing '}' or ';'

    @property
    def toks(self):
        return self.src.toks[self.start:self.end + 1]

    def text(self):
        t = self.src.toks
        return self.src.text[t[self.start].start:t[self.end].end]

    def header_text(self):
        """text from first token to just before the body '{' (fn signature incl. qualifiers)."""
        t = self.src.toks
        if self.body_open is None:
            return self.src.text[t[self.start].start:t[self.end].start]
        return self.src.text[t[self.start].start:t[self.body_open].start]

    def body_text(self):
        t = self.src.toks
        return self.src.text[t[self.body_open].start:t[self.end].end]

    def line_span(self):
        t = self.src.toks
        a = self.src.text.count("\n", 0, t[self.start].start) + 1
        b = self.src.text.count("\n", 0, t[self.end].end) + 1
        return a, b

    def token_hash(self):
        h = hashlib.sha256()
        for tk in self.toks:
            h.update(tk.text.encode())
            h.update(b"\0")
        return h.hexdigest()


_cache = {}


def load(repo, rel):
    p = os.path.join(repo, rel)
    st = os.stat(p)
    key = (p, st.st_mtime_ns, st.st_size)
    if key not in _cache:
        _cache[key] = Source(p)
    return _cache[key]
