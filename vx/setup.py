"""./check --setup: offline, builds nothing that needs the network. Byte-compiles vx, warms Verus."""
import compileall
import os
import subprocess
import sys


def setup(root, repo, reg):
    compileall.compile_dir(os.path.join(root, "vx"), quiet=1)
    compileall.compile_dir(os.path.join(root, "units"), quiet=1)
    os.makedirs(os.path.join(root, ".work"), exist_ok=True)
    os.makedirs(os.path.join(root, "evidence"), exist_ok=True)
    os.makedirs(os.path.join(root, "replays"), exist_ok=True)
    # warm Verus (first run after a restore is slower)
    p = os.path.join(root, ".work", "_warm.rs")
    with open(p, "w") as f:
        f.write("use vstd::prelude::*;\nverus! { proof fn warm(x: int) ensures x + 0 == x {} }\nfn main() {}\n")
    r = subprocess.run(["verus", p], capture_output=True, text=True)
    print("verus warm-up rc=%d" % r.returncode)
    if r.returncode != 0:
        print(r.stdout[-500:], r.stderr[-500:])
        return 1
    try:
        from . import kani as K
        K.setup(root, repo)
    except ImportError:
        pass
    return 0
