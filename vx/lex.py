"""Minimal Rust tokenizer (enough to locate items and rewrite token spans).

Tokens carry byte offsets into the source text so that every rewrite is a span edit of the
*original* text: whatever is not touched by a named rule is copied verbatim.
"""
import re

IDENT_RE = re.compile(r"[A-Za-z_][A-Za-z0-9_]*")
NUM_RE = re.compile(r"[0-9][0-9A-Za-z_]*(\.[0-9][0-9A-Za-z_]*)?")

PUNCT3 = ("<<=", ">>=", "...", "..=")
PUNCT2 = ("::", "->", "=>", "==", "!=", "<=", ">=", "&&", "||", "+=", "-=", "*=", "/=", "%=",
          "^=", "&=", "|=", "<<", ">>", "..")

OPEN = {"(": ")", "[": "]", "{": "}"}
CLOSE = {")": "(", "]": "[", "}": "{"}


class Tok:
    __slots__ = ("kind", "text", "start", "end")

    def __init__(self, kind, text, start, end):
        self.kind = kind      # id | num | str | char | life | punct | comment | doc
        self.text = text
        self.start = start
        self.end = end

    def __repr__(self):
        return "Tok(%s,%r,%d)" % (self.kind, self.text, self.start)


class LexError(Exception):
    pass


def tokenize(src, keep_comments=False):
    toks = []
    i = 0
    n = len(src)
    while i < n:
        c = src[i]
        if c in " \t\r\n":
            i += 1
            continue
        if src.startswith("//", i):
            j = src.find("\n", i)
            if j < 0:
                j = n
            if keep_comments:
                toks.append(Tok("comment", src[i:j], i, j))
            i = j
            continue
        if src.startswith("/*", i):
            depth = 1
            j = i + 2
            while j < n and depth > 0:
                if src.startswith("/*", j):
                    depth += 1
                    j += 2
                elif src.startswith("*/", j):
                    depth -= 1
                    j += 2
                else:
                    j += 1
            if keep_comments:
                toks.append(Tok("comment", src[i:j], i, j))
            i = j
            continue
        # raw strings / byte strings
        m = re.match(r"(b|c)?r(#*)\"", src[i:i + 40])
        if m:
            hashes = m.group(2)
            endpat = '"' + hashes
            j = src.find(endpat, i + m.end())
            if j < 0:
                raise LexError("unterminated raw string at %d" % i)
            j += len(endpat)
            toks.append(Tok("str", src[i:j], i, j))
            i = j
            continue
        if c == '"' or (c in "bc" and i + 1 < n and src[i + 1] == '"'):
            j = i + (1 if c == '"' else 2)
            while j < n and src[j] != '"':
                if src[j] == "\\":
                    j += 1
                j += 1
            j += 1
            toks.append(Tok("str", src[i:j], i, j))
            i = j
            continue
        if c == "'" or (c == "b" and i + 1 < n and src[i + 1] == "'"):
            k = i + (0 if c == "'" else 1)
            # char literal or lifetime
            m = re.match(r"'(\\.[^']*|[^'\\])'", src[k:k + 16])
            if m:
                j = k + m.end()
                toks.append(Tok("char", src[i:j], i, j))
                i = j
                continue
            m = IDENT_RE.match(src, k + 1)
            if m and c == "'":
                toks.append(Tok("life", src[i:m.end()], i, m.end()))
                i = m.end()
                continue
            raise LexError("bad quote at %d" % i)
        m = IDENT_RE.match(src, i)
        if m:
            # r#ident
            toks.append(Tok("id", m.group(0), i, m.end()))
            i = m.end()
            continue
        m = NUM_RE.match(src, i)
        if m:
            # avoid swallowing `0..n` : NUM_RE requires digit after '.', so fine
            toks.append(Tok("num", m.group(0), i, m.end()))
            i = m.end()
            continue
        for p in PUNCT3:
            if src.startswith(p, i):
                toks.append(Tok("punct", p, i, i + 3))
                i += 3
                break
        else:
            for p in PUNCT2:
                if src.startswith(p, i):
                    toks.append(Tok("punct", p, i, i + 2))
                    i += 2
                    break
            else:
                toks.append(Tok("punct", c, i, i + 1))
                i += 1
    return toks


def match_close(toks, i):
    """toks[i] is an opening bracket; return index of its matching closer.

    `<`/`>` are not treated as brackets. `>>` inside generics is irrelevant here.
    """
    assert toks[i].text in OPEN, toks[i]
    depth = 0
    j = i
    while j < len(toks):
        t = toks[j].text
        if toks[j].kind == "punct":
            if t in OPEN:
                depth += 1
            elif t in CLOSE:
                depth -= 1
                if depth == 0:
                    return j
        j += 1
    raise LexError("unbalanced bracket at token %d (%s)" % (i, toks[i]))


def texts(toks):
    return [t.text for t in toks]


def find_seq(toks, pat, start=0, end=None):
    """All indices i with texts(toks[i:i+len(pat)]) == pat (pat: list of str)."""
    out = []
    end = len(toks) if end is None else end
    L = len(pat)
    if L == 0:
        return out
    first = pat[0]
    for i in range(start, end - L + 1):
        if toks[i].text == first:
            ok = True
            for k in range(1, L):
                if toks[i + k].text != pat[k]:
                    ok = False
                    break
            if ok:
                out.append(i)
    return out


def angle_skip(toks, i):
    """toks[i] is '<' opening a generic list; return index just past its closing '>'."""
    depth = 0
    j = i
    while j < len(toks):
        t = toks[j].text
        if t == "<":
            depth += 1
        elif t == ">":
            depth -= 1
        elif t == ">>":
            depth -= 2
        elif t == "->" or t == "=>":
            pass
        elif t in OPEN:
            j = match_close(toks, j)
        if depth <= 0 and t in (">", ">>"):
            return j + 1
        j += 1
    raise LexError("unbalanced <> at %d" % i)
