"""U-mux (C14, C10): mux header codec, inbound dispatch with permits, transient stream read/write."""
from vx.unit import Unit
from units import common
from units import noise as N

D = "node/components/network/src/mux/"
F_H = D + "header.rs"
F_M = D + "mod.rs"
F_T = D + "transient_stream.rs"
F_R = D + "reusable_stream.rs"
F_C = D + "config.rs"

PRELUDE_H = r"""
#[verifier::external_body] pub fn verif_u16_to_le(x: u16) -> (r: [u8; 2]) ensures r@ == le16(x), r@.len() == 2 { x.to_le_bytes() }     // A1 (R-std)
#[verifier::external_body] pub fn verif_u16_from_le(b: [u8; 2]) -> (r: u16) ensures le16(r) == b@ { u16::from_le_bytes(b) }            // A1 (R-std)
pub uninterp spec fn le16(x: u16) -> Seq<u8>;
pub broadcast axiom fn le16_inj(a: u16, b: u16) requires #[trigger] le16(a) == #[trigger] le16(b) ensures a == b;     // A1: to_le_bytes is injective
"""

SPEC_H = r"""
// ---------------- specification of the 16-bit frame header (C14): 2 bits frame kind | 1 bit stream kind | 13 bits stream id ----------------
pub open spec fn is_frame_kind(f: u16) -> bool { f == 0x0000 || f == 0x4000 || f == 0x8000 }     // OPEN, DATA, CLOSE
pub open spec fn is_stream_kind(s: u16) -> bool { s == 0x0000 || s == 0x2000 }                   // ACCEPT, CONNECT
// the codec is a bijection between valid triples and the headers whose frame-kind bits are not both set
pub proof fn lemma_header_roundtrip(f: u16, s: u16, id: u16)
    requires is_frame_kind(f), is_stream_kind(s), id <= 0x1FFF,
    ensures (f | s | id) & 0xC000 == f, (f | s | id) & 0x2000 == s, (f | s | id) & 0x1FFF == id,
{
    assert((f | s | id) & 0xC000 == f && (f | s | id) & 0x2000 == s && (f | s | id) & 0x1FFF == id) by(bit_vector)
        requires (f == 0x0000 || f == 0x4000 || f == 0x8000), (s == 0x0000 || s == 0x2000), id <= 0x1FFF;
}
pub proof fn lemma_header_parts(h: u16)
    ensures (h & 0xC000) | (h & 0x2000) | (h & 0x1FFF) == h,
            h & 0x2000 == 0x0000 || h & 0x2000 == 0x2000,
            h & 0x1FFF <= 0x1FFF,
            h & 0xC000 == 0x0000 || h & 0xC000 == 0x4000 || h & 0xC000 == 0x8000 || h & 0xC000 == 0xC000,
{
    assert((h & 0xC000) | (h & 0x2000) | (h & 0x1FFF) == h) by(bit_vector);
    assert(h & 0x2000 == 0x0000 || h & 0x2000 == 0x2000) by(bit_vector);
    assert(h & 0x1FFF <= 0x1FFF) by(bit_vector);
    assert(h & 0xC000 == 0x0000 || h & 0xC000 == 0x4000 || h & 0xC000 == 0x8000 || h & 0xC000 == 0xC000) by(bit_vector);
}
"""


def add_header(U):
    U.raw(PRELUDE_H, label="prelude header")
    DC = "#[derive(Clone, Copy, PartialEq, Eq, Structural)]"
    U.item(F_H, "struct StreamId", attrs=DC)
    U.item(F_H, "struct StreamKind", attrs=DC)
    U.item(F_H, "struct FrameKind", attrs=DC)
    U.item(F_H, "struct Header", attrs="#[derive(Clone, Copy)]")
    for ty, names in (("FrameKind", ("MASK", "OPEN", "DATA", "CLOSE")), ("StreamKind", ("MASK", "ACCEPT", "CONNECT")), ("StreamId", ("MASK",))):
        for n in names:
            U.item(F_H, "impl %s :: const %s" % (ty, n), vis=False, label="const %s::%s" % (ty, n))
            U.sections[-1].text = "impl %s {\npub " % ty + U.sections[-1].text.replace("pub(super) ", "") + "}\n"
    U.raw(SPEC_H, label="spec header", canary=True)
    U.fn(F_H, "impl StreamId :: fn new", wrap="impl StreamId", ret="r",
         subs=[("assert!(id <= Self::MASK);", "assert(id <= Self::MASK);   // R-dbg: assert! as proof obligation on every caller")],
         spec="    requires id <= 0x1FFF,\n    ensures r.0 == id,\n")
    U.fn(F_H, "impl Header :: fn new", wrap="impl Header", ret="r", spec="    ensures r.0 == f.0 | s.0 | id.0,\n")
    U.fn(F_H, "impl Header :: fn frame_kind", wrap="impl Header", ret="r",
         proof_at_start="proof { lemma_header_parts(self.0); assert(FrameKind::MASK == 0xC000) by(bit_vector) requires FrameKind::MASK == 0x0000u16 | 0x4000u16 | 0x8000u16; }",
         spec="""
    ensures r.0 == self.0 & 0xC000,
            // FOUR values are possible: OPEN, DATA, CLOSE and the invalid 0xC000 -- callers must handle all four
            r.0 == 0x0000 || r.0 == 0x4000 || r.0 == 0x8000 || r.0 == 0xC000,
""")
    U.fn(F_H, "impl Header :: fn stream_kind", wrap="impl Header", ret="r",
         proof_at_start="proof { lemma_header_parts(self.0); assert(StreamKind::MASK == 0x2000) by(bit_vector) requires StreamKind::MASK == 0x0000u16 | 0x2000u16; }",
         spec="""
    ensures r.0 == self.0 & 0x2000, r.0 == 0x0000 || r.0 == 0x2000,      // exactly two values
""")
    U.fn(F_H, "impl Header :: fn stream_id", wrap="impl Header", ret="r",
         proof_at_start="proof { lemma_header_parts(self.0); }",
         spec="    ensures r.0 == self.0 & 0x1FFF, r.0 <= 0x1FFF,\n")
    U.fn(F_H, "impl Header :: fn raw", wrap="impl Header", ret="r",
         subs=[("self.0.to_le_bytes()", "verif_u16_to_le(self.0)   /* R-std */")],
         spec="    ensures r@ == le16(self.0),\n")
    U.fn(F_H, "impl From<[u8; 2]> for Header :: fn from", wrap="impl Header", ret="r",
         subs=[("u16::from_le_bytes(raw)", "verif_u16_from_le(raw)   /* R-std */")],
         spec="    ensures le16(r.0) == raw@,      // from(raw(h)) == h by injectivity of the little-endian encoding\n")


PRELUDE_M = r"""
// ---------------- prelude for Mux::process_inbound_frames (R-type: runtime handles opaque; A4) ----------------
#[verifier::external_body] pub struct Ctx { _p: u8 }
#[verifier::external_body] pub struct Canceled { _p: u8 }
#[verifier::external_body] pub struct IoError { _p: u8 }
#[verifier::external_body] pub struct AnyhowError { _p: u8 }
#[verifier::external_body] pub fn anyhow_error() -> AnyhowError { unimplemented!() }
#[verifier::external_body] pub struct Reader { _p: u8 }                 // impl io::AsyncRead + Send + Unpin
#[verifier::external_body] pub struct Semaphore { _p: u8 }              // tokio::sync::Semaphore
#[verifier::external_body] pub struct OwnedSemaphorePermit { _p: u8 }
#[verifier::external_body] pub struct FrameSender { _p: u8 }            // channel::UnboundedSender<Frame>
#[verifier::external_body] pub struct QueueMap { _p: u8 }               // BTreeMap<CapabilityId, Arc<StreamQueue>>
impl From<Canceled> for RunError { #[verifier::external_body] fn from(e: Canceled) -> (r: RunError) { unimplemented!() } }
impl From<IoError> for RunError { #[verifier::external_body] fn from(e: IoError) -> (r: RunError) { unimplemented!() } }
pub trait VerifContextOpt<T> { fn context(self, c: ()) -> Result<T, AnyhowError>; }
impl<T> VerifContextOpt<T> for Option<T> {        // anyhow::Context on Option: Some(v) -> Ok(v), None -> Err (A1)
    #[verifier::external_body] fn context(self, c: ()) -> (r: Result<T, AnyhowError>)
        ensures r.is_ok() == self.is_some(), self.is_some() ==> r == Result::<T, AnyhowError>::Ok(self.unwrap()) { unimplemented!() }
}
impl OwnedSemaphorePermit { pub uninterp spec fn n(&self) -> nat; pub uninterp spec fn of(&self) -> int; }
impl Semaphore {
    pub uninterp spec fn id(&self) -> int;       // ghost identity of the semaphore
    #[verifier::external_body] pub fn new(permits: usize) -> (r: Self) { unimplemented!() }
    // tokio: acquiring 0 permits from an open semaphore always succeeds (A4)
    #[verifier::external_body]
    pub fn try_acquire_many_owned(self: Arc<Self>, n: u32) -> (r: Result<OwnedSemaphorePermit, ()>)
        ensures n == 0 ==> r.is_ok(), r matches Ok(p) ==> p.n() == n && p.of() == self.id() { unimplemented!() }
}
// sync::acquire_many_owned: waits until n permits are free (A4)
#[verifier::external_body]
pub async fn acquire_many_owned(ctx: &Ctx, s: Arc<Semaphore>, n: u32) -> (r: Result<OwnedSemaphorePermit, Canceled>)
    ensures r matches Ok(p) ==> p.n() == n && p.of() == s.id() { unimplemented!() }
#[verifier::external_body]
pub async fn io_read_exact_2(ctx: &Ctx, r: &mut Reader, buf: &mut [u8; 2]) -> (res: Result<Result<(), IoError>, Canceled>) { unimplemented!() }
#[verifier::external_body]
pub async fn io_read_exact(ctx: &Ctx, r: &mut Reader, buf: &mut [u8]) -> (res: Result<Result<(), IoError>, Canceled>)
    ensures final(buf)@.len() == old(buf)@.len() { unimplemented!() }
// what may travel on a stream's frame channel (the invariant ReadStream::read_exact relies on), and what it costs:
// every frame owns 1 frame-count permit; a DATA frame owns as many buffer-size permits as it has bytes
pub open spec fn frame_ok(f: Frame, count_sem: int, size_sem: int) -> bool {
    let k = f.header.0 & 0xC000;
    &&& k == 0x0000 || k == 0x4000 || k == 0x8000
    &&& f._permit.is_some() && f._permit.unwrap()._count.n() == 1 && f._permit.unwrap()._count.of() == count_sem
    &&& f._permit.unwrap()._size.of() == size_sem
    &&& (k == 0x4000) ==> f.data.is_some() && f.data.unwrap().wf() && f.data.unwrap().content().len() == f._permit.unwrap()._size.n()
    &&& (k != 0x4000) ==> f.data.is_none() && f._permit.unwrap()._size.n() == 0
}
impl FrameSender {
    #[verifier::external_body]
    pub fn send(&self, f: Frame, Ghost(count_sem): Ghost<int>, Ghost(size_sem): Ghost<int>)
        requires frame_ok(f, count_sem, size_sem) { unimplemented!() }
}
"""


def add_dispatch(U):
    N.add_buffer(U)
    U.item(F_C, "struct Config", attrs="")
    U.item(F_M, "enum RunError", subs=[("anyhow::Error", "AnyhowError", None), ("ctx::Canceled", "Canceled"), ("io::Error", "IoError")])
    U.item(F_R, "struct ReadPermit", subs=[("sync::OwnedSemaphorePermit", "OwnedSemaphorePermit", None)])
    U.item(F_R, "struct Frame", subs=[("bytes::Buffer", "Buffer")])
    U.item(F_M, "struct Mux", subs=[("BTreeMap<CapabilityId, Arc<StreamQueue>>", "QueueMap", None)])
    U.raw(PRELUDE_M, label="prelude dispatch")
    U.fn(F_M, "impl Mux :: fn process_inbound_frames", wrap="impl Mux", ret="r", props=["C14", "C10"],
         attrs="#[verifier::exec_allows_no_decreases_clause]",
         header_subs=[("ctx::Ctx", "Ctx"), ("mut read: impl io::AsyncRead + Send + Unpin", "read: Reader"),
                      ("Vec<channel::UnboundedSender<Frame>>", "Vec<FrameSender>", None)],
         proof_at_start="let mut read = read;   /* R-mutparam */",
         subs=[("loop {\n            let mut header", "let ghost verif_cs = count_sem.id(); let ghost verif_ss = size_sem.id();   /* W-ghost */\n        loop {\n            let mut header"),
               ("sync::Semaphore::new(", "Semaphore::new(", None),
               ("io::read_exact(ctx, &mut read, &mut header)", "io_read_exact_2(ctx, &mut read, &mut header)   /* R-std */"),
               ("io::read_exact(ctx, &mut read, &mut length)", "io_read_exact_2(ctx, &mut read, &mut length)   /* R-std */"),
               ("io::read_exact(ctx, &mut read, data.as_mut_capacity())", "io_read_exact(ctx, &mut read, data.as_mut_capacity())"),
               ("sync::acquire_many_owned(", "acquire_many_owned(", None),
               ("u16::from_le_bytes(length)", "verif_u16_from_le(length)   /* R-std */"),
               ("std::cmp::min(", "verif_min_usize("),
               ("bytes::Buffer::new(", "Buffer::new("),
               ("stream.send(Frame {\n                        header,\n                        data: None,\n                        _permit: permit,\n                    });",
                "stream.send(Frame {\n                        header,\n                        data: None,\n                        _permit: permit,\n                    }, Ghost(verif_cs), Ghost(verif_ss));   /* W-ghost */"),
               ("stream.send(Frame {\n                            header,\n                            data: Some(data),\n                            _permit: permit,\n                        });",
                "stream.send(Frame {\n                            header,\n                            data: Some(data),\n                            _permit: permit,\n                        }, Ghost(verif_cs), Ghost(verif_ss));   /* W-ghost */")],
         loops={0: dict(prefix="loop", inv="self.cfg.read_frame_size > 0, verif_cs == count_sem.id(), verif_ss == size_sem.id(),"),
                1: dict(prefix="while length > 0", inv="""
                            self.cfg.read_frame_size > 0, (header.0 & 0xC000) == 0x4000, length <= 0xFFFF,
                            verif_cs == count_sem.id(), verif_ss == size_sem.id(),
""", decreases="length")},
         post_subs=[("let stream = streams", """// W-ghost: a frame goes to exactly the stream its header names, on the side opposite to the sender's
            assert(streams@ == (if (header.0 & 0x2000) == 0x0000 { connect_streams@ } else { accept_streams@ }));
            let stream = streams""")],
         spec="""
    // local configuration, not peer input (Config::verify does not enforce it; a zero frame size would make the split loop spin)
    requires self.cfg.read_frame_size > 0,
    // never returns Ok: runs until the transport ends or the peer violates the protocol; and for EVERY byte string the peer may
    // send it does not panic: all four frame kinds are handled, stream ids out of range are a protocol error, no arithmetic overflow
    ensures r.is_err(),
""")


def build(repo):
    U = Unit("mux", ["C14"], desc="stream multiplexer", uses="use std::sync::Arc;", crate_attrs="#![feature(allocator_api)]")
    U.repo = repo
    add_header(U)
    add_dispatch(U)
    return U
