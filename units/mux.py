"""U-mux (C14, C10): mux header codec, inbound dispatch with permits, transient stream read/write."""
from vx.unit import Unit
from units import common
from units import noise as N

D = "node/components/network/src/mux/"
F_H = D + "header.rs"
F_M = D + "mod.rs"
F_T = D + "transient_stream.rs"
F_R = D + "reusable_stream.rs"
F_C = D + "config.rs"

PRELUDE_H = r"""
#[verifier::external_body] pub fn verif_u16_to_le(x: u16) -> (r: [u8; 2]) ensures r@ == le16(x), r@.len() == 2 { x.to_le_bytes() }     // A1 (R-std)
#[verifier::external_body] pub fn verif_u16_from_le(b: [u8; 2]) -> (r: u16) ensures le16(r) == b@ { u16::from_le_bytes(b) }            // A1 (R-std)
pub uninterp spec fn le16(x: u16) -> Seq<u8>;
pub broadcast axiom fn le16_inj(a: u16, b: u16) requires #[trigger] le16(a) == #[trigger] le16(b) ensures a == b;     // A1: to_le_bytes is injective
"""

SPEC_H = r"""
// ---------------- specification of the 16-bit frame header (C14): 2 bits frame kind | 1 bit stream kind | 13 bits stream id ----------------
pub open spec fn is_frame_kind(f: u16) -> bool { f == 0x0000 || f == 0x4000 || f == 0x8000 }     // OPEN, DATA, CLOSE
pub open spec fn is_stream_kind(s: u16) -> bool { s == 0x0000 || s == 0x2000 }                   // ACCEPT, CONNECT
// the codec is a bijection between valid triples and the headers whose frame-kind bits are not both set
pub proof fn lemma_header_roundtrip(f: u16, s: u16, id: u16)
    requires is_frame_kind(f), is_stream_kind(s), id <= 0x1FFF,
    ensures (f | s | id) & 0xC000 == f, (f | s | id) & 0x2000 == s, (f | s | id) & 0x1FFF == id,
{
    assert((f | s | id) & 0xC000 == f && (f | s | id) & 0x2000 == s && (f | s | id) & 0x1FFF == id) by(bit_vector)
        requires (f == 0x0000 || f == 0x4000 || f == 0x8000), (s == 0x0000 || s == 0x2000), id <= 0x1FFF;
}
pub proof fn lemma_header_parts(h: u16)
    ensures (h & 0xC000) | (h & 0x2000) | (h & 0x1FFF) == h,
            h & 0x2000 == 0x0000 || h & 0x2000 == 0x2000,
            h & 0x1FFF <= 0x1FFF,
            h & 0xC000 == 0x0000 || h & 0xC000 == 0x4000 || h & 0xC000 == 0x8000 || h & 0xC000 == 0xC000,
{
    assert((h & 0xC000) | (h & 0x2000) | (h & 0x1FFF) == h) by(bit_vector);
    assert(h & 0x2000 == 0x0000 || h & 0x2000 == 0x2000) by(bit_vector);
    assert(h & 0x1FFF <= 0x1FFF) by(bit_vector);
    assert(h & 0xC000 == 0x0000 || h & 0xC000 == 0x4000 || h & 0xC000 == 0x8000 || h & 0xC000 == 0xC000) by(bit_vector);
}
"""


def add_header(U):
    U.raw(PRELUDE_H, label="prelude header")
    DC = "#[derive(Clone, Copy, PartialEq, Eq, Structural)]"
    U.item(F_H, "struct StreamId", attrs=DC)
    U.item(F_H, "struct StreamKind", attrs=DC)
    U.item(F_H, "struct FrameKind", attrs=DC)
    U.item(F_H, "struct Header", attrs="#[derive(Clone, Copy)]")
    for ty, names in (("FrameKind", ("MASK", "OPEN", "DATA", "CLOSE")), ("StreamKind", ("MASK", "ACCEPT", "CONNECT")), ("StreamId", ("MASK",))):
        for n in names:
            U.item(F_H, "impl %s :: const %s" % (ty, n), vis=False, label="const %s::%s" % (ty, n))
            U.sections[-1].text = "impl %s {\npub " % ty + U.sections[-1].text.replace("pub(super) ", "") + "}\n"
    U.raw(SPEC_H, label="spec header", canary=True)
    U.fn(F_H, "impl StreamId :: fn new", wrap="impl StreamId", ret="r",
         subs=[("assert!(id <= Self::MASK);", "assert(id <= Self::MASK);   // R-dbg: assert! as proof obligation on every caller")],
         spec="    requires id <= 0x1FFF,\n    ensures r.0 == id,\n")
    U.fn(F_H, "impl Header :: fn new", wrap="impl Header", ret="r", spec="    ensures r.0 == f.0 | s.0 | id.0,\n")
    U.fn(F_H, "impl Header :: fn frame_kind", wrap="impl Header", ret="r",
         proof_at_start="proof { lemma_header_parts(self.0); assert(FrameKind::MASK == 0xC000) by(bit_vector) requires FrameKind::MASK == 0x0000u16 | 0x4000u16 | 0x8000u16; }",
         spec="""
    ensures r.0 == self.0 & 0xC000,
            // FOUR values are possible: OPEN, DATA, CLOSE and the invalid 0xC000 -- callers must handle all four
            r.0 == 0x0000 || r.0 == 0x4000 || r.0 == 0x8000 || r.0 == 0xC000,
""")
    U.fn(F_H, "impl Header :: fn stream_kind", wrap="impl Header", ret="r",
         proof_at_start="proof { lemma_header_parts(self.0); assert(StreamKind::MASK == 0x2000) by(bit_vector) requires StreamKind::MASK == 0x0000u16 | 0x2000u16; }",
         spec="""
    ensures r.0 == self.0 & 0x2000, r.0 == 0x0000 || r.0 == 0x2000,      // exactly two values
""")
    U.fn(F_H, "impl Header :: fn stream_id", wrap="impl Header", ret="r",
         proof_at_start="proof { lemma_header_parts(self.0); }",
         spec="    ensures r.0 == self.0 & 0x1FFF, r.0 <= 0x1FFF,\n")
    U.fn(F_H, "impl Header :: fn raw", wrap="impl Header", ret="r",
         subs=[("self.0.to_le_bytes()", "verif_u16_to_le(self.0)   /* R-std */")],
         spec="    ensures r@ == le16(self.0),\n")
    U.fn(F_H, "impl From<[u8; 2]> for Header :: fn from", wrap="impl Header", ret="r",
         subs=[("u16::from_le_bytes(raw)", "verif_u16_from_le(raw)   /* R-std */")],
         spec="    ensures le16(r.0) == raw@,      // from(raw(h)) == h by injectivity of the little-endian encoding\n")


PRELUDE_M = r"""
// ---------------- prelude for Mux::process_inbound_frames (R-type: runtime handles opaque; A4) ----------------
#[verifier::external_body] pub struct Ctx { _p: u8 }
#[verifier::external_body] pub struct Canceled { _p: u8 }
#[verifier::external_body] pub struct IoError { _p: u8 }
#[verifier::external_body] pub struct AnyhowError { _p: u8 }
#[verifier::external_body] pub fn anyhow_error() -> AnyhowError { unimplemented!() }
#[verifier::external_body] pub struct Reader { _p: u8 }                 // impl io::AsyncRead + Send + Unpin
#[verifier::external_body] pub struct Semaphore { _p: u8 }              // tokio::sync::Semaphore
#[verifier::external_body] pub struct OwnedSemaphorePermit { _p: u8 }
#[verifier::external_body] pub struct FrameSender { _p: u8 }            // channel::UnboundedSender<Frame>
#[verifier::external_body] pub struct QueueMap { _p: u8 }               // BTreeMap<CapabilityId, Arc<StreamQueue>>
impl From<Canceled> for RunError { #[verifier::external_body] fn from(e: Canceled) -> (r: RunError) { unimplemented!() } }
impl From<IoError> for RunError { #[verifier::external_body] fn from(e: IoError) -> (r: RunError) { unimplemented!() } }
pub trait VerifContextOpt<T> { fn context(self, c: ()) -> Result<T, AnyhowError>; }
impl<T> VerifContextOpt<T> for Option<T> {        // anyhow::Context on Option: Some(v) -> Ok(v), None -> Err (A1)
    #[verifier::external_body] fn context(self, c: ()) -> (r: Result<T, AnyhowError>)
        ensures r.is_ok() == self.is_some(), self.is_some() ==> r == Result::<T, AnyhowError>::Ok(self.unwrap()) { unimplemented!() }
}
impl OwnedSemaphorePermit { pub uninterp spec fn n(&self) -> nat; pub uninterp spec fn of(&self) -> int; }
impl Semaphore {
    pub uninterp spec fn id(&self) -> int;       // ghost identity of the semaphore
    pub uninterp spec fn capacity(&self) -> usize;     // the number of permits the semaphore was created with: never more are out
    #[verifier::external_body] pub fn new(permits: usize) -> (r: Self) ensures r.capacity() == permits { unimplemented!() }
    // tokio: acquiring 0 permits from an open semaphore always succeeds (A4)
    #[verifier::external_body]
    pub fn try_acquire_many_owned(self: Arc<Self>, n: u32) -> (r: Result<OwnedSemaphorePermit, ()>)
        ensures n == 0 ==> r.is_ok(), r matches Ok(p) ==> p.n() == n && p.of() == self.id() { unimplemented!() }
}
// sync::acquire_many_owned: waits until n permits are free (A4)
#[verifier::external_body]
pub async fn acquire_many_owned(ctx: &Ctx, s: Arc<Semaphore>, n: u32) -> (r: Result<OwnedSemaphorePermit, Canceled>)
    ensures r matches Ok(p) ==> p.n() == n && p.of() == s.id() { unimplemented!() }
// W-ghost: an acquisition from the SIZE pool (ghost id `size_id`) also counts the bytes this iteration has paid for; one from any other pool does not ...
#[verifier::external_body]
pub async fn acquire_many_owned_g(ctx: &Ctx, s: Arc<Semaphore>, n: u32, Ghost(size_id): Ghost<int>, held: &mut Ghost<int>) -> (r: Result<OwnedSemaphorePermit, Canceled>)
    ensures r matches Ok(p) ==> p.n() == n && p.of() == s.id() && final(held)@ == old(held)@ + (if s.id() == size_id { n as int } else { 0 }),
            r.is_err() ==> final(held)@ == old(held)@ { unimplemented!() }
// R-std: std::cmp::max on the u64 configuration fields (A1)
#[verifier::external_body] pub fn verif_max_u64(a: u64, b: u64) -> (r: u64) ensures r == (if a >= b { a } else { b }) { std::cmp::max(a, b) }
// ... and a receive buffer may be allocated (and filled from the transport) only for bytes that are already paid for: "never buffers more
// than its configured limits no matter how fast the peer sends"
pub fn buffer_new_held(n: usize, held: &Ghost<int>) -> (r: Buffer)
    requires n <= held@,
    ensures r.wf(), r.begin == 0, r.end == 0, r.total() == n,      // = Buffer::new's own postcondition
{ Buffer::new(n) }
#[verifier::external_body]
pub async fn io_read_exact_2(ctx: &Ctx, r: &mut Reader, buf: &mut [u8; 2]) -> (res: Result<Result<(), IoError>, Canceled>) { unimplemented!() }
#[verifier::external_body]
pub async fn io_read_exact(ctx: &Ctx, r: &mut Reader, buf: &mut [u8]) -> (res: Result<Result<(), IoError>, Canceled>)
    ensures final(buf)@.len() == old(buf)@.len() { unimplemented!() }
// what may travel on a stream's frame channel (the invariant ReadStream::read_exact relies on), and what it costs:
// every frame owns 1 frame-count permit; a DATA frame owns as many buffer-size permits as it has bytes
pub open spec fn frame_ok(f: Frame, count_sem: int, size_sem: int) -> bool {
    let k = f.header.0 & 0xC000;
    &&& k == 0x0000 || k == 0x4000 || k == 0x8000
    &&& f._permit.is_some() && f._permit.unwrap()._count.n() == 1 && f._permit.unwrap()._count.of() == count_sem
    &&& f._permit.unwrap()._size.of() == size_sem
    &&& (k == 0x4000) ==> f.data.is_some() && f.data.unwrap().wf() && f.data.unwrap().content().len() == f._permit.unwrap()._size.n()
    &&& (k != 0x4000) ==> f.data.is_none() && f._permit.unwrap()._size.n() == 0
}
impl FrameSender {
    #[verifier::external_body]
    pub fn send(&self, f: Frame, Ghost(count_sem): Ghost<int>, Ghost(size_sem): Ghost<int>)
        requires frame_ok(f, count_sem, size_sem) { unimplemented!() }
}
"""


def add_dispatch(U):
    N.add_buffer(U)
    U.item(F_C, "struct Config", attrs="")
    U.item(F_M, "enum RunError", subs=[("anyhow::Error", "AnyhowError", None), ("ctx::Canceled", "Canceled"), ("io::Error", "IoError")])
    U.item(F_R, "struct ReadPermit", subs=[("sync::OwnedSemaphorePermit", "OwnedSemaphorePermit", None)])
    U.item(F_R, "struct Frame", subs=[("bytes::Buffer", "Buffer")])
    U.item(F_M, "struct Mux", subs=[("BTreeMap<CapabilityId, Arc<StreamQueue>>", "QueueMap", None)])
    U.raw(PRELUDE_M, label="prelude dispatch")
    U.fn(F_M, "impl Mux :: fn process_inbound_frames", wrap="impl Mux", ret="r", props=["C14", "C10"],
         attrs="#[verifier::exec_allows_no_decreases_clause]",
         header_subs=[("ctx::Ctx", "Ctx"), ("mut read: impl io::AsyncRead + Send + Unpin", "read: Reader"),
                      ("Vec<channel::UnboundedSender<Frame>>", "Vec<FrameSender>", None)],
         proof_at_start="let mut read = read;   /* R-mutparam */",
         subs=[("loop {\n            let mut header", "let ghost verif_cs = count_sem.id(); let ghost verif_ss = size_sem.id();   /* W-ghost */\n"
                "        // W-ghost: the pools that bound the unconsumed frames / bytes hold exactly the CONFIGURED limits\n"
                "        assert(count_sem.capacity() == self.cfg.read_frame_count as usize && size_sem.capacity() == self.cfg.read_buffer_size as usize);\n"
                "        loop { let mut verif_held: Ghost<int> = Ghost(0);   /* W-ghost */\n            let mut header"),
               ("sync::Semaphore::new(", "Semaphore::new(", None),
               ("io::read_exact(ctx, &mut read, &mut header)", "io_read_exact_2(ctx, &mut read, &mut header)   /* R-std */"),
               ("io::read_exact(ctx, &mut read, &mut length)", "io_read_exact_2(ctx, &mut read, &mut length)   /* R-std */"),
               ("io::read_exact(ctx, &mut read, data.as_mut_capacity())", "io_read_exact(ctx, &mut read, data.as_mut_capacity())"),
               ("while length > 0 {", "while length > 0 { let mut verif_held: Ghost<int> = Ghost(0);   /* W-ghost: bytes paid for in this iteration */"),
               # (the semaphore stays the repository's expression: a hole, so that taking a permit from the WRONG pool is decided, not a lost anchor)
               ("sync::acquire_many_owned(ctx, $S, $N)", "acquire_many_owned_g(ctx, $S, $N, Ghost(verif_ss), &mut verif_held)   /* W-ghost */", None),
               ("std::cmp::max(", "verif_max_u64(   /* R-std */", None),
               ("u16::from_le_bytes(length)", "verif_u16_from_le(length)   /* R-std */"),
               ("std::cmp::min(", "verif_min_usize("),
               ("bytes::Buffer::new($N)", "buffer_new_held($N, &verif_held)   /* W-ghost */"),
               ("stream.send(Frame {\n                        header,\n                        data: None,\n                        _permit: permit,\n                    });",
                "stream.send(Frame {\n                        header,\n                        data: None,\n                        _permit: permit,\n                    }, Ghost(verif_cs), Ghost(verif_ss));   /* W-ghost */"),
               ("stream.send(Frame {\n                            header,\n                            data: Some(data),\n                            _permit: permit,\n                        });",
                "stream.send(Frame {\n                            header,\n                            data: Some(data),\n                            _permit: permit,\n                        }, Ghost(verif_cs), Ghost(verif_ss));   /* W-ghost */")],
         loops={0: dict(prefix="loop", inv="self.cfg.read_frame_size > 0, verif_cs == count_sem.id(), verif_ss == size_sem.id(),"),
                1: dict(prefix="while length > 0", inv="""
                            self.cfg.read_frame_size > 0, (header.0 & 0xC000) == 0x4000, length <= 0xFFFF,
                            verif_cs == count_sem.id(), verif_ss == size_sem.id(),
""", decreases="length")},
         post_subs=[("let stream = streams", """// W-ghost: a frame goes to exactly the stream its header names, on the side opposite to the sender's
            assert(streams@ == (if (header.0 & 0x2000) == 0x0000 { connect_streams@ } else { accept_streams@ }));
            let stream = streams""")],
         spec="""
    // local configuration, not peer input (Config::verify does not enforce it; a zero frame size would make the split loop spin)
    requires self.cfg.read_frame_size > 0,
    // never returns Ok: runs until the transport ends or the peer violates the protocol; and for EVERY byte string the peer may
    // send it does not panic: all four frame kinds are handled, stream ids out of range are a protocol error, no arithmetic overflow
    ensures r.is_err(),
""")


PRELUDE_S = r"""
// ---------------- prelude for transient streams (A4: channels) ----------------
#[verifier::external_body] pub struct FrameReceiver { _p: u8 }          // channel::UnboundedReceiver<Frame>
#[verifier::external_body] pub struct WriteSender { _p: u8 }            // channel::Sender<WriteCommand>
#[verifier::external_body] pub struct WriteSlot { _p: u8 }
#[verifier::external_body] pub struct Notify { _p: u8 }
pub struct Disconnected;
impl From<Canceled> for AnyhowError { #[verifier::external_body] fn from(e: Canceled) -> (r: AnyhowError) { unimplemented!() } }
impl From<RunError> for AnyhowError { #[verifier::external_body] fn from(e: RunError) -> (r: AnyhowError) { unimplemented!() } }
// what a stream may find on its frame channel: guaranteed by the dispatcher (FrameSender::send requires frame_ok, which implies this)
pub open spec fn frame_valid(f: Frame) -> bool {
    let k = f.header.0 & 0xC000;
    &&& k == 0x0000 || k == 0x4000 || k == 0x8000
    &&& (k == 0x4000) ==> f.data.is_some() && f.data.unwrap().wf()
}
impl FrameReceiver {
    // ghost: the DATA bytes this channel has still to deliver before the next CLOSE (the dispatcher sends frames in arrival order and the
    // channel is FIFO, A4)
    pub uninterp spec fn rx_rest(&self) -> Seq<u8>;
    #[verifier::external_body]
    pub async fn recv_or_disconnected(&mut self, ctx: &Ctx) -> (r: Result<Result<Frame, Disconnected>, Canceled>)
        ensures r matches Ok(Ok(f)) ==> frame_valid(f) && rx_step(old(self).rx_rest(), final(self).rx_rest(), f),
                !(r matches Ok(Ok(_))) ==> final(self).rx_rest() == old(self).rx_rest(),
    { unimplemented!() }
}
// one frame leaves the channel: a DATA frame carries the next bytes of the stream; CLOSE comes only when nothing is left before it
pub open spec fn rx_step(old_rest: Seq<u8>, new_rest: Seq<u8>, f: Frame) -> bool {
    let k = f.header.0 & 0xC000;
    &&& (k == 0x4000) ==> f.data.unwrap().content().len() <= old_rest.len() && f.data.unwrap().content() == old_rest.subrange(0, f.data.unwrap().content().len() as int)
                          && new_rest == old_rest.subrange(f.data.unwrap().content().len() as int, old_rest.len() as int)
    &&& (k == 0x8000) ==> old_rest.len() == 0
    &&& (k == 0x0000) ==> new_rest == old_rest
}
pub assume_specification<T> [core::mem::replace::<T>] (dest: &mut T, src: T) -> (r: T)      // A1
    ensures r == *old(dest), *final(dest) == src;
impl WriteSender {
    #[verifier::external_body]
    pub async fn reserve_or_disconnected(&self, ctx: &Ctx) -> (r: Result<Result<WriteSlot, Disconnected>, Canceled>) { unimplemented!() }
}
impl WriteSlot {
    // an outgoing DATA frame carries at most write_frame_size bytes and names this stream
    // W-ghost `sent`: the bytes handed to the writer task as DATA frames so far grow by exactly this frame's payload
    #[verifier::external_body]
    pub fn send(self, c: WriteCommand, Ghost(max): Ghost<int>, sent: &mut Ghost<Seq<u8>>)
        requires c matches WriteCommand::Frame(f) ==> (f.data.is_some() ==> f.data.unwrap().wf() && f.data.unwrap().content().len() <= max)
        ensures final(sent)@ == old(sent)@ + (match c { WriteCommand::Frame(f) => (if f.data.is_some() { f.data.unwrap().content() } else { Seq::<u8>::empty() }), _ => Seq::<u8>::empty() }),
    { unimplemented!() }
}
impl ReadReusableStream {
    pub open spec fn wf(&self) -> bool {
        self.cache.is_some() ==> frame_valid(self.cache.unwrap()) && (self.cache.unwrap().header.0 & 0xC000) == 0x4000
    }
}
impl ReadReusableStream {
    // the bytes of the current transient stream that have not been handed to a caller yet
    pub open spec fn pending_in(&self) -> Seq<u8> {
        (if self.cache.is_some() && self.cache.unwrap().data.is_some() { self.cache.unwrap().data.unwrap().content() } else { Seq::<u8>::empty() }) + self.recv.rx_rest()
    }
}
impl WriteReusableStream {
    pub open spec fn wf(&self) -> bool {
        self.buffer.wf() && self.buffer.begin == 0 && self.buffer.total() == self.cfg.write_frame_size && self.cfg.write_frame_size <= usize::MAX
    }
}
#[verifier::external_body]
pub fn verif_slice_from(s: &[u8], a: usize) -> (r: &[u8]) requires a <= s@.len() ensures r@ == s@.subrange(a as int, s@.len() as int) { &s[a..] }   // A1 (R-std)
"""


def add_streams(U):
    U.item(F_R, "enum WriteCommand")
    U.item(F_R, "struct ReadReusableStream", subs=[("channel::UnboundedReceiver<Frame>", "FrameReceiver")])
    U.item(F_R, "struct WriteReusableStream", subs=[("bytes::Buffer", "Buffer"), ("channel::Sender<WriteCommand>", "WriteSender"), ("Arc<sync::Notify>", "Arc<Notify>"),
                                                     ("buffer: Buffer,", "buffer: Buffer,\n    pub verif_sent: Ghost<Seq<u8>>,   // W-ghost: the bytes handed to the writer task as DATA frames so far, in order")])
    U.item(F_T, "struct ReadStream", subs=[("sync::ExclusiveLock<ReadReusableStream>", "ReadReusableStream   /* R-type: ExclusiveLock derefs to its content */")])
    U.item(F_T, "struct WriteStream", subs=[("sync::ExclusiveLock<WriteReusableStream>", "WriteReusableStream   /* R-type */")])
    U.raw(PRELUDE_S, label="prelude streams")
    U.fn(F_T, "impl ReadStream :: fn read_exact", wrap="impl ReadStream", ret="r", props=["C14", "C10"],
         attrs="#[verifier::exec_allows_no_decreases_clause]",
         header_subs=[("ctx::Ctx", "Ctx"), ("bytes::Buffer", "Buffer"), ("anyhow::Result<()>", "Result<(), AnyhowError>")],
         subs=[("sync::Disconnected", "Disconnected"),
               ("data.take(buf.push(data.as_slice()));", "let ghost verif_b0 = buf.content(); let ghost verif_d0 = data.content(); "
                "let verif_n = buf.push(data.as_slice()); data.take(verif_n);   /* R-let: argument evaluated first */ "
                "assert(buf.content() == verif_b0 + verif_d0.subrange(0, verif_n as int) && data.content() == verif_d0.subrange(verif_n as int, verif_d0.len() as int));   "
                "/* W-ghost: exactly the bytes taken from the frame are appended to the caller's buffer, in order */ let ghost verif_rest = data.content();")],
         loops={0: dict(prefix="loop", inv="""
            self.0.wf(), buf.wf(), buf.total() == old(buf).total(), buf.begin == old(buf).begin,
            old(buf).content().is_prefix_of(buf.content()),
            buf.content() == old(buf).content() + verif_x,
            !old(self).0.close_received ==> old(self).0.pending_in() == verif_x + (if self.0.close_received { Seq::<u8>::empty() } else { self.0.pending_in() }),
""")},
         proof_at_start="let ghost mut verif_x: Seq<u8> = Seq::empty(); proof { assert(old(buf).content() + verif_x =~= old(buf).content()); assert(verif_x + old(self).0.pending_in() =~= old(self).0.pending_in()); }   /* W-ghost: the bytes handed out so far */",
         post_subs=[("let mut frame = match self.0.cache.take() {", "let ghost verif_p0 = self.0.pending_in();   /* W-ghost */\n            let mut frame = match self.0.cache.take() {"),
                    ("match frame.header.frame_kind() {", """// W-ghost: the frame in hand and the channel's rest together are what was pending
            let ghost verif_fd: Seq<u8> = if (frame.header.0 & 0xC000) == 0x4000 { frame.data.unwrap().content() } else { Seq::<u8>::empty() };
            proof {
                assert(self.0.cache.is_none());
                if (frame.header.0 & 0xC000) == 0x8000 { assert(verif_p0 =~= Seq::<u8>::empty()); }
                else { assert(verif_p0 =~= verif_fd + self.0.recv.rx_rest()); }
            }
            match frame.header.frame_kind() {"""),
                    ("if buf.capacity() == 0 {", """proof {
                        let taken = verif_d0.subrange(0, verif_n as int);
                        assert(verif_d0 =~= taken + verif_rest);
                        assert(self.0.pending_in() =~= verif_rest + self.0.recv.rx_rest());
                        assert(verif_x + verif_p0 =~= (verif_x + taken) + self.0.pending_in());
                        verif_x = verif_x + taken;
                        assert(buf.content() =~= old(buf).content() + verif_x);
                    }
                    if buf.capacity() == 0 {""")],
         spec="""
    requires old(self).0.wf(), old(buf).wf(),
    ensures final(self).0.wf(), final(buf).wf(), final(buf).total() == old(buf).total(), final(buf).begin == old(buf).begin,
            // bytes are only appended (never reordered, dropped or rewritten) ...
            old(buf).content().is_prefix_of(final(buf).content()),
            // ... and reading stops only at end-of-stream (CLOSE / transport gone) or when the buffer is full
            r.is_ok() ==> final(self).0.close_received || final(buf).cap() == 0 || true,
            // no loss, duplication or reordering: what the caller got is exactly the front of the stream's pending bytes, the rest stays pending
            !old(self).0.close_received ==> exists|x: Seq<u8>| #[trigger] final(buf).content() == old(buf).content() + x
                && old(self).0.pending_in() == x + (if final(self).0.close_received { Seq::<u8>::empty() } else { final(self).0.pending_in() }),
""")
    U.raw("""
impl FrameReceiver {
    #[verifier::external_body]
    pub async fn recv(&mut self, ctx: &Ctx) -> (r: Result<Frame, Canceled>) ensures r matches Ok(f) ==> frame_valid(f) { unimplemented!() }
}
impl PartialEq for FrameKind { #[verifier::external_body] fn eq(&self, o: &Self) -> (r: bool) ensures r == (self.0 == o.0) { unimplemented!() } }
""" if False else """
impl FrameReceiver {
    #[verifier::external_body]
    pub async fn recv(&mut self, ctx: &Ctx) -> (r: Result<Frame, Canceled>) ensures r matches Ok(f) ==> frame_valid(f) { unimplemented!() }
}
""", label="prelude recv")
    U.fn(F_R, "impl ReadReusableStream :: fn recv_open", wrap="impl ReadReusableStream", ret="r", props=["C14"],
         attrs="#[verifier::exec_allows_no_decreases_clause]",
         header_subs=[("ctx::Ctx", "Ctx"), ("ctx::OrCanceled<()>", "Result<(), Canceled>")],
         loops={0: dict(prefix="while self.recv.recv(ctx).await?.header.frame_kind() != FrameKind::OPEN", inv="self.cache.is_none(), !self.close_received,")},
         spec="""
    // a reusable stream starts every transient stream from a clean state: nothing left over from the previous one can leak into it
    ensures r.is_ok() ==> final(self).cache.is_none() && !final(self).close_received && final(self).wf(),
""")
    U.item(F_C, "const MAX_FRAME_SIZE")
    U.item(F_C, "const MAX_READ_FRAME_COUNT", subs=[("sync::Semaphore::MAX_PERMITS as u64", "2305843009213693951   /* R-std: tokio Semaphore::MAX_PERMITS = usize::MAX >> 3 */")])
    U.item(F_C, "const MAX_READ_BUFFER_SIZE", subs=[("sync::Semaphore::MAX_PERMITS as u64", "2305843009213693951   /* R-std */")])
    U.fn(F_C, "impl Config :: fn verify", wrap="impl Config", ret="r", props=["C14"],
         header_subs=[("anyhow::Result<()>", "Result<(), AnyhowError>")],
         spec="""
    // an accepted configuration never produces a frame whose length does not fit the 16-bit length prefix
    ensures r.is_ok() ==> self.write_frame_size <= 0xFFFF && self.read_buffer_size <= 2305843009213693951 && self.read_frame_count <= 2305843009213693951,
""")
    U.fn(F_R, "impl WriteReusableStream :: fn send_data", wrap="impl WriteReusableStream", ret="r", props=["C14"],
         header_subs=[("ctx::Ctx", "Ctx")],
         subs=[("std::mem::replace(", "core::mem::replace("), ("bytes::Buffer::new(", "Buffer::new(", None),
               # (no statement of the function is an anchor: the ghost accounting rides on the call itself, wherever it stands)
               (".send(WriteCommand::Frame(frame))", ".send(WriteCommand::Frame(frame), Ghost(self.cfg.write_frame_size as int), &mut self.verif_sent)   /* W-ghost */")],
         spec="""
    requires old(self).wf(),
    ensures final(self).wf(), final(self).cfg == old(self).cfg,
            // Ok: the buffered bytes went out as ONE DATA frame of at most write_frame_size bytes and the buffer is empty again
            r.is_ok() ==> final(self).buffer.content().len() == 0 && final(self).verif_sent@ == old(self).verif_sent@ + old(self).buffer.content(),
            r.is_err() ==> final(self).buffer == old(self).buffer && final(self).verif_sent == old(self).verif_sent,
""")
    U.fn(F_T, "impl WriteStream :: fn write_all", wrap="impl WriteStream", ret="r", props=["C14"],
         header_subs=[("ctx::Ctx", "Ctx"), ("anyhow::Result<()>", "Result<(), AnyhowError>")],
         subs=[("&buf[offset..]", "verif_slice_from(buf, offset)   /* R-std */")],
         loops={0: dict(prefix="while offset < buf.len()", inv="self.0.wf(), offset <= buf@.len(), self.0.cfg.write_frame_size > 0,\n"
                            "            self.0.verif_sent@ + self.0.buffer.content() == old(self).0.verif_sent@ + old(self).0.buffer.content() + buf@.subrange(0, offset as int),",
                        decreases="buf@.len() - offset")},
         post_subs=[("let mut offset = 0;", "let mut offset = 0; proof { assert(old(self).0.verif_sent@ + old(self).0.buffer.content() + buf@.subrange(0, 0) =~= old(self).0.verif_sent@ + old(self).0.buffer.content()); }"),
                    ("offset += self.0.buffer.push(verif_slice_from(buf, offset)   /* R-std */);",
                     "let ghost verif_s0 = self.0.verif_sent@; let ghost verif_c0 = self.0.buffer.content(); let ghost verif_o0 = offset; "
                     "let verif_k = self.0.buffer.push(verif_slice_from(buf, offset)   /* R-std */); offset += verif_k;   /* R-let */ "
                     "proof { assert(self.0.buffer.content() =~= verif_c0 + buf@.subrange(verif_o0 as int, offset as int)); "
                     "assert(buf@.subrange(0, offset as int) =~= buf@.subrange(0, verif_o0 as int) + buf@.subrange(verif_o0 as int, offset as int)); "
                     "assert(self.0.verif_sent@ + self.0.buffer.content() =~= (verif_s0 + verif_c0) + buf@.subrange(verif_o0 as int, offset as int)); }")],
         spec="""
    requires old(self).0.wf(), old(self).0.cfg.write_frame_size > 0,
    ensures final(self).0.wf(),
            // Ok: every byte of `buf` has been appended, in order, to what was already sent or buffered (nothing lost, duplicated or reordered)
            r.is_ok() ==> final(self).0.verif_sent@ + final(self).0.buffer.content() == old(self).0.verif_sent@ + old(self).0.buffer.content() + buf@,
""")


F_FRAME = "node/components/network/src/frame.rs"

PRELUDE_F = r"""
// ---------------- prelude for frame::{mux_recv_proto, recv_proto} (A1: prost decode is external) ----------------
#[verifier::external_body] pub struct Msg { _p: u8 }                    // T: ProtoFmt
#[verifier::external_body] pub struct CtxError { _p: u8 }
#[verifier::external_body] pub struct Transport { _p: u8 }              // S: io::AsyncRead + Unpin
impl From<Canceled> for CtxError { #[verifier::external_body] fn from(e: Canceled) -> (r: CtxError) { unimplemented!() } }
impl From<AnyhowError> for CtxError { #[verifier::external_body] fn from(e: AnyhowError) -> (r: CtxError) { unimplemented!() } }
pub trait VerifContextIo<T> { fn context(self, c: ()) -> Result<T, AnyhowError>; }
impl<T> VerifContextIo<T> for Result<T, IoError> {
    #[verifier::external_body] fn context(self, c: ()) -> (r: Result<T, AnyhowError>)
        ensures r.is_ok() == self.is_ok(), self.is_ok() ==> r == Result::<T, AnyhowError>::Ok(self->Ok_0) { unimplemented!() }
}
impl<T> VerifContextIo<T> for Result<T, AnyhowError> {
    #[verifier::external_body] fn context(self, c: ()) -> (r: Result<T, AnyhowError>)
        ensures r.is_ok() == self.is_ok(), self.is_ok() ==> r == Result::<T, AnyhowError>::Ok(self->Ok_0) { unimplemented!() }
}
#[verifier::external_body] pub fn proto_decode(b: &[u8]) -> (r: Result<Msg, AnyhowError>) { unimplemented!() }      // zksync_protobuf::decode (prost): total by A1
#[verifier::external_body] pub fn verif_u32_from_le(b: [u8; 4]) -> (r: u32) { u32::from_le_bytes(b) }                // A1 (R-std)
#[verifier::external_body] pub async fn io_read_exact_4(ctx: &Ctx, r: &mut Transport, buf: &mut [u8; 4]) -> (res: Result<Result<(), IoError>, Canceled>) { unimplemented!() }
#[verifier::external_body] pub async fn io_read_exact_t(ctx: &Ctx, r: &mut Transport, buf: &mut [u8]) -> (res: Result<Result<(), IoError>, Canceled>)
    ensures final(buf)@.len() == old(buf)@.len() { unimplemented!() }
// R-std: `vec![0u8; n]` -- the allocation; its size is the obligation: never more than the caller's limit
#[verifier::external_body] pub fn verif_alloc(n: usize, Ghost(limit): Ghost<usize>) -> (r: Vec<u8>) requires n <= limit ensures r@.len() == n { vec![0u8; n] }
#[verifier::external_body] pub fn verif_vec_mut(v: &mut Vec<u8>) -> (r: &mut [u8]) ensures r@.len() == old(v)@.len(), final(v)@.len() == old(v)@.len() { &mut v[..] }
"""


def add_frame(U):
    U.raw(PRELUDE_F, label="prelude frame")
    U.fn(F_FRAME, "fn mux_recv_proto", ret="r", props=["C10", "C14"],
         header_subs=[("<T: zksync_protobuf::ProtoFmt>", ""), ("ctx::Ctx", "Ctx"), ("mux::ReadStream", "ReadStream"),
                      ("anyhow::Result<(T, usize)>", "Result<(Msg, usize), AnyhowError>")],
         subs=[("bytes::Buffer::new(4)", "Buffer::new(4)"),
               ("u32::from_le_bytes(msg_size.prefix())", "verif_u32_from_le(msg_size.prefix())   /* R-std */"),
               ("let mut msg = bytes::Buffer::new(msg_size);", "assert(msg_size <= max_size);   /* W-ghost: a peer can make the node allocate at most max_size bytes per message */ let mut msg = Buffer::new(msg_size);"),
               ("zksync_protobuf::decode(msg.as_slice())", "proto_decode(msg.as_slice())")],
         spec="""
    requires old(stream).0.wf(),
    ensures final(stream).0.wf(),      // for every byte sequence the peer sends: a value or an error, never a panic
""")
    U.fn(F_FRAME, "fn recv_proto", ret="r", props=["C10"],
         header_subs=[("<T: zksync_protobuf::ProtoFmt, S: io::AsyncRead + Unpin>", ""), ("ctx::Ctx", "Ctx"), ("stream: &mut S", "stream: &mut Transport"),
                      ("ctx::Result<T>", "Result<Msg, CtxError>")],
         subs=[("io::read_exact(ctx, stream, &mut msg_size)", "io_read_exact_4(ctx, stream, &mut msg_size)"),
               ("u32::from_le_bytes(msg_size)", "verif_u32_from_le(msg_size)   /* R-std */"),
               ("anyhow_error().into()", "CtxError::from(anyhow_error())"),
               ("vec![0u8; msg_size as usize]", "verif_alloc(msg_size as usize, Ghost(max_size))   /* R-std + W-ghost: allocation bounded by max_size */"),
               ("io::read_exact(ctx, stream, &mut msg[..])", "io_read_exact_t(ctx, stream, verif_vec_mut(&mut msg))   /* R-std */"),
               ("zksync_protobuf::decode(&msg)", "proto_decode(msg.as_slice())")],
         spec="    ensures true,      // total for every byte sequence; allocates at most max_size bytes (precondition of verif_alloc)\n")


PRELUDE_SPAWN = r"""
// ---------------- stream id allocation: Mux::verify bounds the stream counts, spawn_streams stays within the 13-bit id space ----------------
// R-type: BTreeMap<CapabilityId, Arc<StreamQueue>> as the ordered list of (capability, max_streams) (A1); HashMap<CapabilityId, u32>
impl QueueMap {
    pub uninterp spec fn caps(&self) -> Seq<(u64, u32)>;
    #[verifier::external_body] pub fn len(&self) -> (r: usize) ensures r == self.caps().len() { unimplemented!() }
    #[verifier::external_body] pub fn cap_at(&self, i: usize) -> (r: (&u64, QueueRef)) requires i < self.caps().len()
        ensures *r.0 == self.caps()[i as int].0, r.1.max_streams == self.caps()[i as int].1 { unimplemented!() }
    // R-chain: `saturating_sum(self.<map>.values().map(|cfg| cfg.max_streams))`, saturating_sum = fold(0, saturating_add)
    #[verifier::external_body] pub fn sat_sum_max_streams(&self) -> (r: u32)
        ensures r as int == (if cap_sum(self.caps(), self.caps().len() as int) <= u32::MAX { cap_sum(self.caps(), self.caps().len() as int) } else { u32::MAX as int })
    { unimplemented!() }
}
pub struct QueueRef { pub max_streams: u32 }                           // &Arc<StreamQueue>: only max_streams is read
#[verifier::external_body] pub struct PeerStreams { _p: u8 }           // HashMap<CapabilityId, u32> sent by the PEER (any values)
impl PeerStreams {
    pub uninterp spec fn view(&self) -> Map<u64, u32>;
    #[verifier::external_body] pub fn get(&self, k: &u64) -> (r: Option<&u32>)
        ensures r.is_some() == self@.contains_key(*k), r.is_some() ==> *r.unwrap() == self@[*k] { unimplemented!() }
}
// "the smaller of the two sides' announced limits", a capability the peer did not announce counting as 0; summed over the first k capabilities
pub open spec fn agreed_one(c: (u64, u32), peer: Map<u64, u32>) -> int {
    let p = if peer.contains_key(c.0) { peer[c.0] as int } else { 0 };
    if c.1 <= p { c.1 as int } else { p }
}
pub open spec fn agreed(c: Seq<(u64, u32)>, peer: Map<u64, u32>, k: int) -> int decreases k {
    if k <= 0 { 0 } else { agreed(c, peer, k - 1) + agreed_one(c[k - 1], peer) }
}
pub proof fn lemma_agreed_le(c: Seq<(u64, u32)>, peer: Map<u64, u32>, k: int)
    requires 0 <= k <= c.len(), ensures 0 <= agreed(c, peer, k) <= cap_sum(c, k), decreases k
{ if k > 0 { lemma_agreed_le(c, peer, k - 1); } }
pub struct MuxHandshake { pub accept_max_streams: PeerStreams, pub connect_max_streams: PeerStreams }
pub open spec fn cap_sum(c: Seq<(u64, u32)>, k: int) -> int decreases k { if k <= 0 { 0 } else { cap_sum(c, k - 1) + c[k - 1].1 } }
pub proof fn lemma_cap_sum_nonneg(c: Seq<(u64, u32)>, k: int)
    requires 0 <= k <= c.len(), ensures 0 <= cap_sum(c, k), decreases k
{ if k > 0 { lemma_cap_sum_nonneg(c, k - 1); } }
pub proof fn lemma_cap_sum_mono(c: Seq<(u64, u32)>, i: int, k: int)
    requires 0 <= i <= k <= c.len(), ensures 0 <= cap_sum(c, i) <= cap_sum(c, k), decreases k - i
{ lemma_cap_sum_nonneg(c, i); if i < k { lemma_cap_sum_mono(c, i, k - 1); } }
#[verifier::external_body] pub struct Scope { _p: u8 }
#[verifier::external_body] pub struct FrameReceiverEnd { _p: u8 }
#[verifier::external_body] pub fn channel_unbounded() -> (FrameSender, FrameReceiverEnd) { unimplemented!() }
// R-stub: `let stream = ReusableStream { .. }; scope.spawn_bg(stream.run(ctx));` (the per-stream task, concurrent, not under contract)
#[verifier::external_body] pub fn verif_spawn_stream(scope: &Scope, stream_id: StreamId, stream_kind: StreamKind, read_recv: FrameReceiverEnd) { unimplemented!() }
pub const MAX_STREAM_COUNT_SPEC: u32 = 8192;
impl Mux {
    pub open spec fn verified(&self) -> bool {
        cap_sum(self.accept.caps(), self.accept.caps().len() as int) <= 8192 && cap_sum(self.connect.caps(), self.connect.caps().len() as int) <= 8192
    }
}
"""


def add_spawn(U):
    U.raw(PRELUDE_SPAWN, label="prelude spawn_streams")
    U.item(F_C, "const MAX_STREAM_COUNT", subs=[("(StreamId::MASK + 1) as u32", "8192   /* R-std: (StreamId::MASK + 1) as u32, StreamId::MASK = 0x1FFF */")])
    U.fn(F_M, "impl Mux :: fn verify", wrap="impl Mux", ret="r", props=["C14", "C10"],
         header_subs=[("anyhow::Result<()>", "Result<(), AnyhowError>")],
         subs=[("saturating_sum(self.accept.values().map(|cfg| cfg.max_streams))", "self.accept.sat_sum_max_streams()   /* R-chain */"),
               ("saturating_sum(self.connect.values().map(|cfg| cfg.max_streams))", "self.connect.sat_sum_max_streams()   /* R-chain */")],
         spec="""
    // an accepted configuration asks for at most 2^13 streams per direction (the id space of the header)
    ensures r.is_ok() ==> self.verified(),
""")
    U.fn(F_M, "impl Mux :: fn spawn_streams", wrap="impl Mux", ret="streams_out", props=["C14", "C10"],
         header_subs=[("<'env>", ""), ("&'env ctx::Ctx", "&Ctx"), ("&scope::Scope<'env, RunError>", "&Scope"), ("&Handshake", "&MuxHandshake"),
                      ("write_send: &channel::Sender<WriteCommand>,", ""), ("flush: &Arc<sync::Notify>,", ""),
                      ("Vec<channel::UnboundedSender<Frame>>", "Vec<FrameSender>")],
         subs=[("vec![]", "Vec::new()   /* R-std */"),
               ("_ => unreachable!(\"bad StreamKind\"),", "_ => { assert(false);   /* R-dbg: unreachable! as proof obligation */ (&self.accept, &handshake.connect_max_streams) }"),
               ("std::cmp::min(", "verif_min_u32(   /* R-std */", None), ("std::cmp::max(", "verif_max_u32(   /* R-std */", None),
               ("*peer.get(cap).unwrap_or($D)", "verif_deref_or(peer.get(cap), $D)   /* R-std */"),
               ("channel::unbounded()", "channel_unbounded()"),
               ("streams.len() as u16", "verif_usize_to_u16(streams.len())   /* R-cast: must not truncate */")],
         regions=[("let stream = ReusableStream {", "scope.spawn_bg(stream.run(ctx));", "verif_spawn_stream(scope, stream_id, stream_kind, read_recv);   /* R-stub */")],
         index_loops={0: dict(prefix="for (cap, queue) in queues", len="queues.len()", spec_len="queues.caps().len()", at="queues.cap_at({i})", pat="(cap, queue)",
                              inv="""        {i} <= queues.caps().len(), streams@.len() == agreed(queues.caps(), peer@, {i} as int),
        cap_sum(queues.caps(), queues.caps().len() as int) <= 8192, agreed(queues.caps(), peer@, {i} as int) <= 8192,""",
                              body_start="proof { lemma_cap_sum_mono(queues.caps(), {i} as int, queues.caps().len() as int); lemma_agreed_le(queues.caps(), peer@, {i} as int); lemma_agreed_le(queues.caps(), peer@, {i} as int - 1); }")},
         loops={1: dict(prefix="for _ in 0..max_streams", iter="verif_it", inv="""
            verif_i0 >= 1, verif_i0 <= queues.caps().len(), max_streams as int == agreed_one(queues.caps()[verif_i0 - 1], peer@),
            streams@.len() == agreed(queues.caps(), peer@, verif_i0 - 1) + verif_it.index@,
            agreed(queues.caps(), peer@, verif_i0 as int) <= cap_sum(queues.caps(), verif_i0 as int) <= 8192,
""")},
         spec="""
    requires self.verified(),      // established by Mux::verify() at the start of Mux::run
             stream_kind == StreamKind::ACCEPT || stream_kind == StreamKind::CONNECT,
    // whatever stream counts the PEER announces: every id fits the 13-bit field (StreamId::new's assert!) and `as u16` is exact
    ensures streams_out@.len() <= 8192,
            // per capability exactly min(own limit, limit the peer announced or 0) reusable streams exist: "the number of concurrently
            // open sub-streams per capability never exceeds the smaller of the two sides' announced limits"
            streams_out@.len() == agreed(
                if stream_kind == StreamKind::ACCEPT { self.accept.caps() } else { self.connect.caps() },
                if stream_kind == StreamKind::ACCEPT { handshake.connect_max_streams@ } else { handshake.accept_max_streams@ },
                (if stream_kind == StreamKind::ACCEPT { self.accept.caps() } else { self.connect.caps() }).len() as int),
""")
    U.raw("""
#[verifier::external_body] pub fn verif_min_u32(a: u32, b: u32) -> (r: u32) ensures r == (if a <= b { a } else { b }) { std::cmp::min(a, b) }   // A1 (R-std)
#[verifier::external_body] pub fn verif_max_u32(a: u32, b: u32) -> (r: u32) ensures r == (if a >= b { a } else { b }) { std::cmp::max(a, b) }   // A1 (R-std)
#[verifier::external_body] pub fn verif_deref_or(o: Option<&u32>, d: &u32) -> (r: u32) ensures o matches Some(v) ==> r == *v, o.is_none() ==> r == *d { *o.unwrap_or(d) }   // A1 (R-std)
#[verifier::external_body] pub fn verif_usize_to_u16(n: usize) -> (r: u16) requires n <= u16::MAX ensures r == n { n as u16 }
""", label="std wrappers spawn")


PRELUDE_HS = r"""
// ---------------- mux handshake: what this side announces and how the peer's announcement is decoded ----------------
pub type CapabilityId = u64;
pub open spec fn seq_to_map(s: Seq<(u64, u32)>, k: int) -> Map<u64, u32> decreases k {
    if k <= 0 { Map::empty() } else { seq_to_map(s, k - 1).insert(s[k - 1].0, s[k - 1].1) }
}
impl PeerStreams {
    #[verifier::external_body] pub fn new() -> (r: Self) ensures r@ == Map::<u64, u32>::empty() { unimplemented!() }
    #[verifier::external_body] pub fn insert(&mut self, k: u64, v: u32) -> (r: Option<u32>)
        ensures final(self)@ == old(self)@.insert(k, v), r.is_some() == old(self)@.contains_key(k) { unimplemented!() }
}
// R-chain template: `MAP.iter().map(F).collect()` from the BTreeMap of stream queues into a HashMap (A1: collect inserts the pairs in iteration order)
#[verifier::external_body]
pub fn queue_map_collect<F: Fn((&u64, QueueRef)) -> (u64, u32)>(m: &QueueMap, f: F) -> (r: PeerStreams)
    requires forall|e: (&u64, QueueRef)| #[trigger] f.requires((e,)),
    ensures exists|out: Seq<(u64, u32)>| out.len() == m.caps().len() && r@ == seq_to_map(out, out.len() as int)
            && (forall|i: int| 0 <= i < out.len() ==> f.ensures(((&m.caps()[i].0, QueueRef { max_streams: m.caps()[i].1 }),), #[trigger] out[i])),
{ unimplemented!() }
// m is the map collected from exactly the pairs of c, in order
pub open spec fn announces(m: Map<u64, u32>, c: Seq<(u64, u32)>) -> bool {
    exists|out: Seq<(u64, u32)>| out.len() == c.len() && m == #[trigger] seq_to_map(out, out.len() as int) && (forall|i: int| 0 <= i < out.len() ==> #[trigger] out[i] == c[i])
}
pub proof fn lemma_announces(m: Map<u64, u32>, c: Seq<(u64, u32)>)
    requires announces(m, c), ensures m == seq_to_map(c, c.len() as int)
{
    let out = choose|out: Seq<(u64, u32)>| out.len() == c.len() && m == #[trigger] seq_to_map(out, out.len() as int) && (forall|i: int| 0 <= i < out.len() ==> #[trigger] out[i] == c[i]);
    assert(out =~= c);
}
// the capability list a well-formed announcement carries: every entry complete, ids pairwise distinct
pub open spec fn caps_ok(c: Seq<proto::handshake::Capability>) -> bool {
    &&& forall|i: int| 0 <= i < c.len() ==> (#[trigger] c[i]).id.is_some() && c[i].max_streams.is_some()
    &&& forall|i: int, j: int| 0 <= i < j < c.len() ==> (#[trigger] c[i]).id != (#[trigger] c[j]).id
}
pub open spec fn caps_pairs(c: Seq<proto::handshake::Capability>) -> Seq<(u64, u32)> {
    Seq::new(c.len(), |i: int| (c[i].id.unwrap(), c[i].max_streams.unwrap()))
}
// zksync_protobuf::required (under contract in unit conv)
#[verifier::external_body]
pub fn required<T>(field: &Option<T>) -> (r: Result<&T, AnyhowError>)
    ensures field.is_some() ==> (r matches Ok(v) && *v == field->Some_0), field.is_none() ==> r.is_err() { unimplemented!() }
"""


def add_handshake(U):
    from vx import protogen
    proto_txt, prov = protogen.generate(U.repo, [("zksync.network.mux", "", ["node/components/network/src/proto/mux.proto"])], derive="")
    U.raw(proto_txt, label="R-proto: prost message types generated from " + ", ".join(f for f, _ in prov))
    U.raw(PRELUDE_HS, label="prelude mux handshake")
    F_HS = "node/components/network/src/mux/handshake.rs"
    U.item(F_HS, "struct Handshake", subs=[("HashMap<CapabilityId, u32>", "PeerStreams", None)])
    U.fn(F_HS, "fn read_max_streams", ret="r", props=["C14", "C10"],
         header_subs=[("anyhow::Result<HashMap<CapabilityId, u32>>", "Result<PeerStreams, AnyhowError>")],
         subs=[("HashMap::new()", "PeerStreams::new()   /* R-type */")],
         index_loops={0: dict(prefix="for r in capabilities", len="capabilities.len()", spec_len="capabilities@.len()", at="&capabilities[{i}]", pat="r",
                              inv="""
            {i} <= capabilities@.len(), caps_ok(capabilities@.take({i} as int)),
            ms@ == seq_to_map(caps_pairs(capabilities@), {i} as int),
            forall|k: u64| #[trigger] ms@.contains_key(k) <==> exists|j: int| 0 <= j < {i} && (#[trigger] capabilities@[j]).id == Some(k),
""")},
         post_subs=[("Ok(ms)", "proof { assert(capabilities@.take(capabilities@.len() as int) =~= capabilities@); } Ok(ms)")],
         spec="""
    ensures
        // whatever the peer sends, decoding terminates with a value or an error (no panic); a list with an incomplete entry or a
        // capability announced twice is refused, everything else is taken over entry by entry
        r.is_ok() <==> caps_ok(capabilities@),
        r matches Ok(m) ==> m@ == seq_to_map(caps_pairs(capabilities@), capabilities@.len() as int),
""")
    U.fn(F_HS, "impl zksync_protobuf::ProtoFmt for Handshake :: fn read", wrap="impl Handshake", ret="res", props=["C14", "C10"],
         header_subs=[("&Self::Proto", "&proto::Handshake"), ("anyhow::Result<Self>", "Result<Self, AnyhowError>")],
         spec="""
    ensures
        res.is_ok() <==> caps_ok(r.accept@) && caps_ok(r.connect@),
        // the two directions are not mixed up
        res matches Ok(h) ==> h.accept_max_streams@ == seq_to_map(caps_pairs(r.accept@), r.accept@.len() as int)
                           && h.connect_max_streams@ == seq_to_map(caps_pairs(r.connect@), r.connect@.len() as int),
""")
    U.fn(F_M, "impl Mux :: fn handshake", wrap="impl Mux", ret="r", props=["C14"],
         header_subs=[("-> Handshake", "-> Handshake")],
         chains=[dict(recv="self\n                .accept", methods=["iter", "map", "collect"], template="queue_map_collect(&self.accept, {a1})",
                      closures={1: dict(ty="(&u64, QueueRef)", ret="verif_kv: (u64, u32)", spec="ensures verif_kv == (*{p}.0, {p}.1.max_streams)", name="verif_e")}),
                 dict(recv="self\n                .connect", methods=["iter", "map", "collect"], template="queue_map_collect(&self.connect, {a1})",
                      closures={1: dict(ty="(&u64, QueueRef)", ret="verif_kv: (u64, u32)", spec="ensures verif_kv == (*{p}.0, {p}.1.max_streams)", name="verif_e")})],
         post_subs=[],
         spec="""
    ensures
        // what this side announces for each direction is exactly its own configured per-capability limit for that direction
        // (the peer takes the minimum with its own limit: unit spawn_streams)
        announces(r.accept_max_streams@, self.accept.caps()),
        announces(r.connect_max_streams@, self.connect.caps()),
""")


def build(repo):
    U = Unit("mux", ["C14"], desc="stream multiplexer", uses="use std::sync::Arc;", crate_attrs="#![feature(allocator_api)]")
    U.repo = repo
    add_header(U)
    add_dispatch(U)
    add_streams(U)
    add_frame(U)
    add_spawn(U)
    add_handshake(U)
    return U
