"""U-admission (C12): connection pool (one entry per identity, quota for non-configured peers) and the two handshakes."""
from vx.unit import Unit

F_POOL = "node/components/network/src/pool.rs"
F_GH = "node/components/network/src/gossip/handshake/mod.rs"
F_CH = "node/components/network/src/consensus/handshake/mod.rs"

PRELUDE_POOL = r"""
// ---------------- prelude: R-type HashSet<K> / im::HashMap<K,V> as finite set / map (A1/A2) ----------------
#[verifier::external_body] pub struct AnyhowError { _p: u8 }
#[verifier::external_body] pub fn anyhow_error() -> AnyhowError { unimplemented!() }
#[verifier::external_body] #[verifier::reject_recursive_types(K)] pub struct KSet<K> { _p: core::marker::PhantomData<K> }
#[verifier::external_body] #[verifier::reject_recursive_types(K)] #[verifier::reject_recursive_types(V)] pub struct ImMap<K, V> { _p: core::marker::PhantomData<(K, V)> }
// A1: the pool's keys (node / validator public keys) derive Clone: a clone is an equal key
pub trait KeyLike: Sized { fn clone(&self) -> (r: Self) ensures r == *self; }
impl<K> KSet<K> {
    pub uninterp spec fn view(&self) -> Set<K>;
    #[verifier::external_body] pub fn contains(&self, k: &K) -> (r: bool) ensures r == self@.contains(*k) { unimplemented!() }
}
impl<K, V> ImMap<K, V> {
    pub uninterp spec fn view(&self) -> Map<K, V>;
    #[verifier::external_body] pub fn new() -> (r: Self) ensures r@ == Map::<K, V>::empty() { unimplemented!() }
    #[verifier::external_body] pub fn contains_key(&self, k: &K) -> (r: bool) ensures r == self@.contains_key(*k) { unimplemented!() }
    #[verifier::external_body] pub fn insert(&mut self, k: K, v: V) -> (r: Option<V>)
        ensures final(self)@ == old(self)@.insert(k, v), r.is_some() == old(self)@.contains_key(k) { unimplemented!() }
    #[verifier::external_body] pub fn remove(&mut self, k: &K) -> (r: Option<V>)
        ensures final(self)@ == old(self)@.remove(*k), r.is_some() == old(self)@.contains_key(*k) { unimplemented!() }
}
"""

SPEC_POOL = r"""
// ---------------- specification (C12): one entry per identity, non-configured peers limited to the quota ----------------
impl<K, V> Pool<K, V> {
    pub open spec fn extras(&self) -> Set<K> { self.current@.dom().difference(self.allowed@) }
    pub open spec fn wf(&self) -> bool {
        &&& self.extra_count == self.extras().len()
        &&& self.extra_count <= self.extra_limit
    }
}
"""

PRELUDE_HS = r"""
// ---------------- prelude for the handshakes (A3: noise session id, signatures; A4: framing) ----------------
#[verifier::external_body] pub struct Ctx { _p: u8 }
#[verifier::external_body] pub struct Duration { _p: u8 }
#[verifier::external_body] pub struct CtxError { _p: u8 }
#[verifier::external_body] pub struct NoiseStream { _p: u8 }                 // noise::Stream
#[verifier::external_body] pub struct Stats { _p: u8 }
#[verifier::external_body] #[derive(PartialEq, Eq, Structural)] pub struct Keccak256 { _p: u8 }
#[verifier::external_body] #[derive(Clone, Copy, PartialEq, Eq, Structural)] pub struct GenesisHash { _p: u8 }
// node::SessionId(pub Vec<u8>) is copied from /repo (below); A1: derive(PartialEq) on it is content equality of the bytes
impl PartialEq for SessionId { #[verifier::external_body] fn eq(&self, o: &Self) -> (r: bool) { unimplemented!() } }
impl PartialEqSpecImpl for SessionId {
    open spec fn obeys_eq_spec() -> bool { true }
    open spec fn eq_spec(&self, o: &Self) -> bool { *self == *o }
}
impl Clone for SessionId { #[verifier::external_body] fn clone(&self) -> (r: Self) ensures r == *self { unimplemented!() } }
#[verifier::external_body] #[derive(PartialEq, Eq, Structural)] pub struct NodeKey { _p: u8 }        // node::PublicKey
#[verifier::external_body] #[derive(PartialEq, Eq, Structural)] pub struct ValidatorKey { _p: u8 }   // validator::PublicKey
#[verifier::external_body] pub struct NodeSecret { _p: u8 }
#[verifier::external_body] pub struct ValidatorSecret { _p: u8 }
impl ValidatorSecret { pub uninterp spec fn pk(&self) -> ValidatorKey;      // A3: the matching public key (offered so that code asking for it is decided)
    #[verifier::external_body] pub fn public(&self) -> (r: ValidatorKey) ensures r == self.pk() { unimplemented!() } }
impl NodeSecret { pub uninterp spec fn pk(&self) -> NodeKey;
    #[verifier::external_body] pub fn public(&self) -> (r: NodeKey) ensures r == self.pk() { unimplemented!() } }
#[verifier::external_body] pub struct NodeSig { _p: u8 }
#[verifier::external_body] pub struct ValSig { _p: u8 }
#[verifier::external_body] pub struct InvalidSignatureError { _p: u8 }
#[verifier::external_body] pub struct Version { _p: u8 }                     // semver::Version
impl Clone for Version { #[verifier::external_body] fn clone(&self) -> (r: Self) ensures r == *self { unimplemented!() } }
pub struct NodeSigned { pub msg: SessionId, pub key: NodeKey, pub sig: NodeSig }          // node::Signed<SessionId>
pub struct ValSigned { pub msg: SessionId, pub key: ValidatorKey, pub sig: ValSig }       // validator::Signed<SessionId>
pub uninterp spec fn node_sig_ok(s: NodeSigned) -> bool;                      // A3
pub uninterp spec fn val_sig_ok(s: ValSigned) -> bool;                        // A3
pub uninterp spec fn sid_of(h: Keccak256) -> SessionId;                       // SessionId(handshake_hash.encode())
impl NodeSigned {
    #[verifier::external_body] pub fn verify(&self) -> (r: Result<(), InvalidSignatureError>) ensures r.is_ok() == node_sig_ok(*self) { unimplemented!() }
}
impl ValSigned {
    #[verifier::external_body] pub fn verify(&self) -> (r: Result<(), AnyhowError>) ensures r.is_ok() == val_sig_ok(*self) { unimplemented!() }
}
impl NodeSecret {
    #[verifier::external_body] pub fn sign_msg(&self, m: SessionId) -> (r: NodeSigned) ensures r.msg == m { unimplemented!() }
}
impl ValidatorSecret {
    #[verifier::external_body] pub fn sign_msg(&self, m: SessionId) -> (r: ValSigned) ensures r.msg == m { unimplemented!() }
}
impl NoiseStream {
    pub uninterp spec fn sid(&self) -> Keccak256;      // A3: the noise handshake hash identifies THIS encrypted session
    #[verifier::external_body] pub fn id(&self) -> (r: Keccak256) ensures r == self.sid() { unimplemented!() }
    #[verifier::external_body] pub fn stats(&self) -> Stats { unimplemented!() }
}
#[verifier::external_body] pub fn encode_session_id(h: Keccak256) -> (r: SessionId) ensures r == sid_of(h) { unimplemented!() }   // R-std: node::SessionId(h.encode())
impl Ctx { #[verifier::external_body] pub fn with_timeout(&self, d: Duration) -> Ctx { unimplemented!() } }
#[verifier::external_body] pub fn timeout_const() -> Duration { unimplemented!() }
pub trait VerifWrap<T> { fn wrap(self, c: ()) -> Result<T, CtxError>; }
impl<T> VerifWrap<T> for Result<T, CtxError> {
    #[verifier::external_body] fn wrap(self, c: ()) -> (r: Result<T, CtxError>) ensures r.is_ok() == self.is_ok(), self.is_ok() ==> r == Result::<T, CtxError>::Ok(self->Ok_0) { unimplemented!() }
}
// a handshake that arrived ON THIS STREAM (ghost): recv_proto's result
pub uninterp spec fn rx_gossip(sid: Keccak256, h: GossipHandshake) -> bool;
pub uninterp spec fn rx_consensus(sid: Keccak256, h: ConsensusHandshake) -> bool;
#[verifier::external_body]
pub async fn recv_gossip(ctx: &Ctx, stream: &mut NoiseStream, max: usize) -> (r: Result<GossipHandshake, CtxError>)
    ensures final(stream).sid() == old(stream).sid(), r matches Ok(h) ==> rx_gossip(old(stream).sid(), h) { unimplemented!() }
// our own handshake must sign THIS stream's id (precondition = the obligation)
#[verifier::external_body]
pub async fn send_gossip(ctx: &Ctx, stream: &mut NoiseStream, h: &GossipHandshake) -> (r: Result<(), CtxError>)
    requires h.session_id.msg == sid_of(old(stream).sid())
    ensures final(stream).sid() == old(stream).sid() { unimplemented!() }
#[verifier::external_body]
pub async fn recv_consensus(ctx: &Ctx, stream: &mut NoiseStream, max: usize) -> (r: Result<ConsensusHandshake, CtxError>)
    ensures final(stream).sid() == old(stream).sid(), r matches Ok(h) ==> rx_consensus(old(stream).sid(), h) { unimplemented!() }
#[verifier::external_body]
pub async fn send_consensus(ctx: &Ctx, stream: &mut NoiseStream, h: &ConsensusHandshake) -> (r: Result<(), CtxError>)
    requires h.session_id.msg == sid_of(old(stream).sid())
    ensures final(stream).sid() == old(stream).sid() { unimplemented!() }
impl From<InvalidSignatureError> for GossipError { #[verifier::external_body] fn from(e: InvalidSignatureError) -> (r: GossipError) { unimplemented!() } }
impl From<CtxError> for GossipError { #[verifier::external_body] fn from(e: CtxError) -> (r: GossipError) { unimplemented!() } }
impl From<AnyhowError> for ConsensusError { #[verifier::external_body] fn from(e: AnyhowError) -> (r: ConsensusError) { unimplemented!() } }
impl From<CtxError> for ConsensusError { #[verifier::external_body] fn from(e: CtxError) -> (r: ConsensusError) { unimplemented!() } }
// the parts of network::Config the gossip handshake reads
#[verifier::external_body] pub struct StaticOutbound { _p: u8 }
pub type StaticInbound = NodeKeySet;                                   // HashSet<node::PublicKey>
impl StaticOutbound {
    pub uninterp spec fn dom(&self) -> Set<NodeKey>;           // the peers this node dials (HashMap<node::PublicKey, Host>)
    #[verifier::external_body] pub fn contains_key(&self, k: &NodeKey) -> bool { unimplemented!() }
}
#[verifier::external_body] pub struct NodeKeySet { _p: u8 }             // HashSet<node::PublicKey>
impl NodeKeySet {
    pub uninterp spec fn view(&self) -> Set<NodeKey>;
    #[verifier::external_body] pub fn contains(&self, k: &NodeKey) -> bool { unimplemented!() }
}
impl Clone for NodeKeySet { #[verifier::external_body] fn clone(&self) -> (r: Self) ensures r == *self { unimplemented!() } }
pub struct GossipConfig { pub key: NodeSecret, pub static_outbound: StaticOutbound, pub static_inbound: StaticInbound, pub dynamic_inbound_limit: usize }
pub struct Config { pub gossip: GossipConfig, pub build_version: Option<Version> }
pub struct Connection { pub key: NodeKey, pub build_version: Option<Version>, pub stats: Stats }       // gossip::Connection
#[verifier::external_body] pub fn opt_version_clone(v: &Option<Version>) -> (r: Option<Version>) ensures r == *v { unimplemented!() }
"""

SPEC_HS = r"""
// ---------------- specification (C12): a connection is attributed to K only if ... ----------------
// a handshake h received on this stream proves possession of K's key FOR THIS SESSION and announces the same chain
pub open spec fn gossip_proves(sid: Keccak256, genesis: GenesisHash, h: GossipHandshake, k: NodeKey) -> bool {
    &&& rx_gossip(sid, h)                          // it arrived on this very session ...
    &&& h.session_id.msg == sid_of(sid)            // ... and signs the identifier of this very session (a transcript of another session does not)
    &&& h.genesis == genesis
    &&& h.session_id.key == k
    &&& node_sig_ok(h.session_id)
}
pub open spec fn consensus_proves(sid: Keccak256, genesis: GenesisHash, h: ConsensusHandshake, k: ValidatorKey) -> bool {
    &&& rx_consensus(sid, h)
    &&& h.session_id.msg == sid_of(sid)
    &&& h.genesis == genesis
    &&& h.session_id.key == k
    &&& val_sig_ok(h.session_id)
}
"""


def add_pool(U):
    U.raw(PRELUDE_POOL, label="prelude pool")
    U.item(F_POOL, "struct Pool", subs=[("HashSet<K>", "KSet<K>"), ("im::HashMap<K, V>", "ImMap<K, V>")],
           attrs="#[verifier::reject_recursive_types(K)] #[verifier::reject_recursive_types(V)]")
    U.raw(SPEC_POOL, label="spec pool")
    U.lift_closure(F_POOL, "impl<K: std::hash::Hash + Eq + Clone, V: Clone> PoolWatch<K, V> :: fn insert", "|pool|",
                   "pool_insert", "<K: KeyLike, V>(pool: &mut Pool<K, V>, k: K, v: V) -> (r: Result<(), AnyhowError>)",
                   # W-ghost: set-cardinality facts about the OLD pool, stated up front so that no statement of the closure is an anchor
                   proof_at_start="""proof {
                        let d = old(pool).current@.dom();
                        assert(d.insert(k).difference(old(pool).allowed@) =~= (if !old(pool).allowed@.contains(k) { d.difference(old(pool).allowed@).insert(k) } else { d.difference(old(pool).allowed@) }));
                        vstd::set_lib::lemma_set_difference_len(d, old(pool).allowed@);
                    }""",
                   spec="""
    requires old(pool).wf(),
    ensures
        // admitted iff the identity has no connection yet and is configured or the quota for non-configured peers is not exhausted
        r.is_ok() <==> (!old(pool).current@.contains_key(k) && (old(pool).allowed@.contains(k) || old(pool).extra_count < old(pool).extra_limit)),
        r.is_ok() ==> final(pool).wf() && final(pool).current@ == old(pool).current@.insert(k, v)
            && final(pool).allowed == old(pool).allowed && final(pool).extra_limit == old(pool).extra_limit,
        // a refused connection changes nothing
        r.is_err() ==> *final(pool) == *old(pool),
""")
    U.lift_closure(F_POOL, "impl<K: std::hash::Hash + Eq + Clone, V: Clone> PoolWatch<K, V> :: fn remove", "|pool|",
                   "pool_remove", "<K: KeyLike, V>(pool: &mut Pool<K, V>, k: &K) -> (r: bool)",
                   post_subs=[("if pool.current.remove(k).is_none() {", """proof {
                        let d = old(pool).current@.dom();
                        assert(d.remove(*k).difference(pool.allowed@) =~= d.difference(pool.allowed@).remove(*k));
                        vstd::set_lib::lemma_set_difference_len(d, pool.allowed@);
                    }
                    if pool.current.remove(k).is_none() {""")],
                   spec="""
    requires old(pool).wf(),
    ensures final(pool).wf(), final(pool).current@ == old(pool).current@.remove(*k),
            final(pool).allowed == old(pool).allowed, final(pool).extra_limit == old(pool).extra_limit,
            r == old(pool).current@.contains_key(*k),
            !r ==> final(pool).current@ == old(pool).current@ && final(pool).extra_count == old(pool).extra_count,
""")


def add_handshakes(U):
    U.item(F_GH, "struct Handshake", subs=[("struct Handshake", "struct GossipHandshake"), ("node::Signed<node::SessionId>", "NodeSigned"),
                                            ("validator::GenesisHash", "GenesisHash"), ("Option<semver::Version>", "Option<Version>")])
    U.item(F_CH, "struct Handshake", subs=[("struct Handshake", "struct ConsensusHandshake"), ("validator::Signed<node::SessionId>", "ValSigned"),
                                            ("validator::GenesisHash", "GenesisHash")])
    U.item(F_GH, "enum Error", subs=[("enum Error", "enum GossipError"), ("node::InvalidSignatureError", "InvalidSignatureError"), ("ctx::Error", "CtxError")])
    U.item(F_CH, "enum Error", subs=[("enum Error", "enum ConsensusError"), ("anyhow::Error", "AnyhowError"), ("ctx::Error", "CtxError")])
    U.item("node/libs/roles/src/node/messages.rs", "struct SessionId")
    U.raw(PRELUDE_HS, label="prelude handshake")
    U.raw(SPEC_HS, label="spec handshake")
    GS = [("ctx.with_timeout(TIMEOUT)", "ctx.with_timeout(timeout_const())"),
          ("node::SessionId(stream.id().encode())", "encode_session_id(stream.id())   /* R-std */"),
          ("Error::", "GossipError::", None), ("Handshake", "GossipHandshake", None), ("cfg.build_version.clone()", "opt_version_clone(&cfg.build_version)"),
          ("frame::send_proto(", "send_gossip("), ("frame::recv_proto(ctx, stream, MAX_FRAME)", "recv_gossip(ctx, stream, 10240)")]
    GH = [("ctx::Ctx", "Ctx"), ("validator::GenesisHash", "GenesisHash"), ("noise::Stream", "NoiseStream"), ("node::PublicKey", "NodeKey", None)]
    U.fn(F_GH, "fn outbound", name="gossip_outbound", ret="r", header_subs=GH + [("Result<Connection, Error>", "Result<Connection, GossipError>")],
         subs=GS, post_subs=[("Ok(Connection {", "proof { assert(gossip_proves(old(stream).sid(), genesis, h, h.session_id.key)); } Ok(Connection {")], spec="""
    ensures final(stream).sid() == old(stream).sid(),
            // attributed to K only after: same session id, same genesis, K is the peer that was dialled, valid signature -- on THIS stream
            r matches Ok(c) ==> c.key == *peer && exists|h: GossipHandshake| #[trigger] gossip_proves(old(stream).sid(), genesis, h, c.key),
""")
    U.fn(F_GH, "fn inbound", name="gossip_inbound", ret="r", header_subs=GH + [("Result<Arc<Connection>, Error>", "Result<Arc<Connection>, GossipError>")],
         subs=GS + [("Ok(Connection {\n        key: h.session_id.key,\n        build_version: h.build_version,\n        stats: stream.stats(),\n    }\n    .into())",
                     "Ok(Arc::new(Connection {\n        key: h.session_id.key,\n        build_version: h.build_version,\n        stats: stream.stats(),\n    }))   /* R-std: .into() */")],
         post_subs=[("Ok(Arc::new(Connection {", "proof { assert(gossip_proves(old(stream).sid(), genesis, h, h.session_id.key)); } Ok(Arc::new(Connection {")],
         spec="""
    ensures final(stream).sid() == old(stream).sid(),
            r.is_ok() ==> exists|h: GossipHandshake, k: NodeKey| #[trigger] gossip_proves(old(stream).sid(), genesis, h, k) && r->Ok_0.key == k,
""")
    CS = [("ctx.with_timeout(TIMEOUT)", "ctx.with_timeout(timeout_const())"),
          ("node::SessionId(stream.id().encode())", "encode_session_id(stream.id())   /* R-std */"),
          ("Error::", "ConsensusError::", None), ("Handshake", "ConsensusHandshake", None),
          ("frame::send_proto(", "send_consensus("), ("frame::recv_proto(ctx, stream, MAX_FRAME)", "recv_consensus(ctx, stream, 10240)")]
    CH = [("ctx::Ctx", "Ctx"), ("validator::GenesisHash", "GenesisHash"), ("noise::Stream", "NoiseStream"),
          ("validator::SecretKey", "ValidatorSecret"), ("validator::PublicKey", "ValidatorKey", None)]
    U.fn(F_CH, "fn outbound", name="consensus_outbound", ret="r", header_subs=CH + [("Result<(), Error>", "Result<(), ConsensusError>")],
         subs=CS, post_subs=[("Ok(())", "proof { assert(consensus_proves(old(stream).sid(), genesis, h, h.session_id.key)); } Ok(())")], spec="""
    ensures final(stream).sid() == old(stream).sid(),
            r.is_ok() ==> exists|h: ConsensusHandshake| #[trigger] consensus_proves(old(stream).sid(), genesis, h, *peer),
""")
    U.fn(F_CH, "fn inbound", name="consensus_inbound", ret="r", header_subs=[("Result<validator::PublicKey, Error>", "Result<ValidatorKey, ConsensusError>")] + CH,
         subs=CS, post_subs=[("Ok(h.session_id.key)", "proof { assert(consensus_proves(old(stream).sid(), genesis, h, h.session_id.key)); } Ok(h.session_id.key)")], spec="""
    ensures final(stream).sid() == old(stream).sid(),
            r.is_ok() ==> exists|h: ConsensusHandshake, k: ValidatorKey| #[trigger] consensus_proves(old(stream).sid(), genesis, h, k) && r->Ok_0 == k,
""")


RUNNER_PRELUDE = r"""
// ---------------- the stream runners: registration in the pools happens only for an authenticated key, removal only of an own registration ----------------
pub open spec fn spec_val<T>(x: &T) -> T { *x }
impl Clone for NodeKey { #[verifier::external_body] fn clone(&self) -> (r: Self) ensures r == *self { unimplemented!() } }
impl Clone for ValidatorKey { #[verifier::external_body] fn clone(&self) -> (r: Self) ensures r == *self { unimplemented!() } }
pub open spec fn node_authenticated(sid: Keccak256, genesis: GenesisHash, k: NodeKey) -> bool {
    exists|h: GossipHandshake| #[trigger] gossip_proves(sid, genesis, h, k)
}
pub open spec fn val_authenticated(sid: Keccak256, genesis: GenesisHash, k: ValidatorKey) -> bool {
    exists|h: ConsensusHandshake| #[trigger] consensus_proves(sid, genesis, h, k)
}
// R-type: PoolWatch<K, V> as an opaque handle. Its insert/remove closures are verified above (pool_insert / pool_remove); here the
// CALL SITES carry the obligations: the key being registered was authenticated on `stream` for `genesis`, and remove() is only
// reached by the task whose insert() succeeded (ghost flag).
#[verifier::external_body] pub struct NodePool { _p: u8 }
#[verifier::external_body] pub struct ValPool { _p: u8 }
#[verifier::external_body] pub struct ValKeySet { _p: u8 }              // HashSet<validator::PublicKey>
impl ValKeySet {
    pub uninterp spec fn view(&self) -> Set<ValidatorKey>;
    #[verifier::external_body] pub fn len(&self) -> (r: usize) ensures r == self@.len() { unimplemented!() }
}
impl Clone for ValKeySet { #[verifier::external_body] fn clone(&self) -> (r: Self) ensures r == *self { unimplemented!() } }
impl NodePool {
    // the configured ("allowed") identities and the quota for all others: what PoolWatch::new (verified above as pool_new) stores
    pub uninterp spec fn allowed(&self) -> Set<NodeKey>;
    pub uninterp spec fn limit(&self) -> usize;
    #[verifier::external_body] pub fn new(allowed: NodeKeySet, extra_limit: usize) -> (r: Self) ensures r.allowed() == allowed@, r.limit() == extra_limit { unimplemented!() }
    #[verifier::external_body]
    pub async fn insert(&self, k: NodeKey, v: Arc<Connection>, Ghost(sid): Ghost<Keccak256>, Ghost(genesis): Ghost<GenesisHash>) -> (r: Result<(), AnyhowError>)
        requires node_authenticated(sid, genesis, k) { unimplemented!() }
    #[verifier::external_body]
    pub async fn remove(&self, k: &NodeKey, Ghost(registered): Ghost<Option<NodeKey>>) requires registered == Some(*k) { unimplemented!() }
}
impl ValPool {
    pub uninterp spec fn allowed(&self) -> Set<ValidatorKey>;
    pub uninterp spec fn limit(&self) -> usize;
    #[verifier::external_body] pub fn new(allowed: ValKeySet, extra_limit: usize) -> (r: Self) ensures r.allowed() == allowed@, r.limit() == extra_limit { unimplemented!() }
    #[verifier::external_body]
    pub async fn insert(&self, k: ValidatorKey, v: Stats, Ghost(sid): Ghost<Keccak256>, Ghost(genesis): Ghost<GenesisHash>) -> (r: Result<(), AnyhowError>)
        requires val_authenticated(sid, genesis, k) { unimplemented!() }
    #[verifier::external_body]
    pub async fn remove(&self, k: &ValidatorKey, Ghost(registered): Ghost<Option<ValidatorKey>>) requires registered == Some(*k) { unimplemented!() }
}
#[verifier::external_body] pub struct SocketAddr { _p: u8 }
#[verifier::external_body] pub struct Host { _p: u8 }
// R-type: the fields of gossip::Network / consensus::Network these functions use
pub struct GossipNetwork { pub cfg: Config, pub inbound: NodePool, pub outbound: NodePool, pub genesis: GenesisHash }
pub struct ConsensusNetwork { pub gossip: Arc<GossipNetwork>, pub key: ValidatorSecret, pub inbound: ValPool, pub outbound: ValPool }
impl GossipNetwork {
    #[verifier::external_body] pub fn genesis_hash(&self) -> (r: GenesisHash) ensures r == self.genesis { unimplemented!() }
    // R-stub: the RPC service loop over the authenticated stream (not under contract)
    #[verifier::external_body] pub async fn run_stream(&self, ctx: &Ctx, stream: NoiseStream) -> (r: Result<(), AnyhowError>) { unimplemented!() }
}
impl ConsensusNetwork {
    // R-stub: `scope::run!(ctx, |ctx, s| async { .. service.run(ctx, stream) .. })` -- the RPC service loop (not under contract)
    #[verifier::external_body] pub async fn run_service(&self, ctx: &Ctx, stream: NoiseStream) -> (r: Result<(), AnyhowError>) { unimplemented!() }
}
// R-stub: preface::connect (TCP connect + encryption preface + noise handshake) yields a fresh encrypted stream
#[verifier::external_body] pub async fn preface_connect(ctx: &Ctx, addr: SocketAddr) -> (r: Result<NoiseStream, AnyhowError>) { unimplemented!() }
// R-stub: `*addr.resolve(ctx).await?.context(..)?.choose(&mut ctx.rng()).with_context(..)?` -- DNS resolution, not under contract
#[verifier::external_body] pub async fn resolve_one(ctx: &Ctx, addr: Host) -> (r: Result<SocketAddr, AnyhowError>) { unimplemented!() }
impl From<GossipError> for AnyhowError { #[verifier::external_body] fn from(e: GossipError) -> (r: AnyhowError) { unimplemented!() } }
impl From<ConsensusError> for AnyhowError { #[verifier::external_body] fn from(e: ConsensusError) -> (r: AnyhowError) { unimplemented!() } }
"""

F_GR = "node/components/network/src/gossip/runner.rs"
F_CM = "node/components/network/src/consensus/mod.rs"


def add_runners(U):
    U.raw(RUNNER_PRELUDE, label="prelude runners")
    H = [("ctx::Ctx", "Ctx"), ("noise::Stream", "NoiseStream"), ("anyhow::Result<()>", "Result<(), AnyhowError>"),
         ("node::PublicKey", "NodeKey"), ("validator::PublicKey", "ValidatorKey"), ("net::Host", "Host"), ("std::net::SocketAddr", "SocketAddr")]
    H = [(a, b, None) for a, b in H]
    RL = ("R-log", "R-errmsg", "R-underscore", "R-ctorfn")
    # gossip inbound
    MUTP = [("mut stream:", "stream:")]     # R-let: Verus loses `mut` on a parameter of an async fn; rebound mutably as the first statement
    U.fn(F_GR, "impl Network :: fn run_inbound_stream", wrap="impl GossipNetwork", name="run_inbound_stream", ret="r", header_subs=H + MUTP, rules_=RL,
         proof_at_start="let mut stream = stream;   /* R-let */ let ghost mut verif_reg: Option<NodeKey> = None;   /* W-ghost: this task's registration */",
         subs=[("handshake::inbound(ctx, &self.cfg, self.genesis_hash(), &mut stream).await?",
                "gossip_inbound(ctx, &self.cfg, self.genesis_hash(), &mut stream).await.map_err(|verif_e: GossipError| -> (verif_r: AnyhowError) { AnyhowError::from(verif_e) })?   /* R-try */"),
               ("self.inbound.insert(conn.key.clone(), conn.clone()).await?;",
                "self.inbound.insert(conn.key.clone(), conn.clone(), Ghost(stream.sid()), Ghost(self.genesis)).await?; proof { verif_reg = Some(spec_val(&conn.key)); }   /* W-ghost */"),
               ("self.inbound.remove(&conn.key).await;", "self.inbound.remove(&conn.key, Ghost(verif_reg)).await;   /* W-ghost */")],
         spec="    ensures true,     // the obligations are the preconditions of insert / remove at their call sites\n")
    # gossip outbound
    U.fn(F_GR, "impl Network :: fn run_outbound_stream", wrap="impl GossipNetwork", name="run_outbound_stream", ret="r", header_subs=H, rules_=RL,
         proof_at_start="let ghost mut verif_reg: Option<NodeKey> = None;   /* W-ghost */",
         regions=[("let addr = *addr", "let addr = *addr", "let addr = resolve_one(ctx, addr).await?;   /* R-stub */")],
         subs=[("preface::connect(ctx, addr, preface::Endpoint::GossipNet).await?", "preface_connect(ctx, addr).await?   /* R-stub */"),
               ("handshake::outbound(ctx, &self.cfg, self.genesis_hash(), &mut stream, peer).await?",
                "gossip_outbound(ctx, &self.cfg, self.genesis_hash(), &mut stream, peer).await.map_err(|verif_e: GossipError| -> (verif_r: AnyhowError) { AnyhowError::from(verif_e) })?   /* R-try */"),
               ("self.outbound.insert(peer.clone(), conn.into()).await?;",
                "self.outbound.insert(peer.clone(), Arc::new(conn)   /* R-std: .into() */, Ghost(stream.sid()), Ghost(self.genesis)).await?; proof { verif_reg = Some(spec_val(peer)); }   /* W-ghost */"),
               ("self.outbound.remove(peer).await;", "self.outbound.remove(peer, Ghost(verif_reg)).await;   /* W-ghost */")],
         spec="    ensures true,\n")
    # consensus inbound / outbound: the service loop (a scope::run! macro block) is one abstracted statement
    CSUB = [("handshake::inbound(ctx, &self.key, self.gossip.genesis_hash(), &mut stream).await?",
             "consensus_inbound(ctx, &self.key, self.gossip.genesis_hash(), &mut stream).await.map_err(|verif_e: ConsensusError| -> (verif_r: AnyhowError) { AnyhowError::from(verif_e) })?   /* R-try */")]
    U.fn(F_CM, "impl Network :: fn run_inbound_stream", wrap="impl ConsensusNetwork", name="run_inbound_stream", ret="r", header_subs=H + MUTP, rules_=RL,
         proof_at_start="let mut stream = stream;   /* R-let */ let ghost mut verif_reg: Option<ValidatorKey> = None;   /* W-ghost */",
         regions=[("let res = scope::run!", "let res = scope::run!", "let res = self.run_service(ctx, stream).await;   /* R-stub: RPC service loop */")],
         subs=CSUB + [("self.inbound.insert(peer.clone(), stream.stats()).await?;",
                       "self.inbound.insert(peer.clone(), stream.stats(), Ghost(stream.sid()), Ghost(self.gossip.genesis)).await?; proof { verif_reg = Some(spec_val(&peer)); }   /* W-ghost */"),
                      ("self.inbound.remove(&peer).await;", "self.inbound.remove(&peer, Ghost(verif_reg)).await;   /* W-ghost */")],
         spec="    ensures true,\n")
    U.fn(F_CM, "impl Network :: fn run_outbound_stream", wrap="impl ConsensusNetwork", name="run_outbound_stream", ret="r", header_subs=H, rules_=RL,
         proof_at_start="let ghost mut verif_reg: Option<ValidatorKey> = None;   /* W-ghost */",
         regions=[("let consensus_cli =", "let consensus_cli =", ""),
                  ("let res = scope::run!", "let res = scope::run!", "let res = self.run_service(ctx, stream).await;   /* R-stub: RPC service loop (incl. the client handle above) */")],
         subs=[("preface::connect(ctx, addr, preface::Endpoint::ConsensusNet).await?", "preface_connect(ctx, addr).await?   /* R-stub */"),
               ("handshake::outbound(\n            ctx,\n            &self.key,\n            self.gossip.genesis_hash(),\n            &mut stream,\n            peer,\n        )\n        .await?;",
                "consensus_outbound(ctx, &self.key, self.gossip.genesis_hash(), &mut stream, peer).await.map_err(|verif_e: ConsensusError| -> (verif_r: AnyhowError) { AnyhowError::from(verif_e) })?;   /* R-try */"),
               ("self.outbound.insert(peer.clone(), stream.stats()).await?;",
                "self.outbound.insert(peer.clone(), stream.stats(), Ghost(stream.sid()), Ghost(self.gossip.genesis)).await?; proof { verif_reg = Some(spec_val(peer)); }   /* W-ghost */"),
               ("self.outbound.remove(peer).await;", "self.outbound.remove(peer, Ghost(verif_reg)).await;   /* W-ghost */")],
         spec="    ensures true,\n")


NEW_PRELUDE = r"""
// ---------------- construction of the pools: who counts as configured, and the quota for everybody else ----------------
#[verifier::external_body] pub struct EngineManager { _p: u8 }
#[verifier::external_body] #[derive(Clone, Copy)] pub struct EpochNumber { _p: u8 }
#[verifier::external_body] pub struct ConsensusSender { _p: u8 }
#[verifier::external_body] pub struct AddrsWatch { _p: u8 }
#[verifier::external_body] pub struct FetchQueue { _p: u8 }
#[verifier::external_body] pub struct TxPool { _p: u8 }
#[verifier::external_body] pub struct AtomicCounter { _p: u8 }
#[verifier::external_body] pub struct MsgPool { _p: u8 }
impl AddrsWatch { #[verifier::external_body] pub fn default() -> Self { unimplemented!() } }
impl FetchQueue { #[verifier::external_body] pub fn default() -> Self { unimplemented!() } }
impl MsgPool { #[verifier::external_body] pub fn new() -> Self { unimplemented!() } }
impl EngineManager { #[verifier::external_body] pub fn tx_pool_sender(&self) -> TxPool { unimplemented!() } }
#[verifier::external_body] pub fn atomic_zero() -> AtomicCounter { unimplemented!() }
// R-type: the fields of gossip::Network (all of them: this is its constructor)
pub struct GossipNetworkAll {
    pub epoch_number: Option<EpochNumber>, pub cfg: Config, pub inbound: NodePool, pub outbound: NodePool, pub validator_addrs: AddrsWatch,
    pub engine_manager: Arc<EngineManager>, pub consensus_sender: ConsensusSender, pub fetch_queue: FetchQueue, pub tx_pool: TxPool,
    pub push_validator_addrs_calls: AtomicCounter,
}
// R-chain: `cfg.gossip.static_outbound.keys().cloned().collect()` (A1)
#[verifier::external_body] pub fn tmpl_keys_cloned_collect(m: &StaticOutbound) -> (r: NodeKeySet) ensures r@ == m.dom() { unimplemented!() }
// consensus side: the committee of the epoch as a key set
#[verifier::external_body] pub struct ValSchedule { _p: u8 }
impl ValSchedule { pub uninterp spec fn members(&self) -> Set<ValidatorKey>; }
#[verifier::external_body] pub fn tmpl_schedule_keys_cloned_collect(s: &ValSchedule) -> (r: ValKeySet)
    // the committee is never empty (Schedule::new rejects an empty list, unit leader): its size is a positive number, not a quota of 0
    ensures r@ == s.members(), r@.finite(), r@.len() > 0 { unimplemented!() }   // .keys().cloned().collect()
pub struct GossipForConsensus { pub epoch_number: Option<EpochNumber>, pub validator_key: Option<ValidatorSecret>, pub schedule: Option<ValSchedule> }
impl GossipForConsensus {
    #[verifier::external_body] pub fn validator_schedule(&self) -> (r: Result<Option<&ValSchedule>, AnyhowError>)
        ensures r matches Ok(o) ==> (o.is_some() == self.schedule.is_some()) && (o matches Some(s) ==> *s == self.schedule->Some_0) { unimplemented!() }
}
impl Clone for ValidatorSecret { #[verifier::external_body] fn clone(&self) -> (r: Self) ensures r == *self { unimplemented!() } }
pub struct ConsensusNetworkAll { pub gossip: Arc<GossipForConsensus>, pub key: ValidatorSecret, pub inbound: ValPool, pub outbound: ValPool, pub msg_pool: MsgPool }
"""

F_GM = "node/components/network/src/gossip/mod.rs"


def add_constructors(U):
    # PoolWatch::new: the pool it wraps starts empty, with exactly the given configured set and quota
    U.fn(F_POOL, "impl<K: std::hash::Hash + Eq + Clone, V: Clone> PoolWatch<K, V> :: fn new", name="pool_new", ret="r",
         header_subs=[("allowed: HashSet<K>", "allowed: KSet<K>"), ("-> Self", "-> Pool<K, V>"), ("fn new(", "fn new<K, V>(")],
         subs=[("Self(Watch::new(Pool {", "((Pool {   /* R-type: PoolWatch(Watch<Pool>) is the pool behind a lock */"), ("im::HashMap::new()", "ImMap::new()")],
         proof_at_start="proof { assert(Map::<K, V>::empty().dom().difference(allowed@) =~= Set::<K>::empty()); }",
         spec="""
    ensures r.allowed == allowed, r.extra_limit == extra_limit, r.extra_count == 0, r.current@ == Map::<K, V>::empty(), r.wf(),
""")
    U.raw(NEW_PRELUDE, label="prelude constructors")
    U.fn(F_GM, "impl Network :: fn new", wrap="impl GossipNetworkAll", ret="r",
         header_subs=[("Arc<EngineManager>", "Arc<EngineManager>"), ("Option<validator::EpochNumber>", "Option<EpochNumber>"),
                      ("sync::prunable_mpsc::Sender<io::ConsensusReq>", "ConsensusSender")],
         subs=[("Arc::new(Self {", "Arc::new(GossipNetworkAll {   /* R-type */"),
               ("PoolWatch::new(", "NodePool::new(   /* R-type: PoolWatch::new (verified as pool_new) */", 2),
               ("cfg.gossip.static_outbound.keys().cloned().collect()", "tmpl_keys_cloned_collect(&cfg.gossip.static_outbound)   /* R-chain */", None),
               ("ValidatorAddrsWatch::default()", "AddrsWatch::default()"), ("fetch::Queue::default()", "FetchQueue::default()"),
               ("0.into()", "atomic_zero()   /* R-std */")],
         spec="""
    ensures
        // inbound: exactly the configured inbound peers bypass the quota, everybody else shares dynamic_inbound_limit
        r.inbound.allowed() == cfg.gossip.static_inbound@ && r.inbound.limit() == cfg.gossip.dynamic_inbound_limit,
        // outbound: only the peers this node is configured to dial, no quota for others
        r.outbound.allowed() == cfg.gossip.static_outbound.dom() && r.outbound.limit() == 0,
""")
    U.fn(F_CM, "impl Network :: fn new", wrap="impl ConsensusNetworkAll", ret="r",
         header_subs=[("Arc<gossip::Network>", "Arc<GossipForConsensus>"), ("anyhow::Result<Option<Arc<Self>>>", "Result<Option<Arc<Self>>, AnyhowError>")],
         subs=[("gossip.cfg.validator_key.clone()", "gossip.validator_key.clone()   /* R-type */"),
               ("Arc::new(Self {", "Arc::new(ConsensusNetworkAll {   /* R-type */"),
               ("PoolWatch::new(", "ValPool::new(", 2)],
         chains=[dict(recv="gossip", methods=["validator_schedule"], template="gossip.validator_schedule()", count=1)] if False else None,
         regions=[("let validators: HashSet<_> =", "let validators: HashSet<_> =",
                   "let validators: ValKeySet = tmpl_schedule_keys_cloned_collect(match gossip.validator_schedule()? { Some(s) => s, None => { return Err(anyhow_error()); } });   /* R-chain: .ok_or_else(..)?.keys().cloned().collect() */")],
         spec="""
    ensures
        // "the validator network admits only members of the current committee": both pools allow exactly the committee, quota 0
        r matches Ok(Some(n)) ==> gossip.schedule.is_some()
            && n.inbound.allowed() == gossip.schedule->Some_0.members() && n.inbound.limit() == 0
            && n.outbound.allowed() == gossip.schedule->Some_0.members() && n.outbound.limit() == 0,
""")


def build(repo):
    U = Unit("admission", ["C12"], desc="connection admission", uses="use std::sync::Arc;\nuse vstd::std_specs::cmp::*;")
    U.repo = repo
    add_pool(U)
    add_handshakes(U)
    add_runners(U)
    add_constructors(U)
    U.assume("A3: the noise handshake hash is unique per session and cannot be chosen by a peer; signatures are uninterpreted predicates")
    U.assume("A4: the Watch mutex serialises the pool closures (send_if_ok / send_if_modified run atomically); interleavings of concurrent "
             "inserts and the placement of insert/remove in the gossip/consensus runners are not modelled")
    return U
