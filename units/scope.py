"""U-scope (C17): the sequential fragments of the task scope: which failure is kept (set_err), what a task wrapper reports
(Task::run / run_blocking / PanicReporter), when the scope's context is cancelled, and what Scope::run returns and when."""
from vx.unit import Unit

F_STATE = "node/libs/concurrency/src/scope/state.rs"
F_TASK = "node/libs/concurrency/src/scope/task.rs"
F_MOD = "node/libs/concurrency/src/scope/mod.rs"

PRELUDE = r"""
// ---------------- prelude (A4: Mutex / signal::Once / Arc / tokio join handles as documented; runtime handles opaque) ----------------
#[verifier::external_body] pub struct Ctx { _p: u8 }
#[verifier::external_body] #[verifier::accept_recursive_types(E)] pub struct ErrCell<E> { _p: core::marker::PhantomData<E> }   // R-type: Mutex<Option<OrPanic<E>>>
#[verifier::external_body] pub struct SignalOnce { _p: u8 }                                                     // R-type: signal::Once
pub struct Terminated;                                                                                         // task::Terminated
#[derive(Debug)] pub struct Canceled;                                                                                           // ctx::Canceled
// R-lock: `self.0.ctx.cancel()` with the cancellation flag made explicit (W-ghost): cancelling is irreversible
#[verifier::external_body]
pub fn ctx_cancel(ctx: &Ctx, cancelled: &mut Ghost<bool>) ensures final(cancelled)@ { unimplemented!() }
// R-lock: `signal::Once::send` with the flag made explicit (W-ghost)
#[verifier::external_body]
pub fn signal_send(s: &SignalOnce, sent: &mut Ghost<bool>) ensures final(sent)@ { unimplemented!() }
impl SignalOnce {
    // "the terminate signal has been sent", i.e. every TerminateGuard (one per task) has been dropped. Monotone; only ever asserted positively.
    pub uninterp spec fn try_recv(&self) -> bool;
    #[verifier::external_body] pub async fn cancel_safe_recv(&self) -> (r: ()) ensures self.try_recv() { unimplemented!() }
}
"""

SPEC = r"""
// ---------------- specification (C17), written from the property statement ----------------
// which failure the scope keeps when a task reports `err` while `cur` is recorded: the FIRST error wins among errors, a panic
// overrides any error, nothing overrides a panic
pub open spec fn keep<E>(cur: Option<OrPanic<E>>, err: OrPanic<E>) -> Option<OrPanic<E>> {
    match (cur, err) {
        (None, e) => Some(e),
        (Some(OrPanic::Panic), _) => Some(OrPanic::Panic),
        (Some(OrPanic::Err(_)), OrPanic::Panic) => Some(OrPanic::Panic),
        (Some(OrPanic::Err(e0)), OrPanic::Err(_)) => Some(OrPanic::Err(e0)),
    }
}
// facts about one scope's history; each is produced by exactly one stub below
pub uninterp spec fn reported<E>(g: &TerminateGuard<E>, e: OrPanic<E>) -> bool;      // set_err(e) was called on the scope's state
pub uninterp spec fn routine_returned<T, E>(x: Result<T, E>) -> bool;                // the task's routine ran to completion with result x
pub uninterp spec fn root_result<T>(x: Result<T, Canceled>) -> bool;                 // what joining the root task yielded
pub uninterp spec fn outcome<E>(x: Option<OrPanic<E>>) -> bool;                      // the failure recorded in the scope's state, read AFTER termination
"""

STUBS_TASK = r"""
// ---------------- stubs for task.rs ----------------
impl<E: 'static> TerminateGuard<E> {
    // R-stub for `<guard>.set_err(e)` at its call sites (the function itself is verified above against `keep`)
    #[verifier::external_body]
    pub fn verif_set_err(&self, err: OrPanic<E>) ensures reported(self, err) { unimplemented!() }
}
impl<E: 'static> Task<E> {
    pub uninterp spec fn spec_guard(&self) -> &TerminateGuard<E>;
    // Task::guard: `g.as_ref()` / `g.terminate_guard().as_ref()` (Arc::as_ref, A1)
    #[verifier::external_body]
    pub fn guard(&self) -> (r: &TerminateGuard<E>) ensures r == self.spec_guard() { unimplemented!() }
}
// R-std: awaiting the task's routine (a generic future)
#[verifier::external_body]
pub async fn verif_await<T, E, F: Future<Output = Result<T, E>>>(f: F) -> (r: Result<T, E>) ensures routine_returned(r) { f.await }
"""

STUBS_RUN = r"""
// ---------------- stubs for Scope::run / run_blocking ----------------
pub struct MustCompleteGuard;                                   // must_complete::Guard (aborts the process when dropped undefused)
impl MustCompleteGuard { #[verifier::external_body] pub fn defuse(self) { unimplemented!() } }
#[verifier::external_body] #[verifier::accept_recursive_types(T)] pub struct JoinHandle<T> { _p: core::marker::PhantomData<T> }
impl<T> JoinHandle<T> {
    // joining the root task: Err only if Task::run returned Err(Terminated), i.e. (contract of Task::run) after a failure was reported
    #[verifier::external_body]
    pub async fn join_raw(self) -> (r: Result<T, Canceled>) ensures root_result(r) { unimplemented!() }
}
// A4: a task whose wrapper returned Err reported its failure first (Task::run's postcondition), and set_err never leaves the
// record empty (its postcondition): if nothing is recorded after termination, the root task returned Ok
pub proof fn axiom_root_ok_if_nothing_recorded<T, E>(x: Result<T, Canceled>)
    requires root_result(x), outcome(None::<OrPanic<E>>),
    ensures x.is_ok(),
{ admit(); }
impl<E> State<E> {
    // R-stub: `std::mem::take(&mut *self.err.lock().unwrap())`
    #[verifier::external_body]
    pub fn verif_take_locked(&self) -> (r: Option<OrPanic<E>>)
        requires self.terminated.try_recv(),
        ensures outcome(r)
    { unimplemented!() }
}
// R-stub for the spawn of the root task (Arc / Weak bookkeeping + `unsafe spawn`): yields the scope state and the root's join handle
#[verifier::external_body]
pub fn verif_scope_setup<'env, E: 'static + Send, T, F>(s: &mut Scope<'env, E>, root_task: F) -> (r: (Arc<State<E>>, JoinHandle<T>)) { unimplemented!() }
// `panic!("one of the tasks panicked ..")`: re-raising is allowed only for a recorded panic
#[verifier::external_body]
pub fn verif_reraise_panic<E, R>() -> (r: R) requires outcome(Some(OrPanic::<E>::Panic)) ensures false /* diverges */ { unimplemented!() }
// ctx::block_on
#[verifier::external_body]
pub fn block_on_join<T>(h: JoinHandle<T>) -> (r: Result<T, Canceled>) ensures root_result(r) { unimplemented!() }
#[verifier::external_body]
pub fn block_on_terminated<E>(s: &State<E>) ensures s.terminated.try_recv() { unimplemented!() }
"""

TAIL_POST = """
    ensures
        // the root task's result if no task failed; otherwise the recorded (first) error; both read only after the scope terminated
        r matches Ok(v) ==> outcome(None::<OrPanic<E>>) && root_result(Ok::<T, Canceled>(v)),
        r matches Err(e) ==> outcome(Some(OrPanic::Err(e))),
"""


def build(repo):
    U = Unit("scope", ["C17"], desc="task scope (sequential fragments)", uses="use std::future::Future;\nuse std::sync::Arc;")
    U.repo = repo
    U.raw(PRELUDE, label="prelude scope")
    U.item(F_STATE, "enum OrPanic")
    U.item(F_STATE, "struct State", subs=[("ctx::Ctx", "Ctx"), ("Mutex<Option<OrPanic<E>>>", "ErrCell<E>"), ("signal::Once", "SignalOnce")])
    U.item(F_STATE, "struct TerminateGuard")
    U.item(F_STATE, "struct CancelGuard")
    U.item(F_TASK, "enum Task", subs=[("scope::", "", None)])
    U.item(F_TASK, "struct PanicReporter")
    U.raw(SPEC, label="spec scope")
    # ---- state.rs
    TG = "impl<E: 'static> TerminateGuard<E>"
    U.fn(F_STATE, TG + " :: fn state", wrap=TG, ret="r", spec="    ensures *r == self.0,\n")
    U.fn(F_STATE, "impl<E: 'static> CancelGuard<E> :: fn terminate_guard", wrap="impl<E: 'static> CancelGuard<E>", ret="r",
         spec="    ensures *r == self.0,\n")
    U.fn(F_STATE, TG + " :: fn set_err", wrap=TG,
         header_subs=[("(&self, err: OrPanic<E>)",
                       "(&self, err: OrPanic<E>, m: &mut Option<OrPanic<E>>, cancelled: &mut Ghost<bool>)   /* R-lock: m = the content of self.0.err while it is locked; cancelled = the scope context's flag */")],
         subs=[("let mut m = self.0.err.lock().unwrap();", "/* R-lock */"),
               ("self.0.ctx.cancel();", "ctx_cancel(&self.0.ctx, cancelled);   /* R-lock */")],
         spec="""
    // state invariant (established here, preserved here; the record starts empty): a recorded failure implies a cancelled context
    requires old(m).is_some() ==> old(cancelled)@,
    ensures
        // first error wins, a panic overrides an error, nothing overrides a panic
        *final(m) == keep(*old(m), err),
        // the scope's context is cancelled as soon as any task fails (and cancellation is never undone)
        final(m).is_some(), final(cancelled)@,
""")
    U.fn(F_STATE, "impl<E: 'static> Drop for CancelGuard<E> :: fn drop", wrap="impl<E: 'static> CancelGuard<E>", name="drop_cancel_guard",
         header_subs=[("(&mut self)", "(&mut self, cancelled: &mut Ghost<bool>)")],
         subs=[("self.terminate_guard().state().ctx.cancel();", "ctx_cancel(&self.terminate_guard().state().ctx, cancelled);   /* R-lock */")],
         spec="    ensures final(cancelled)@,      // when the last main task is done the scope's context is cancelled\n")
    U.fn(F_STATE, "impl<E: 'static> Drop for TerminateGuard<E> :: fn drop", wrap=TG, name="drop_terminate_guard",
         header_subs=[("(&mut self)", "(&mut self, sent: &mut Ghost<bool>)")],
         subs=[("self.state().terminated.send();", "signal_send(&self.state().terminated, sent);   /* R-lock */")],
         spec="    ensures final(sent)@,           // the terminate signal is sent when the last guard goes away\n")
    ST = "impl<E> State<E>"
    U.fn(F_STATE, ST + " :: fn terminated", wrap=ST, header_subs=[("(&self)", "(&self) -> (verif_r: ())   /* W-ret */")], spec="    ensures self.terminated.try_recv(),\n")
    # ---- task.rs
    U.raw(STUBS_TASK, label="stubs task")
    PR = "impl<E: 'static + Send> PanicReporter<E>"
    U.fn(F_TASK, PR + " :: fn new", wrap=PR, ret="r", spec="    ensures r.0 == Some(t),      // armed\n")
    U.fn(F_TASK, PR + " :: fn defuse", wrap=PR, ret="r",
         header_subs=[("(mut self)", "(self)   /* R-let: `mut self` is bound below */")],
         subs=[("self.0.take()", "{ let mut verif_self = self; verif_self.0.take() }   /* R-let */")], spec="    requires self.0.is_some(),\n    ensures Some(r) == self.0,\n")
    U.fn(F_TASK, "impl<E: 'static + Send> Drop for PanicReporter<E> :: fn drop", wrap=PR, name="drop_reporter",
         subs=[("t.guard().set_err(scope::OrPanic::Panic);", "t.guard().verif_set_err(OrPanic::Panic);   /* R-stub */")],
         spec="""
    ensures
        // an armed reporter that is dropped (the routine panicked and unwound) reports a panic to the task's scope
        old(self).0 matches Some(t) ==> reported(t.spec_guard(), OrPanic::<E>::Panic),
""")
    TK = "impl<E: 'static + Send> Task<E>"
    ARM = [("let panic_reporter = PanicReporter::new(self);",
            "let panic_reporter = PanicReporter::new(self); proof { verif_armed = true; }   /* W-ghost */"),
           ("let this = panic_reporter.defuse();", "let this = panic_reporter.defuse(); proof { verif_armed = false; }   /* W-ghost */"),
           ("this.guard().set_err(scope::OrPanic::Err(err));", "this.guard().verif_set_err(OrPanic::Err(err));   /* R-stub */")]
    POST = """
    ensures
        // success is handed through unchanged; a failed routine is reported to the scope BEFORE the wrapper returns Err
        r matches Ok(v) ==> routine_returned(Ok::<T, E>(v)),
        r.is_err() ==> exists|e: E| #[trigger] routine_returned(Err::<T, E>(e)) && reported(self.spec_guard(), OrPanic::Err(e)),
"""
    U.fn(F_TASK, TK + " :: fn run", wrap=TK, ret="r",
         proof_at_start="let ghost mut verif_armed: bool = false;   /* W-ghost: is the panic reporter armed? */",
         subs=ARM + [("let res = f.await;", "assert(verif_armed); let res = verif_await(f).await;   /* W-ghost + R-std: the routine runs only while a panic in it would be reported */")],
         spec=POST)
    U.fn(F_TASK, TK + " :: fn run_blocking", wrap=TK, ret="r",
         proof_at_start="let ghost mut verif_armed: bool = false;   /* W-ghost */",
         subs=ARM + [("let res = f();", "assert(verif_armed); let res = f(); proof { assume(routine_returned(res)); }   /* W-ghost: names the routine's result */")],
         spec="    requires f.requires(()),\n" + POST)
    # ---- mod.rs: what the scope returns, and when
    U.raw("""
// std::sync::Weak<G> (A1): upgrade() yields the guard while some task still holds it
#[verifier::external_body] #[verifier::accept_recursive_types(G)] pub struct WeakGuard<G> { _p: core::marker::PhantomData<G> }
impl<G> WeakGuard<G> {
    pub uninterp spec fn alive(&self) -> bool;
    #[verifier::external_body] pub fn upgrade(&self) -> (r: Option<Arc<G>>) ensures r.is_some() == self.alive() { unimplemented!() }
}
""", label="prelude weak")
    U.item(F_MOD, "struct Scope", subs=[("ctx::Ctx", "Ctx"), ("Weak<CancelGuard<E>>", "WeakGuard<CancelGuard<E>>"), ("Weak<TerminateGuard<E>>", "WeakGuard<TerminateGuard<E>>"),
                                         ("std::marker::PhantomData<fn(&'env ()) -> &'env ()>", "core::marker::PhantomData<&'env E>   /* R-type: variance marker */")])
    U.raw(STUBS_RUN + """
// R-stub for `unsafe { spawn(Box::pin(TASK.run(f))) }` / `unsafe { spawn_blocking(Box::new(move || TASK.run_blocking(f))) }`.
// A MAIN task must hold the cancel guard (the context stays active while it runs) unless all main tasks are already gone; a BACKGROUND
// task must not (it must not keep the context active): "cancelled ... when all main tasks have completed".
#[verifier::external_body]
pub fn verif_spawn_task<E: 'static, T, F>(task: Task<E>, f: F, Ghost(main_alive): Ghost<bool>, Ghost(want_main): Ghost<bool>) -> (r: JoinHandle<T>)
    requires want_main ==> (task is Main || !main_alive), !want_main ==> task is Background,
{ unimplemented!() }
""", label="stubs run")
    SCI = "impl<'env, E: 'static + Send> Scope<'env, E>"
    U.fn(F_MOD, SCI + " :: fn main_task", wrap=SCI, ret="r",
         spec="""
    requires self.cancel_guard.alive() || self.terminate_guard.alive(),
    ensures self.cancel_guard.alive() ==> r is Main, !self.cancel_guard.alive() ==> r is Background,
""")
    U.fn(F_MOD, SCI + " :: fn bg_task", wrap=SCI, ret="r",
         spec="""
    requires self.terminate_guard.alive(),       // "this unwrap is safe if spawn is called from within any scope task"
    ensures r is Background,
""")
    SPH = [("JoinHandle<'env, T>", "JoinHandle<T>"), ("impl 'env + Send + Future<Output = Result<T, E>>", "impl Future<Output = Result<T, E>>")]
    SPB = [("JoinHandle<'env, T>", "JoinHandle<T>"), ("impl 'env + Send + FnOnce() -> Result<T, E>", "impl FnOnce() -> Result<T, E>")]
    PRE = "    requires self.terminate_guard.alive(),      // called from within a task of this scope\n"
    U.fn(F_MOD, SCI + " :: fn spawn", wrap=SCI, ret="r", header_subs=SPH,
         subs=[("unsafe { spawn(Box::pin(self.$M().run(f))) }", "verif_spawn_task(self.$M(), f, Ghost(self.cancel_guard.alive()), Ghost(true))   /* R-stub */")], spec=PRE)
    U.fn(F_MOD, SCI + " :: fn spawn_bg", wrap=SCI, ret="r", header_subs=SPH,
         subs=[("unsafe { spawn(Box::pin(self.$M().run(f))) }", "verif_spawn_task(self.$M(), f, Ghost(self.cancel_guard.alive()), Ghost(false))   /* R-stub */")], spec=PRE)
    U.fn(F_MOD, SCI + " :: fn spawn_blocking", wrap=SCI, ret="r", header_subs=SPB,
         subs=[("unsafe { spawn_blocking(Box::new(move || task.run_blocking(f))) }", "verif_spawn_task(task, f, Ghost(self.cancel_guard.alive()), Ghost(true))   /* R-stub */")], spec=PRE)
    U.fn(F_MOD, SCI + " :: fn spawn_bg_blocking", wrap=SCI, ret="r", header_subs=SPB,
         subs=[("unsafe { spawn_blocking(Box::new(move || task.run_blocking(f))) }", "verif_spawn_task(task, f, Ghost(self.cancel_guard.alive()), Ghost(false))   /* R-stub */")], spec=PRE)
    U.fn(F_STATE, ST + " :: fn take_err", wrap=ST, ret="r",
         subs=[("debug_assert!(self.terminated.try_recv());", "assert(self.terminated.try_recv());   // R-dbg: a proof obligation"),
               ("std::mem::take(&mut *self.err.lock().unwrap())", "self.verif_take_locked()   /* R-stub */")],
         spec="    requires self.terminated.try_recv(),      // the recorded failure is read only after every task has finished\n    ensures outcome(r),\n")
    SC = "impl<'env, E: 'static + Send> Scope<'env, E>"
    TAIL = [("Some(OrPanic::Panic) => {\n                panic!($M)\n            }", "Some(OrPanic::Panic) => { verif_reraise_panic::<E, Result<T, E>>() }   /* R-std: panic! */"),
            ("None => Ok(root_task_result.unwrap()),",
             "None => { proof { axiom_root_ok_if_nothing_recorded::<T, E>(root_task_result); } Ok(root_task_result.unwrap()) },   /* W-ghost */")]
    U.fn(F_MOD, SC + " :: fn run", wrap=SC, ret="r",
         header_subs=[("ctx::Ctx", "Ctx")],
         regions=[("let guard = Arc::new(", "drop(guard);", "let (state, root_task) = verif_scope_setup::<E, T, F>(self, root_task);")],
         subs=[("let must_complete = must_complete::Guard;", "let must_complete = MustCompleteGuard;")] + TAIL,
         spec=TAIL_POST)
    U.fn(F_MOD, SC + " :: fn run_blocking", wrap=SC, ret="r",
         header_subs=[("ctx::Ctx", "Ctx")],
         regions=[("let guard = Arc::new(", "drop(guard);", "let (state, root_task) = verif_scope_setup::<E, T, F>(self, root_task);")],
         subs=[("ctx::block_on(root_task.join_raw())", "block_on_join(root_task)   /* R-std */"),
               ("ctx::block_on(state.terminated());", "block_on_terminated(&state);   /* R-std */")] + TAIL,
         spec=TAIL_POST)
    U.assume("A4: tasks, Arc reference counts and drop order are not modelled. What is decided is what each piece of code does when it "
             "runs: the join itself (every task holds a guard until it is done; the terminate signal fires when the last guard is "
             "dropped) is assumed, as is the propagation of cancellation to child contexts")
    U.assume("axiom_root_ok_if_nothing_recorded: composition of Task::run's and set_err's postconditions across tasks (stated, admitted)")
    U.assume("run_blocking: `assume(routine_returned(res))` only NAMES the value the routine returned (W-ghost), it constrains nothing")
    return U
