"""U-fetch (C19): the block fetch queue (sequential fragments: the closures that run under the watch lock, the request loop,
the acceptor, and the per-call task that signals completion)."""
from vx.unit import Unit
from units import roles_types as T
from units import common

F = "node/components/network/src/gossip/fetch.rs"
F_RUN = "node/components/network/src/gossip/runner.rs"

PRELUDE = r"""
// ---------------- prelude (A1: BTreeMap as an ordered finite map; A4: watch / oneshot / scope as documented) ----------------
#[verifier::external_body] pub struct Ctx { _p: u8 }
#[derive(Clone, Copy)] pub struct Canceled;                                   // ctx::Canceled
#[derive(Clone, Copy)] pub struct Disconnected;                               // sync::Disconnected
#[verifier::external_body] pub struct AnyhowError { _p: u8 }
#[verifier::external_body] pub fn anyhow_error() -> AnyhowError { unimplemented!() }
impl Ctx {
    pub uninterp spec fn cancelled(&self) -> bool;                            // the context has been cancelled (monotone, A4)
    #[verifier::external_body] pub fn is_active(&self) -> bool { unimplemented!() }
}
pub struct NoCopy<T>(pub T);                                                  // ctx::NoCopy
// oneshot channel halves: `id` names the channel
#[verifier::external_body] pub struct OneshotSender { _p: u8 }                // oneshot::Sender<()>
#[verifier::external_body] pub struct OneshotReceiver { _p: u8 }              // oneshot::Receiver<()>
impl OneshotSender { pub uninterp spec fn id(&self) -> int; }
impl OneshotReceiver { pub uninterp spec fn id(&self) -> int; }
#[verifier::external_body]
pub fn oneshot_channel() -> (r: (OneshotSender, OneshotReceiver)) ensures r.0.id() == r.1.id() { unimplemented!() }
// facts about the history of one channel / the shared queue; each is produced by exactly one stub below
pub uninterp spec fn registered(n: u64, id: int) -> bool;      // channel `id` was put into the shared queue under block number n
pub uninterp spec fn completed(id: int) -> bool;               // `()` was received on channel `id` (its sender signalled completion)
pub uninterp spec fn taken(n: u64, id: int) -> bool;           // the entry (n, sender of channel id) was removed from the shared queue by an acceptor
pub uninterp spec fn queued_for_storage(n: u64) -> bool;       // EngineManager::queue_block returned Ok for a block with number n

// BTreeMap<BlockNumber, oneshot::Sender<()>>
#[verifier::external_body] pub struct BlockInner { _p: u8 }
pub open spec fn is_min(q: Map<u64, int>, k: u64) -> bool { q.contains_key(k) && forall|j: u64| q.contains_key(j) ==> k <= j }
impl BlockInner {
    pub uninterp spec fn view(&self) -> Map<u64, int>;          // requested block number -> id of the completion channel
    #[verifier::external_body]
    pub fn insert(&mut self, k: BlockNumber, v: OneshotSender) -> (r: Option<OneshotSender>)
        ensures final(self)@ == old(self)@.insert(k.0, v.id()) { unimplemented!() }
    // A1: the first entry of a BTreeMap is the one with the least key
    #[verifier::external_body]
    pub fn first_key_value(&self) -> (r: Option<(&BlockNumber, &OneshotSender)>)
        ensures r.is_none() <==> (forall|j: u64| !self@.contains_key(j)),
                r matches Some(e) ==> is_min(self@, e.0.0) && e.1.id() == self@[e.0.0],
    { unimplemented!() }
    #[verifier::external_body]
    pub fn pop_first(&mut self) -> (r: Option<(BlockNumber, OneshotSender)>)
        ensures r.is_none() <==> (forall|j: u64| !old(self)@.contains_key(j)),
                r matches Some(e) ==> is_min(old(self)@, e.0.0) && e.1.id() == old(self)@[e.0.0] && final(self)@ == old(self)@.remove(e.0.0),
                r.is_none() ==> final(self)@ == old(self)@,
    { unimplemented!() }
    #[verifier::external_body]
    pub fn last_key_value(&self) -> (r: Option<(&BlockNumber, &OneshotSender)>)
        ensures r.is_none() <==> (forall|j: u64| !self@.contains_key(j)),
                r matches Some(e) ==> self@.contains_key(e.0.0) && (forall|j: u64| self@.contains_key(j) ==> j <= e.0.0) && e.1.id() == self@[e.0.0],
    { unimplemented!() }
    #[verifier::external_body]
    pub fn contains_key(&self, k: &BlockNumber) -> (r: bool) ensures r == self@.contains_key(k.0) { unimplemented!() }
    #[verifier::external_body]
    pub fn len(&self) -> (r: usize) ensures (r == 0) <==> (forall|j: u64| !self@.contains_key(j)) { unimplemented!() }
    #[verifier::external_body]
    pub fn remove(&mut self, k: &BlockNumber) -> (r: Option<OneshotSender>)
        ensures final(self)@ == old(self)@.remove(k.0),
                r.is_some() == old(self)@.contains_key(k.0), r matches Some(s) ==> s.id() == old(self)@[k.0],
    { unimplemented!() }
    #[verifier::external_body]
    pub fn remove_entry(&mut self, k: &BlockNumber) -> (r: Option<(BlockNumber, OneshotSender)>)
        ensures final(self)@ == old(self)@.remove(k.0),
                r.is_some() == old(self)@.contains_key(k.0), r matches Some(e) ==> e.0 == *k && e.1.id() == old(self)@[k.0],
    { unimplemented!() }
    #[verifier::external_body]
    pub fn is_empty(&self) -> (r: bool) ensures r <==> (forall|j: u64| !self@.contains_key(j)) { unimplemented!() }
}
// sync::watch::Sender<BlockInner> / Receiver<BlockInner>
#[verifier::external_body] pub struct BlocksSender { _p: u8 }
#[verifier::external_body] pub struct BlocksReceiver { _p: u8 }
impl BlocksSender { #[verifier::external_body] pub fn subscribe(&self) -> BlocksReceiver { unimplemented!() } }
// a queue content this subscription has observed (A4: the value of the watch channel at the time of the borrow)
pub uninterp spec fn observed(q: Map<u64, int>) -> bool;
impl BlocksReceiver {
    #[verifier::external_body]
    pub fn borrow_and_update(&mut self) -> (r: &BlockInner) ensures observed(r@) { unimplemented!() }
}
// what the remote peer has announced (sync::watch::Receiver<BlockStoreState>; BlockStoreState::contains is under contract in unit blockstore)
#[verifier::external_body] pub struct BlockStoreState { _p: u8 }
impl BlockStoreState {
    pub uninterp spec fn spec_contains(&self, n: BlockNumber) -> bool;
    #[verifier::external_body] pub fn contains(&self, n: BlockNumber) -> (r: bool) ensures r == self.spec_contains(n) { unimplemented!() }
    // the other accessors of BlockStoreState say nothing about whether a given block is stored (first may be above it)
    #[verifier::external_body] pub fn next(&self) -> BlockNumber { unimplemented!() }
    #[verifier::external_body] pub fn head(&self) -> Option<BlockNumber> { unimplemented!() }
}
#[verifier::external_body] pub struct AvailableReceiver { _p: u8 }
impl AvailableReceiver { pub uninterp spec fn chan(&self) -> int; }                       // which peer's announcement channel this is
pub uninterp spec fn announced(chan: int, st: &BlockStoreState) -> bool;                  // `st` is a value that channel held
// sync::wait_for(ctx, recv, pred): Ok only with a value of the channel for which the predicate returned true (A4)
#[verifier::external_body]
pub async fn wait_for_available<F: Fn(&BlockStoreState) -> bool>(ctx: &Ctx, w: &mut AvailableReceiver, f: F) -> (r: Result<(), Canceled>)
    requires forall|s: &BlockStoreState| #[trigger] f.requires((s,)),
    ensures r.is_ok() ==> exists|st: &BlockStoreState| announced(old(w).chan(), st) && #[trigger] f.ensures((st,), true),
            r.is_err() ==> ctx.cancelled(), final(w).chan() == old(w).chan(),
{ unimplemented!() }
#[verifier::external_body]
pub async fn changed_blocks(ctx: &Ctx, sub: &mut BlocksReceiver) -> (r: Result<(), Canceled>) { unimplemented!() }
pub struct Queue { pub blocks: BlocksSender }
"""

SPEC = r"""
// ---------------- specification (C19) ----------------
// the peer this acceptor serves has announced that it stores block k
pub open spec fn peer_has(chan: int, k: BlockNumber) -> bool { exists|st: &BlockStoreState| announced(chan, st) && #[trigger] st.spec_contains(k) }
// k was the LOWEST requested number in a queue content the acceptor observed
pub open spec fn was_lowest(k: BlockNumber) -> bool { exists|q: Map<u64, int>| observed(q) && #[trigger] is_min(q, k.0) }
"""

STUBS_REQUEST = r"""
// ---------------- stubs for Queue::request (A4: the closure passed to send_if_modified runs atomically on the shared queue) ----------------
// R-stub: `self.blocks.send_if_modified(<request_insert_closure>)`
#[verifier::external_body]
pub fn blocks_request_insert(b: &BlocksSender, n: BlockNumber, send: OneshotSender)
    ensures registered(n.0, send.id())
{ unimplemented!() }
// R-stub: `self.blocks.send_if_modified(<request_cancel_closure>)`
#[verifier::external_body]
pub fn blocks_request_cancel(b: &BlocksSender, n: BlockNumber) { unimplemented!() }
// oneshot::Receiver::recv_or_disconnected. Awaiting is only meaningful while the paired sender sits in the shared queue (W-ghost `reg`).
#[verifier::external_body]
pub async fn recv_or_disconnected(recv: OneshotReceiver, ctx: &Ctx, Ghost(n): Ghost<u64>) -> (r: Result<Result<(), Disconnected>, Canceled>)
    requires registered(n, recv.id()),
    ensures r matches Ok(Ok(_)) ==> completed(recv.id()),
            r.is_err() ==> ctx.cancelled(),
{ unimplemented!() }
"""

STUBS_ACCEPT = r"""
// ---------------- stubs for Queue::accept_block ----------------
// R-stub: `self.blocks.send_if_modified(<accept_remove_closure>)`: its effect on `res` is the closure's postcondition (A4: atomic)
#[verifier::external_body]
pub fn blocks_accept_remove(b: &BlocksSender, res: &mut Option<(BlockNumber, OneshotSender)>, block_number: BlockNumber)
    ensures *final(res) matches Some(e) ==> e.0 == block_number && taken(block_number.0, e.1.id()),
{ unimplemented!() }
"""

STUBS_TASK = r"""
// ---------------- prelude for the per-call task of gossip::Network::run_stream ----------------
pub const kB: usize = 1024;                                                   // zksync_protobuf::kB
#[verifier::external_body] pub struct Block { _p: u8 }                        // validator::Block (opaque here)
impl Block {
    pub uninterp spec fn num(&self) -> BlockNumber;
    #[verifier::external_body] pub fn number(&self) -> (r: BlockNumber) ensures r == self.num() { unimplemented!() }
}
pub struct RpcConfig { pub get_block_timeout: Option<Duration> }
pub struct Config { pub max_block_size: usize, pub rpc: RpcConfig }          // R-type: the members of gossip::Config used here
#[verifier::external_body] #[derive(Clone, Copy)] pub struct Duration { _p: u8 }
#[verifier::external_body] pub struct EngineManager { _p: u8 }
pub enum CtxError { Canceled(Canceled), Internal(AnyhowError) }
impl EngineManager {
    // unit blockstore: queue_block returns Ok only after the (verified) block was pushed to the store's queue
    #[verifier::external_body]
    pub async fn queue_block(&self, ctx: &Ctx, block: Block) -> (r: Result<(), CtxError>)
        ensures r.is_ok() ==> queued_for_storage(block.num().0) { unimplemented!() }
}
pub struct Network { pub cfg: Config, pub engine_manager: EngineManager, pub fetch_queue: Queue }   // R-type: the members used here
pub struct GetBlockReq(pub BlockNumber);                                      // rpc::get_block::Req
pub struct GetBlockResp(pub Option<Block>);                                   // rpc::get_block::Resp
#[verifier::external_body] pub struct ReservedCall { _p: u8 }                 // rpc::ReservedCall<get_block::Rpc>
impl ReservedCall {
    // the peer answers whatever it likes
    // "if the peer .. times out .. the request becomes available again": the call runs under the configured get_block timeout
    #[verifier::external_body]
    pub async fn call(self, ctx: &Ctx, req: &GetBlockReq, max_resp_size: usize, Ghost(configured): Ghost<Option<Duration>>) -> (r: Result<GetBlockResp, AnyhowError>)
        requires configured.is_some() ==> ctx.limit() == configured,
    { unimplemented!() }
}
// which time limit a context carries on top of the connection's context (None for the connection's own context: A4)
impl Ctx {
    pub uninterp spec fn limit(&self) -> Option<Duration>;
    #[verifier::external_body] pub fn with_timeout(&self, t: Duration) -> (r: Ctx) ensures r.limit() == Some(t) { unimplemented!() }
}
pub trait VerifContext<T> { fn context(self, c: ()) -> Result<T, AnyhowError>; }
impl<T> VerifContext<T> for Option<T> {      // anyhow::Context on Option: Some(v) -> Ok(v), None -> Err (A1)
    #[verifier::external_body] fn context(self, c: ()) -> (r: Result<T, AnyhowError>)
        ensures self.is_some() == r.is_ok(), self.is_some() ==> r == Result::<T, AnyhowError>::Ok(self->Some_0) { unimplemented!() }
}
impl<T> VerifContext<T> for Result<T, CtxError> {      // anyhow::Context keeps Ok-ness and the value (A1)
    #[verifier::external_body] fn context(self, c: ()) -> (r: Result<T, AnyhowError>)
        ensures self.is_ok() == r.is_ok(), self.is_ok() ==> r == Result::<T, AnyhowError>::Ok(self->Ok_0) { unimplemented!() }
}
impl OneshotSender {
    // signalling completion makes the requester stop asking: allowed only once the block this channel was registered for is on its way to storage
    #[verifier::external_body]
    pub fn send(self, v: ()) -> (r: Result<(), ()>)
        requires exists|n: u64| #[trigger] taken(n, self.id()) && queued_for_storage(n),
    { unimplemented!() }
}
"""


def build(repo):
    U = Unit("fetch", ["C19"], desc="block fetch queue", uses=T.USES)
    U.repo = repo
    U.item(T.F_BLOCK, "struct BlockNumber", attrs=T.D_COPY)
    U.raw("pub open spec fn ord_u64(a: u64, b: u64) -> Ordering {\n    if a < b { Ordering::Less } else if a == b { Ordering::Equal } else { Ordering::Greater } }\n", label="ord")
    U.raw(T.ord_newtype("BlockNumber"), label="derive(PartialOrd) spec")
    U.raw(common.STD_COMBINATORS + PRELUDE + SPEC, label="prelude fetch")
    U.item(F, "enum RequestItem", subs=[("validator::BlockNumber", "BlockNumber")])
    # ---- the three closures that run under the watch lock
    U.lift_closure(F, "impl Queue :: fn request", "|x| {", "request_insert_closure",
                   "(x: &mut BlockInner, n: BlockNumber, send: OneshotSender) -> (r: bool)", nth=0, of=2,
                   post_subs=[("x.insert(n, send);", "x.insert(n, send); proof { assert(x@.contains_key(n.0)); }   /* W-ghost: the queue is not empty now */")],
                   spec="""
    ensures final(x)@ == old(x)@.insert(n.0, send.id()),        // the request is in the queue, nothing else changed
            is_min(final(x)@, n.0) ==> r,                       // acceptors are woken whenever the lowest requested block changed
""")
    U.lift_closure(F, "impl Queue :: fn request", "|x| {", "request_cancel_closure",
                   "(x: &mut BlockInner, n: BlockNumber) -> (r: bool)", nth=1, of=2,
                   subs=[(".is_some_and(|(k, _)| k == &n)",
                          ".is_some_and(|verif_e: (&BlockNumber, &OneshotSender)| -> (verif_b: bool) ensures verif_b == (*verif_e.0 == n) { let (k, _) = verif_e; k == &n })   /* W-closure + R-tuplepat */")],
                   spec="""
    ensures final(x)@ == old(x)@.remove(n.0),                   // only the cancelled request leaves the queue
            (is_min(old(x)@, n.0)) ==> r,
""")
    U.lift_closure(F, "impl Queue :: fn accept_block", "|x| {", "accept_remove_closure",
                   "(x: &mut BlockInner, res: &mut Option<(BlockNumber, OneshotSender)>, block_number: BlockNumber) -> (r: bool)",
                   subs=[("res = x.", "*res = x.   /* R-closure: captured by mutable reference */")],
                   spec="""
    ensures
        // handed out at most once: the entry leaves the queue in the same critical section in which it is read
        final(x)@ == old(x)@.remove(block_number.0),
        final(res).is_some() == old(x)@.contains_key(block_number.0),
        *final(res) matches Some(e) ==> e.0 == block_number && e.1.id() == old(x)@[block_number.0],
        // the other acceptors are woken when the lowest requested block changed and something is left to serve
        (is_min(old(x)@, block_number.0) && (exists|j: u64| final(x)@.contains_key(j))) ==> r,
""")
    # ---- Queue::request
    U.raw(STUBS_REQUEST, label="stubs request")
    U.fn(F, "impl Queue :: fn request", wrap="impl Queue", ret="res",
         attrs="#[verifier::exec_allows_no_decreases_clause]",
         header_subs=[("ctx::Ctx", "Ctx"), ("ctx::OrCanceled<()>", "Result<(), Canceled>")],
         subs=[("let (send, recv) = oneshot::channel();\n            match r { RequestItem::Block(n) => self.blocks.send_if_modified(|x| { $B }), };",
                "let (send, recv) = oneshot_channel(); match r { RequestItem::Block(n) => { blocks_request_insert(&self.blocks, n, send); } };   /* R-stub: closure verified as request_insert_closure */"),
               ("RequestItem::Block(n) => self.blocks.send_if_modified(|x| { $B }),",
                "RequestItem::Block(n) => { blocks_request_cancel(&self.blocks, n); }   /* R-stub: closure verified as request_cancel_closure */"),
               ("recv.recv_or_disconnected(ctx).await", "recv_or_disconnected(recv, ctx, Ghost(match r { RequestItem::Block(n) => n.0 })).await   /* W-ghost */"),
               ("Ok(Err(sync::Disconnected))", "Ok(Err(Disconnected))"), ("Err(ctx::Canceled)", "Err(Canceled)", 2)],
         loops={0: dict(prefix="loop", inv="true")},
         spec="""
    ensures
        // the request stays in the queue until it is fulfilled or the requester gives up: Ok only after completion was signalled on a
        // channel this call registered under the requested number, Err only when the caller's context was cancelled. Whenever the
        // acceptor drops the channel instead (peer failed / timed out / disconnected) neither holds, so the loop registers the request again
        // (the await is only reachable with a freshly registered channel: precondition of recv_or_disconnected).
        res.is_ok() ==> exists|id: int| registered((match r { RequestItem::Block(n) => n.0 }), id) && #[trigger] completed(id),
        res.is_err() ==> ctx.cancelled(),
""")
    # ---- Queue::accept_block: the task that waits for the peer to announce block n
    U.lift_closure(F, "impl Queue :: fn accept_block", "s.spawn::<()>(async {", "accept_wait_task",
                   "(ctx: &Ctx, available: &mut AvailableReceiver, n: NoCopy<BlockNumber>, block_number: &mut Option<BlockNumber>) -> (r: Result<(), Canceled>)",
                   block=True, fn_kw="async fn",
                   subs=[("sync::wait_for(ctx, available, |a| $E)",
                          "wait_for_available(ctx, available, |a: &BlockStoreState| -> (b: bool) ensures b ==> a.spec_contains(n.0) { $E })   /* W-closure: the wait ends only on an announcement that contains block n */"),
                         ("block_number = Some(n.0);", "*block_number = Some(n.0);   /* R-block: captured by mutable reference */"),
                         ("Err(ctx::Canceled)", "Err(Canceled)")],
                   spec="""
    ensures
        // a block number is reported only after THIS peer announced that it stores that block
        *final(block_number) == *old(block_number) || (*final(block_number) == Some(n.0) && peer_has(old(available).chan(), n.0)),
        final(available).chan() == old(available).chan(),
""")
    U.lift_closure(F, "impl Queue :: fn accept_block", "scope::run!(ctx, |ctx, s| async {", "accept_wait",
                   "(ctx: &Ctx, sub: &mut BlocksReceiver, available: &mut AvailableReceiver, block_number: &mut Option<BlockNumber>) -> (r: Result<(), Canceled>)",
                   block=True, fn_kw="async fn",
                   subs=[(".map(|x| *x.0)",
                          ".map(|x: (&BlockNumber, &OneshotSender)| -> (k: BlockNumber) ensures k == *x.0 { *x.0 })   /* W-closure */"),
                         ("let n = ctx::NoCopy(n);", "let n = NoCopy(n);"),
                         ("s.spawn::<()>(async { $B });", "let _ = accept_wait_task(ctx, available, n, block_number).await;   /* R-spawn: the spawned task (verified as accept_wait_task) run in line; it is cancelled with the scope */"),
                         ("sync::changed(ctx, sub).await?;", "changed_blocks(ctx, sub).await?;"),
                         ("Err(ctx::Canceled)", "Err(Canceled)")],
                   spec="""
    requires old(block_number).is_none(),
    ensures
        // lowest missing block first, and only from a peer that has it
        *final(block_number) matches Some(k) ==> was_lowest(k) && peer_has(old(available).chan(), k),
        final(available).chan() == old(available).chan(),
""")
    U.raw(STUBS_ACCEPT, label="stubs accept")
    U.fn(F, "impl Queue :: fn accept_block", wrap="impl Queue", ret="r",
         attrs="#[verifier::exec_allows_no_decreases_clause]",
         header_subs=[("ctx::Ctx", "Ctx"), ("sync::watch::Receiver<BlockStoreState>", "AvailableReceiver"),
                      ("ctx::OrCanceled<BlockCall>", "Result<(BlockNumber, OneshotSender), Canceled>")],
         subs=[("let sub = &mut self.blocks.subscribe();", "let mut verif_sub = self.blocks.subscribe(); let sub = &mut verif_sub;   /* R-let */"),
               ("let _: Result<(), _> = scope::run!(ctx, |ctx, s| async { $B })\n            .await;",
                "let _: Result<(), Canceled> = accept_wait(ctx, sub, available, &mut block_number).await;   /* R-stub: scope body verified as accept_wait */"),
               ("self.blocks.send_if_modified(|x| { $B });",
                "blocks_accept_remove(&self.blocks, &mut res, block_number);   /* R-stub: closure verified as accept_remove_closure */"),
               ("Err(ctx::Canceled)", "Err(Canceled)")],
         loops={0: dict(prefix="while ctx.is_active()", inv="available.chan() == old(available).chan()")},
         spec="""
    ensures
        // a request is handed to this peer connection only if (1) it was taken out of the shared queue by THIS call (so no other
        // acceptor holds it), (2) it was the lowest requested block when the acceptor looked, (3) the peer announced that it stores it
        r matches Ok(call) ==> taken(call.0.0, call.1.id()) && was_lowest(call.0) && peer_has(old(available).chan(), call.0),
""")

    # ---- gossip::Network::run_stream: the task that performs the get_block call for an accepted request and signals completion
    U.raw(STUBS_TASK, label="prelude call task")
    U.lift_closure(F_RUN, "impl Network :: fn run_stream", "async {\n                            let ctx_with_timeout", "get_block_call_task",
                   "(this: &Network, ctx: &Ctx, call: ReservedCall, req: GetBlockReq, send_resp: OneshotSender) -> (r: Result<(), AnyhowError>)",
                   block=True, fn_kw="async fn", brace_at=1,
                   subs=[("self.", "this.", None),
                         (".map(|t| ctx.with_timeout(t))", ".map(|t: Duration| -> (verif_c: Ctx) ensures verif_c.limit() == Some(t) { ctx.with_timeout(t) })   /* W-closure */"),
                         (".call(ctx, &req, $M)", ".call(ctx, &req, $M, Ghost(this.cfg.rpc.get_block_timeout))   /* W-ghost */"),
                         ("anyhow::Ok(())", "Ok(())")],
                   spec="""
    requires taken(req.0.0, send_resp.id()),       // (req, send_resp) is what accept_block returned: postcondition of Queue::accept_block
    ensures true,
""")

    U.raw(r"""
#[verifier::external_body] pub struct AvailableSender { _p: u8 }             // sync::watch::Sender<BlockStoreState> of this connection's PushServer
impl AvailableSender { #[verifier::external_body] pub fn subscribe(&self) -> AvailableReceiver { unimplemented!() } }
pub struct PushServer { pub blocks: AvailableSender }                         // R-type: the member used here
#[verifier::external_body] pub struct GetBlockClient { _p: u8 }               // rpc::Client<get_block::Rpc>
impl GetBlockClient {
    #[verifier::external_body] pub async fn reserve(&self, ctx: &Ctx) -> (r: Result<ReservedCall, CtxError>) { unimplemented!() }
}
""", label="prelude get_block loop")
    U.lift_closure(F_RUN, "impl Network :: fn run_stream", "async {\n                let state = &mut push_server.blocks.subscribe();", "get_block_loop",
                   "(this: &Network, ctx: &Ctx, push_server: &PushServer, get_block_client: &GetBlockClient) -> (r: Result<(), CtxError>)",
                   block=True, fn_kw="async fn", brace_at=1, attrs="#[verifier::exec_allows_no_decreases_clause]",
                   subs=[("self.", "this.", None),
                         ("let state = &mut push_server.blocks.subscribe();", "let mut verif_state = push_server.blocks.subscribe(); let state = &mut verif_state;   /* R-let */"),
                         ("this.fetch_queue.accept_block(ctx, state).await?", "this.fetch_queue.accept_block(ctx, state).await.map_err(|verif_e| CtxError::Canceled(verif_e))?   /* R-try */"),
                         ("rpc::get_block::Req(req)", "GetBlockReq(req)"),
                         ("s.spawn(async { $B });", "let _ = get_block_call_task(this, ctx, call, req, send_resp).await;   /* R-spawn: the per-call task (verified as get_block_call_task: its precondition is the obligation here) */")],
                   spec="    ensures true,\n")
    U.assume("A4: closures passed to watch::Sender::send_if_modified run atomically on the shared queue; oneshot / watch / scope "
             "behave as documented. Interleavings between requester, acceptors and per-call tasks are not modelled: the task spawned "
             "inside accept_block's scope is verified as a function and run in line (R-spawn)")
    U.assume("A1: BTreeMap is an ordered finite map: first_key_value returns the entry with the least key")
    return U
