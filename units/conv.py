"""U-conv (C09, conversion layer): `ProtoFmt::read(&x.build()) == Ok(x)` for the message types, on the real impl blocks.

The prost message types are generated mechanically from the .proto files of /repo on every run (vx/protogen.py). The trait
`ProtoFmt` is declared in the prelude with the round-trip contract taken from the property statement:
    build  ensures  p == self.enc()
    read   ensures  forall x. x.enc() == *r  ==>  res == Ok(x)
`enc` (one open spec fn per type) is the wire schema mapping. Every `impl ProtoFmt for X` block is copied from /repo and must
satisfy the trait's contract; the generic helpers `required / read_required / read_optional` are the repository's.
"""
from vx.unit import Unit
from vx import protogen
from units import roles_types as T
from units import qc as Q
from units import common

P = "node/libs/protobuf/src/"
F_PF = P + "proto_fmt.rs"
F_STD = P + "std_conv.rs"
R = "node/libs/roles/src/"
PV = R + "proto/validator/"
F_CONS = T.M + "consensus.rs"
F_CONS2 = T.V2 + "consensus.rs"
F_STATE = T.V2 + "state.rs"
F_STATE0 = T.M + "state.rs"

NP = "node/components/network/src/proto/"
PROTO_FILES = [("zksync.std", "std", [P + "proto/std.proto"]),
               ("zksync.roles.validator", "", [PV + "keys.proto", PV + "genesis.proto", PV + "v2.proto", PV + "discovery.proto",
                                               PV + "consensus.proto"]),
               ("zksync.roles.node", "node", [R + "proto/node.proto"]),
               ("zksync.network.gossip", "gossip", [NP + "gossip.proto"]),
               ("zksync.network.consensus", "consensus", [NP + "consensus.proto"]),
               ("zksync.network.preface", "preface", [NP + "preface.proto"]),
               ("zksync.network.ping", "ping", [NP + "ping.proto"])]

PRELUDE = r"""
// ---------------- prelude: the ProtoFmt trait with the round-trip contract of C09 (conversion layer) ----------------
pub trait ProtoFmt: Sized {
    type Proto;
    // the wire schema mapping: which proto value represents `self`
    spec fn enc(&self) -> Self::Proto;
    // "every value ... decodes back to an equal value after encoding"
    fn read(r: &Self::Proto) -> (res: Result<Self, AnyhowError>)
        ensures forall|x: Self| #[trigger] x.enc() == *r ==> res == Ok::<Self, AnyhowError>(x);
    // "equal values always encode to identical [messages]": the encoding is a function of the value
    fn build(&self) -> (p: Self::Proto)
        ensures p == self.enc();
}
// anyhow::Context (texts dropped by R-errmsg) -- A1
pub trait VerifContext<T> { fn context(self, c: ()) -> Result<T, AnyhowError>; }
impl<T, E> VerifContext<T> for Result<T, E> {
    #[verifier::external_body] fn context(self, c: ()) -> (r: Result<T, AnyhowError>)
        ensures r.is_ok() == self.is_ok(), self.is_ok() ==> r == Result::<T, AnyhowError>::Ok(self->Ok_0) { unimplemented!() }
}
pub trait VerifContextOpt<T> { fn context(self, c: ()) -> Result<T, AnyhowError>; }
impl<T> VerifContextOpt<T> for Option<T> {
    #[verifier::external_body] fn context(self, c: ()) -> (r: Result<T, AnyhowError>)
        ensures r.is_ok() == self.is_some(), self.is_some() ==> r == Result::<T, AnyhowError>::Ok(self->Some_0) { unimplemented!() }
}
// A1: Rust's `==` on Vec compares contents (capacity is not observable)
pub broadcast axiom fn vec_u8_ext(a: Vec<u8>, b: Vec<u8>) requires #[trigger] a@ == #[trigger] b@ ensures a == b;
pub uninterp spec fn vec_of(s: Seq<u8>) -> Vec<u8>;
pub broadcast axiom fn vec_of_view(s: Seq<u8>) ensures (#[trigger] vec_of(s))@ == s;

// A1: Vec equality is content equality, for any element type
pub broadcast axiom fn vec_ext<T>(a: Vec<T>, b: Vec<T>) requires #[trigger] a@ == #[trigger] b@ ensures a == b;
pub open spec fn opt_enc<T: ProtoFmt>(o: Option<T>) -> Option<T::Proto> {
    match o { Some(x) => Some(x.enc()), None => None }
}
pub open spec fn seq_enc<T: ProtoFmt>(s: Seq<T>) -> Seq<T::Proto> { s.map_values(|x: T| x.enc()) }
#[verifier::external_body] pub uninterp spec fn vec_of_seq<T>(s: Seq<T>) -> Vec<T>;
pub broadcast axiom fn vec_of_seq_view<T>(s: Seq<T>) ensures (#[trigger] vec_of_seq(s))@ == s;
// A1: slice.iter().map(F).collect::<Vec<_>>()
#[verifier::external_body]
pub fn tmpl_iter_map_collect<A, B, F: FnMut(&A) -> B>(v: &Vec<A>, f: F, Ghost(g): Ghost<spec_fn(A) -> B>) -> (r: Vec<B>)
    requires forall|i: int| 0 <= i < v@.len() ==> f.requires((&#[trigger] v@[i],)),
             forall|i: int, b: B| 0 <= i < v@.len() && #[trigger] f.ensures((&v@[i],), b) ==> b == g(v@[i]),
    ensures r@ == v@.map_values(g),
{ unimplemented!() }
// A1: slice.iter().map(F).collect::<Result<Vec<_>, E>>(): Ok with all results, or an error that one of the calls returned
#[verifier::external_body]
pub fn tmpl_iter_map_collect_result<A, B, F: FnMut(&A) -> Result<B, AnyhowError>>(v: &Vec<A>, f: F) -> (r: Result<Vec<B>, AnyhowError>)
    requires forall|i: int| 0 <= i < v@.len() ==> f.requires((&#[trigger] v@[i],)),
    ensures r matches Ok(w) ==> w@.len() == v@.len() && forall|i: int| 0 <= i < v@.len() ==> f.ensures((&#[trigger] v@[i],), Ok(w@[i])),
            r matches Err(_) ==> exists|i: int, e: AnyhowError| 0 <= i < v@.len() && #[trigger] f.ensures((&v@[i],), Err(e)),
{ unimplemented!() }

// A2: bit_vec::BitVec::{to_bytes, from_bytes, truncate} as documented: bit i lives in byte i/8 at position 7 - i%8 (MSB first),
// to_bytes pads the last byte with zeros, from_bytes yields 8 bits per byte, truncate keeps a prefix
pub uninterp spec fn byte_bit(b: u8, k: int) -> bool;          // bit k (0 = most significant) of a byte
pub uninterp spec fn bv_bytes(s: Seq<bool>) -> Seq<u8>;        // BitVec::to_bytes as a function of the bits
pub broadcast axiom fn bv_bytes_spec(s: Seq<bool>)
    ensures (#[trigger] bv_bytes(s)).len() == (s.len() + 7) / 8,
            forall|i: int| 0 <= i < s.len() ==> byte_bit(bv_bytes(s)[i / 8], i % 8) == #[trigger] s[i];
impl BitVec {
    #[verifier::external_body]
    pub fn to_bytes(&self) -> (r: Vec<u8>) ensures r@ == bv_bytes(self@) { unimplemented!() }
    #[verifier::external_body]
    pub fn from_bytes(bytes: &[u8]) -> (r: Self)
        ensures r@.len() == 8 * bytes@.len(), forall|i: int| 0 <= i < r@.len() ==> #[trigger] r@[i] == byte_bit(bytes@[i / 8], i % 8) { unimplemented!() }
    #[verifier::external_body]
    pub fn truncate(&mut self, len: usize)
        ensures final(self)@ == (if len < old(self)@.len() { old(self)@.take(len as int) } else { old(self)@ }) { unimplemented!() }
}

// A3: byte codecs of the cryptographic leaf types (ByteFmt of keccak digests and of BLS keys/signatures via blst) round-trip
pub trait ByteFmt: Sized {
    spec fn bytes(&self) -> Seq<u8>;
    fn decode(bytes: &[u8]) -> (res: Result<Self, AnyhowError>)
        ensures forall|x: Self| #[trigger] x.bytes() == bytes@ ==> res == Ok::<Self, AnyhowError>(x);
    fn encode(&self) -> (r: Vec<u8>) ensures r@ == self.bytes();
}
impl ByteFmt for Keccak256 {
    uninterp spec fn bytes(&self) -> Seq<u8>;
    #[verifier::external_body] fn decode(bytes: &[u8]) -> (res: Result<Self, AnyhowError>) { unimplemented!() }
    #[verifier::external_body] fn encode(&self) -> (r: Vec<u8>) { unimplemented!() }
}
"""

# leaf ProtoFmt impls whose bodies go through blst / bit_vec: assumed to satisfy the trait contract (A3 / A2)
LEAVES = r"""
impl ProtoFmt for PublicKey {              // A3: keys/public_key.rs (ByteFmt of the bn254 key via blst)
    type Proto = proto::PublicKey;
    uninterp spec fn enc(&self) -> proto::PublicKey;
    #[verifier::external_body] fn read(r: &Self::Proto) -> (res: Result<Self, AnyhowError>) { unimplemented!() }
    #[verifier::external_body] fn build(&self) -> (p: Self::Proto) { unimplemented!() }
}
impl ProtoFmt for Signature {              // A3: keys/signature.rs
    type Proto = proto::Signature;
    uninterp spec fn enc(&self) -> proto::Signature;
    #[verifier::external_body] fn read(r: &Self::Proto) -> (res: Result<Self, AnyhowError>) { unimplemented!() }
    #[verifier::external_body] fn build(&self) -> (p: Self::Proto) { unimplemented!() }
}
impl ProtoFmt for AggregateSignature {     // A3: keys/aggregate_signature.rs
    type Proto = proto::AggregateSignature;
    uninterp spec fn enc(&self) -> proto::AggregateSignature;
    #[verifier::external_body] fn read(r: &Self::Proto) -> (res: Result<Self, AnyhowError>) { unimplemented!() }
    #[verifier::external_body] fn build(&self) -> (p: Self::Proto) { unimplemented!() }
}
"""

BU = "broadcast use vec_u8_ext, vec_of_view, vec_ext, vec_of_seq_view;"
TQC_CONV = r"""
// A1 (BTreeMap with the derived Ord of ReplicaTimeout): iteration order is strictly increasing in an (uninterpreted) total order;
// a map is determined by its entries; inserting a key greater than every present key appends it
pub uninterp spec fn rt_lt(a: ReplicaTimeout, b: ReplicaTimeout) -> bool;
pub axiom fn tqc_sorted(m: TqcMap, i: int, j: int)
    requires 0 <= i < j < m.entries().len(),
    ensures rt_lt(m.entries()[i].0, m.entries()[j].0);
pub broadcast axiom fn tqcmap_ext(a: TqcMap, b: TqcMap) requires #[trigger] a.entries() == #[trigger] b.entries() ensures a == b;
impl TqcMap {
    #[verifier::external_body]
    pub fn insert(&mut self, k: ReplicaTimeout, v: Signers) -> (r: Option<Signers>)
        ensures (forall|j: int| 0 <= j < old(self).entries().len() ==> rt_lt(#[trigger] old(self).entries()[j].0, k))
                    ==> final(self).entries() == old(self).entries().push((k, v)),
    { unimplemented!() }
}
pub open spec fn tqc_msgs(en: Seq<(ReplicaTimeout, Signers)>) -> Seq<proto::ReplicaTimeoutV2> { Seq::new(en.len(), |j: int| en[j].0.enc()) }
pub open spec fn tqc_signers(en: Seq<(ReplicaTimeout, Signers)>) -> Seq<proto::std::BitVector> { Seq::new(en.len(), |j: int| en[j].1.enc()) }
// A1: map.iter().map(F).unzip::<_, _, Vec<_>, Vec<_>>() -- entries in key order, results split componentwise
#[verifier::external_body]
pub fn tmpl_tqcmap_iter_map_unzip<A, B, F: FnMut((&ReplicaTimeout, &Signers)) -> (A, B)>(m: &TqcMap, f: F,
        Ghost(g): Ghost<spec_fn((ReplicaTimeout, Signers)) -> (A, B)>) -> (r: (Vec<A>, Vec<B>))
    requires forall|j: int| 0 <= j < m.entries().len() ==> f.requires(((&(#[trigger] m.entries()[j]).0, &m.entries()[j].1),)),
             forall|j: int, o: (A, B)| 0 <= j < m.entries().len() && #[trigger] f.ensures(((&m.entries()[j].0, &m.entries()[j].1),), o) ==> o == g(m.entries()[j]),
    ensures r.0@.len() == m.entries().len(), r.1@.len() == m.entries().len(),
            forall|j: int| 0 <= j < m.entries().len() ==> r.0@[j] == g(#[trigger] m.entries()[j]).0 && r.1@[j] == g(m.entries()[j]).1,
{ unimplemented!() }
"""
NET_LEAVES = r"""
// std_conv.rs: ProtoFmt for std::net::SocketAddr and time::Utc -- decided by the Kani group std_conv on the real crate, assumed here
#[verifier::external_body] pub struct SocketAddr { _p: u8 }
#[verifier::external_body] #[derive(Clone, Copy)] pub struct Utc { _p: u8 }
// what code may do with a time::Utc (derive(Ord), the epoch constant): enough for changed code to type-check (A1)
impl Utc { #[verifier::external_body] pub fn max(self, other: Utc) -> (r: Utc) ensures r == self || r == other { unimplemented!() }
           #[verifier::external_body] pub fn min(self, other: Utc) -> (r: Utc) ensures r == self || r == other { unimplemented!() } }
#[verifier::external_body] pub fn utc_unix_epoch() -> Utc { unimplemented!() }      // time::UNIX_EPOCH
impl ProtoFmt for SocketAddr {
    type Proto = proto::std::SocketAddr;
    uninterp spec fn enc(&self) -> proto::std::SocketAddr;
    #[verifier::external_body] fn read(r: &Self::Proto) -> (res: Result<Self, AnyhowError>) { unimplemented!() }
    #[verifier::external_body] fn build(&self) -> (p: Self::Proto) { unimplemented!() }
}
impl ProtoFmt for Utc {
    type Proto = proto::std::Timestamp;
    uninterp spec fn enc(&self) -> proto::std::Timestamp;
    #[verifier::external_body] fn read(r: &Self::Proto) -> (res: Result<Self, AnyhowError>) { unimplemented!() }
    #[verifier::external_body] fn build(&self) -> (p: Self::Proto) { unimplemented!() }
}
"""

VARIANT = r"""
// enum_util::Variant with the contract "extract undoes insert" (taken from its documentation: insert/extract of an enum variant)
pub struct BadVariantError;
#[verifier::external_body] pub fn verif_clone<V: Clone>(x: &V) -> (r: V) ensures r == *x { x.clone() }   // A1: derive(Clone)
pub trait Variant: Sized {
    spec fn ins(self) -> Msg;
    fn insert(self) -> (m: Msg) ensures m == self.ins();
    fn extract(msg: Msg) -> (r: Result<Self, BadVariantError>)
        ensures forall|v: Self| #[trigger] v.ins() == msg ==> r == Ok::<Self, BadVariantError>(v);
}
"""

RULES = ("R-log", "R-errmsg", "R-underscore", "R-ctorfn")
HS = [("anyhow::Result<Self>", "Result<Self, AnyhowError>", None), ("zksync_protobuf::proto::std::", "proto::std::", None)]


def impl(U, file, ty, proto_ty, enc, read=None, build=None, label=None, props=None):
    """one `impl ProtoFmt for <ty>` block; enc = body of the spec fn."""
    rd = dict(header_subs=HS, rules_=RULES, ret="res", proof_at_start=BU)
    rd.update(read or {})
    bd = dict(header_subs=HS, rules_=RULES, ret="p", proof_at_start=BU)
    PATHS = [("zksync_protobuf::proto::std::", "proto::std::", None)]
    bd["subs"] = [("Self::Proto {", proto_ty + " {   /* R-path: associated type alias */", None)] + PATHS + (bd.get("subs") or [])
    if build:
        b2 = dict(build)
        b2["subs"] = bd["subs"] + (b2.get("subs") or [])
        bd.update(b2)
    rd["subs"] = [("Self::Proto {", proto_ty + " {", None)] + PATHS + (rd.get("subs") or [])
    U.trait_impl(file, "impl ProtoFmt for " + ty,
                 extra="    open spec fn enc(&self) -> " + proto_ty + " {\n        " + enc.strip() + "\n    }",
                 fns=dict(read=rd, build=bd), header_subs=HS, label=label, props=props)


ROUNDTRIP = r"""
// ---------------- C09 (conversion layer): the property, as a consequence of the trait contract, per message type ----------------
pub fn roundtrip<T: ProtoFmt>(x: &T) -> (r: Result<T, AnyhowError>)
    ensures r == Ok::<T, AnyhowError>(*x)
{
    let p = x.build();
    T::read(&p)
}
"""


NODE_PRELUDE = r"""
// ---------------- roles::node (ed25519 keys are assumed leaves, A3) ----------------
#[verifier::external_body] pub struct PublicKey { _p: u8 }      // node::PublicKey (ed25519)
#[verifier::external_body] pub struct Signature { _p: u8 }      // node::Signature (ed25519)
impl ProtoFmt for PublicKey {
    type Proto = proto::node::PublicKey;
    uninterp spec fn enc(&self) -> proto::node::PublicKey;
    #[verifier::external_body] fn read(r: &Self::Proto) -> (res: Result<Self, AnyhowError>) { unimplemented!() }
    #[verifier::external_body] fn build(&self) -> (p: Self::Proto) { unimplemented!() }
}
impl ProtoFmt for Signature {
    type Proto = proto::node::Signature;
    uninterp spec fn enc(&self) -> proto::node::Signature;
    #[verifier::external_body] fn read(r: &Self::Proto) -> (res: Result<Self, AnyhowError>) { unimplemented!() }
    #[verifier::external_body] fn build(&self) -> (p: Self::Proto) { unimplemented!() }
}
pub trait Variant: Sized {
    spec fn ins(self) -> Msg;
    fn insert(self) -> (m: Msg) ensures m == self.ins();
    fn extract(msg: Msg) -> (r: Result<Self, BadVariantError>)
        ensures forall|v: Self| #[trigger] v.ins() == msg ==> r == Ok::<Self, BadVariantError>(v);
}
"""

NET_PRELUDE = r"""
// semver::Version <-> its string form (A2: Version::to_string / str::parse round-trip)
#[verifier::external_body] pub struct Version { _p: u8 }
#[verifier::external_body] pub struct SemverError { _p: u8 }
pub uninterp spec fn ver_str(v: Version) -> String;
#[verifier::external_body] pub fn verif_parse_version(x: &String) -> (r: Result<Version, SemverError>)      // R-std: x.parse()
    ensures forall|v: Version| #[trigger] ver_str(v) == *x ==> r == Ok::<Version, SemverError>(v) { unimplemented!() }
#[verifier::external_body] pub fn verif_version_to_string(v: &Version) -> (r: String) ensures r == ver_str(*v) { unimplemented!() }   // R-std: v.to_string()
// A1: <[u8; 32]>::try_from(&v[..]) succeeds iff the length is 32 and then has the same bytes; <Vec<u8>>::from([u8; 32])
#[verifier::external_body] pub fn verif_try_into_32(v: &Vec<u8>) -> (r: Result<[u8; 32], AnyhowError>)
    ensures v@.len() == 32 ==> (r matches Ok(a) && a@ == v@), v@.len() != 32 ==> r.is_err() { unimplemented!() }
#[verifier::external_body] pub fn verif_arr_to_vec(a: &[u8; 32]) -> (r: Vec<u8>) ensures r@ == a@ { unimplemented!() }
pub broadcast axiom fn arr32_ext(a: [u8; 32], b: [u8; 32]) requires #[trigger] a@ == #[trigger] b@ ensures a == b;   // A1: array equality is content equality
// A1: prost's Default for a message is "every field absent"
impl proto::gossip::GetBlockResponse {
    #[verifier::external_body] pub fn default() -> (r: Self) ensures r.pre_genesis.is_none(), r.block_v2.is_none() { unimplemented!() }
}
// Arc<T> (A1): an Arc is compared by the value it points to
pub open spec fn arc_val<T>(a: Arc<T>) -> T { *a }
pub broadcast axiom fn arc_ext<T>(a: Arc<T>, b: Arc<T>) requires #[trigger] arc_val(a) == #[trigger] arc_val(b) ensures a == b;
pub open spec fn seq_arc_enc(s: Seq<Arc<Signed<NetAddress>>>) -> Seq<proto::Signed> { Seq::new(s.len(), |i: int| arc_val(s[i]).enc()) }
"""


def mod_open(U, name):
    U.raw("pub mod %s {\n    use super::*;" % name, label="mod %s {" % name)


def mod_close(U, name):
    U.raw("}   // mod %s" % name, label="} mod %s" % name)


def add_net(U):
    N = "node/components/network/src/"
    F_NM = R + "node/messages.rs"
    # ---- roles::node
    mod_open(U, "node")
    U.raw(NODE_PRELUDE, label="prelude node")
    U.item(F_NM, "enum Msg")
    PN = [("proto::", "proto::node::", None)]
    U.trait_impl(F_NM, "impl Variant<Msg> for SessionId", header_subs=[("Variant<Msg>", "Variant", None)],
                 extra="    open spec fn ins(self) -> Msg { Msg::SessionId(self) }",
                 fns=dict(insert=dict(ret="m"), extract=dict(ret="r")))
    U.trait_impl(F_NM, "impl ProtoFmt for Msg", header_subs=HS + PN,
                 extra="    open spec fn enc(&self) -> proto::node::Msg {\n        proto::node::Msg { t: Some(match self { Msg::SessionId(x) => proto::node::msg::T::SessionId(x.0) }) }\n    }",
                 fns=dict(read=dict(header_subs=HS, rules_=RULES, ret="res", proof_at_start=BU, subs=PN),
                          build=dict(header_subs=HS, rules_=RULES, ret="p", proof_at_start=BU, subs=PN + [("Self::Proto {", "proto::node::Msg {", None)])))
    U.item(F_NM, "struct Signed", subs=[("<V: Variant<Msg>>", "<V>"), ("node::PublicKey", "PublicKey"), ("node::Signature", "Signature")])
    U.trait_impl(F_NM, "impl<V: Variant<Msg> + Clone> ProtoFmt for Signed<V>", header_subs=[("Variant<Msg>", "Variant", None)] + HS + PN,
                 extra="    open spec fn enc(&self) -> proto::node::Signed {\n        proto::node::Signed { msg: Some(self.msg.ins().enc()), key: Some(self.key.enc()), sig: Some(self.sig.enc()) }\n    }",
                 fns=dict(read=dict(header_subs=HS, rules_=RULES, ret="res", proof_at_start=BU,
                                    subs=[("V::extract(read_required::<Msg>(&r.msg).context(())?)?",
                                           "V::extract(read_required::<Msg>(&r.msg).context(())?).map_err(|verif_e: BadVariantError| -> (verif_r: AnyhowError) { anyhow_error() })?   /* R-try */")]),
                          build=dict(header_subs=HS, rules_=RULES, ret="p", proof_at_start=BU,
                                     subs=[("Self::Proto {", "proto::node::Signed {", None),
                                           ("self.msg.clone()", "verif_clone(&self.msg)   /* R-std: A1 derive(Clone) */")])))
    mod_close(U, "node")
    U.raw(NET_PRELUDE, label="prelude network messages")

    def net_impl(file, ty, pmod, pty, enc, read=None, build=None, extra_subs=None):
        PM = [("proto::", "proto::%s::" % pmod, None)] + (extra_subs or [])
        rd = dict(header_subs=HS, rules_=RULES, ret="res", proof_at_start=BU)
        rd.update(read or {})
        rd["subs"] = PM + (rd.get("subs") or [])
        bd = dict(header_subs=HS, rules_=RULES, ret="p", proof_at_start=BU)
        bd.update(build or {})
        bd["subs"] = PM + [("Self::Proto {", "proto::%s::%s {" % (pmod, pty), None)] + (bd.get("subs") or [])
        U.trait_impl(file, "impl ProtoFmt for " + ty, header_subs=HS + PM,
                     extra="    open spec fn enc(&self) -> proto::%s::%s {\n        %s\n    }" % (pmod, pty, enc.strip()),
                     fns=dict(read=rd, build=bd))

    # ---- preface
    mod_open(U, "preface")
    U.item(N + "preface.rs", "enum Encryption")
    U.item(N + "preface.rs", "enum Endpoint")
    net_impl(N + "preface.rs", "Encryption", "preface", "Encryption",
             "proto::preface::Encryption { t: Some(match self { Encryption::NoiseNN => proto::preface::encryption::T::NoiseNn(proto::preface::encryption::NoiseNn {}) }) }")
    net_impl(N + "preface.rs", "Endpoint", "preface", "Endpoint", """proto::preface::Endpoint { t: Some(match self {
            Endpoint::ConsensusNet => proto::preface::endpoint::T::ConsensusNet(proto::preface::endpoint::ConsensusNet {}),
            Endpoint::GossipNet => proto::preface::endpoint::T::GossipNet(proto::preface::endpoint::GossipNet {}),
        }) }""")
    mod_close(U, "preface")
    # ---- consensus handshake + rpc
    VS = [("validator::Signed", "Signed", None), ("validator::GenesisHash", "GenesisHash", None), ("node::SessionId", "SessionId", None),
          ("validator::ConsensusMsg", "ConsensusMsg", None), ("validator::BlockNumber", "BlockNumber", None), ("validator::Block", "Block", None),
          ("validator::NetAddress", "NetAddress", None)]
    mod_open(U, "consensus_hs")
    U.item(N + "consensus/handshake/mod.rs", "struct Handshake", subs=VS[:3])
    net_impl(N + "consensus/handshake/mod.rs", "Handshake", "consensus", "Handshake",
             "proto::consensus::Handshake { session_id: Some(self.session_id.enc()), genesis: Some(self.genesis.enc()) }")
    mod_close(U, "consensus_hs")
    mod_open(U, "rpc_consensus")
    U.item(N + "rpc/consensus.rs", "struct Req", subs=VS)
    U.item(N + "rpc/consensus.rs", "struct Resp")
    net_impl(N + "rpc/consensus.rs", "Req", "consensus", "ConsensusReq", "proto::consensus::ConsensusReq { msg: Some(self.0.enc()) }",
             read=dict(subs=[("read_required(&r.msg).map(Self)",
                              "read_required(&r.msg).map(|verif_x: Signed<ConsensusMsg>| -> (verif_o: Req) ensures verif_o == Req(verif_x) { Self(verif_x) })   /* R-ctorfn (eta) */")]))
    net_impl(N + "rpc/consensus.rs", "Resp", "consensus", "ConsensusResp", "proto::consensus::ConsensusResp {}")
    mod_close(U, "rpc_consensus")
    # ---- get_block
    mod_open(U, "rpc_get_block")
    U.item(N + "rpc/get_block.rs", "struct Req", subs=VS)
    U.item(N + "rpc/get_block.rs", "struct Resp", subs=VS)
    net_impl(N + "rpc/get_block.rs", "Req", "gossip", "GetBlockRequest", "proto::gossip::GetBlockRequest { number: Some(self.0.0) }", extra_subs=VS)
    net_impl(N + "rpc/get_block.rs", "Resp", "gossip", "GetBlockResponse", """proto::gossip::GetBlockResponse {
            pre_genesis: match self.0 { Some(Block::PreGenesis(b)) => Some(b.enc()), _ => None },
            block_v2: match self.0 { Some(Block::FinalV2(b)) => Some(b.enc()), _ => None } }""",
             extra_subs=[("use validator::Block as B;", "use Block as B;", None)],
             read=dict(subs=[("r\n            .block_v2\n            .as_ref()\n            .map(ProtoFmt::read)", "r.block_v2.as_ref().map(|verif_x: &proto::FinalBlockV2| -> (verif_o: Result<FinalBlock, AnyhowError>) ensures forall|x: FinalBlock| #[trigger] x.enc() == *verif_x ==> verif_o == Ok::<FinalBlock, AnyhowError>(x) { ProtoFmt::read(verif_x) })   /* R-ctorfn (eta) + W-closure */"),
                             ("r\n            .pre_genesis\n            .as_ref()\n            .map(ProtoFmt::read)", "r.pre_genesis.as_ref().map(|verif_x: &proto::PreGenesisBlock| -> (verif_o: Result<PreGenesisBlock, AnyhowError>) ensures forall|x: PreGenesisBlock| #[trigger] x.enc() == *verif_x ==> verif_o == Ok::<PreGenesisBlock, AnyhowError>(x) { ProtoFmt::read(verif_x) })   /* R-ctorfn (eta) + W-closure */")],
                       closures=[dict(prefix="|verif_e| B::FinalV2", ty="FinalBlock", ret="verif_o: Block", spec="ensures verif_o == Block::FinalV2({p})"),
                                 dict(prefix="|verif_e| B::PreGenesis", ty="PreGenesisBlock", ret="verif_o: Block", spec="ensures verif_o == Block::PreGenesis({p})")]),
             build=dict(subs=[("Self::Proto::default()", "proto::gossip::GetBlockResponse::default()   /* R-path */")]))
    mod_close(U, "rpc_get_block")
    # ---- ping
    mod_open(U, "rpc_ping")
    U.item(N + "rpc/ping.rs", "struct Req")
    U.item(N + "rpc/ping.rs", "struct Resp")
    for ty, pty in (("Req", "PingReq"), ("Resp", "PingResp")):
        net_impl(N + "rpc/ping.rs", ty, "ping", pty, "proto::ping::%s { data: Some(vec_of(self.0@)) }" % pty,
                 read=dict(subs=[("required(&r.data)?[..].try_into()?", "verif_try_into_32(required(&r.data)?)?   /* R-std */")],
                           proof_at_start=BU + " broadcast use arr32_ext;"),
                 build=dict(subs=[("self.0.into()", "verif_arr_to_vec(&self.0)   /* R-std */")]))
    mod_close(U, "rpc_ping")
    # ---- gossip handshake (semver build version through its string form)
    mod_open(U, "gossip_hs")
    U.item(N + "gossip/handshake/mod.rs", "struct Handshake",
           subs=[("node::Signed<node::SessionId>", "node::Signed<SessionId>"), ("validator::GenesisHash", "GenesisHash"), ("Option<semver::Version>", "Option<Version>")])
    net_impl(N + "gossip/handshake/mod.rs", "Handshake", "gossip", "Handshake",
             """proto::gossip::Handshake { session_id: Some(self.session_id.enc()), genesis: Some(self.genesis.enc()), is_static: Some(self.is_static),
            build_version: match self.build_version { Some(v) => Some(ver_str(v)), None => None } }""",
             read=dict(closures=[dict(prefix="|x|", ty="&String", ret="verif_o: Result<Version, SemverError>",
                                      spec="ensures forall|v: Version| #[trigger] ver_str(v) == *{p} ==> verif_o == Ok::<Version, SemverError>(v)")],
                       subs=[("x.parse()", "verif_parse_version(x)   /* R-std */")]),
             build=dict(closures=[dict(prefix="|x|", ty="&Version", ret="verif_o: String", spec="ensures verif_o == ver_str(*{p})")],
                        subs=[("x.to_string()", "verif_version_to_string(x)   /* R-std */")]))
    mod_close(U, "gossip_hs")
    # ---- push_validator_addrs: a batch of Arc<Signed<NetAddress>>
    mod_open(U, "rpc_push_validator_addrs")
    U.item(N + "rpc/push_validator_addrs.rs", "struct Req", subs=VS)
    net_impl(N + "rpc/push_validator_addrs.rs", "Req", "gossip", "PushValidatorAddrs",
             "proto::gossip::PushValidatorAddrs { net_addresses: vec_of_seq(seq_arc_enc(self.0@)) }",
             read=dict(subs=[("vec![]", "Vec::new()   /* R-std */")],
                       index_loops={0: dict(prefix="for (i, e) in r.net_addresses.iter().enumerate()", len="r.net_addresses.len()", spec_len="r.net_addresses@.len()",
                                            at="&r.net_addresses[{i}]", pat="e", idx="i",
                                            inv="""        {i} <= r.net_addresses@.len(), addrs@.len() == {i},
        forall|x: Req| #[trigger] x.enc() == *r ==> x.0@.len() == r.net_addresses@.len()
            && forall|k: int| 0 <= k < {i} ==> arc_val(#[trigger] addrs@[k]) == arc_val(x.0@[k]),""",
                                            body_start="""let ghost verif_a0 = addrs@;
            proof {
                assert forall|x: Req| #[trigger] x.enc() == *r implies x.0@.len() == r.net_addresses@.len() && *e == arc_val(x.0@[i as int]).enc() by {
                    broadcast use vec_of_seq_view;
                    assert(x.enc().net_addresses == r.net_addresses);
                    assert(vec_of_seq(seq_arc_enc(x.0@))@ == seq_arc_enc(x.0@));
                    assert(r.net_addresses@[i as int] == seq_arc_enc(x.0@)[i as int]);
                }
            }""")},
                       post_subs=[("ProtoFmt::read(e).context(())?,\n            ));", """ProtoFmt::read(e).context(())?,
            ));
            proof {
                assert forall|x: Req| #[trigger] x.enc() == *r implies (forall|k: int| 0 <= k < verif_i0 ==> arc_val(#[trigger] addrs@[k]) == arc_val(x.0@[k])) by {
                    assert forall|k: int| 0 <= k < verif_i0 implies arc_val(#[trigger] addrs@[k]) == arc_val(x.0@[k]) by {
                        if k < i { assert(addrs@[k] == verif_a0[k]); }
                    }
                }
            }"""),
                                  ("Ok(Self(addrs))", """proof {
            assert forall|x: Req| #[trigger] x.enc() == *r implies Self(addrs) == x by {
                broadcast use vec_of_seq_view, vec_ext, arc_ext;
                assert(x.enc().net_addresses == r.net_addresses);
                assert forall|k: int| 0 <= k < addrs@.len() implies addrs@[k] == x.0@[k] by { assert(arc_val(addrs@[k]) == arc_val(x.0@[k])); }
                assert(addrs@ =~= x.0@);
            }
        }
        Ok(Self(addrs))""")],
                       proof_at_start=BU + " broadcast use arc_ext;"),
             build=dict(chains=[dict(recv="self.0", methods=["iter", "map", "collect"],
                                     closures={1: dict(ty="&Arc<Signed<NetAddress>>", ret="verif_o: proto::Signed", spec="ensures verif_o == arc_val(*{p}).enc()")},
                                     template="tmpl_iter_map_collect(&self.0, {a1}, Ghost(|a: Arc<Signed<NetAddress>>| arc_val(a).enc()))")],
                        subs=[("a.as_ref()", "&**a   /* R-std: Arc::as_ref */")],
                        post_subs=[("proto::gossip::PushValidatorAddrs {", """proof {
            assert(seq_arc_enc(self.0@) =~= self.0@.map_values(|a: Arc<Signed<NetAddress>>| arc_val(a).enc()));
        }
        proto::gossip::PushValidatorAddrs {""")]))
    mod_close(U, "rpc_push_validator_addrs")
    # ---- ProtoRepr (the reverse trait: implemented on the proto type) and the two requests that use it
    U.raw("""
// the ProtoRepr trait with the same round-trip contract (C09), stated from the proto side
pub trait ProtoRepr: Sized {
    type Type;
    spec fn enc(t: Self::Type) -> Self;
    fn read(&self) -> (res: Result<Self::Type, AnyhowError>)
        ensures forall|t: Self::Type| #[trigger] Self::enc(t) == *self ==> res == Ok::<Self::Type, AnyhowError>(t);
    fn build(this: &Self::Type) -> (p: Self)
        ensures p == Self::enc(*this);
}
""", label="prelude ProtoRepr")
    F_REPR = P + "repr.rs"
    HR = [("anyhow::Result<P::Type>", "Result<P::Type, AnyhowError>", None), ("anyhow::Result<Option<P::Type>>", "Result<Option<P::Type>, AnyhowError>", None)]
    U.fn(F_REPR, "fn read_required_repr", ret="res", header_subs=HR, rules_=RULES, spec="""
    ensures forall|t: P::Type| Some(#[trigger] P::enc(t)) == *field ==> res == Ok::<P::Type, AnyhowError>(t),
            field.is_none() ==> res.is_err(),
""")
    U.fn(F_REPR, "fn read_optional_repr", ret="res", header_subs=HR, rules_=RULES,
         subs=[(".map(ProtoRepr::read)", ".map(|verif_x: &P| -> (verif_o: Result<P::Type, AnyhowError>) "
                "ensures forall|t: P::Type| #[trigger] P::enc(t) == *verif_x ==> verif_o == Ok::<P::Type, AnyhowError>(t) { ProtoRepr::read(verif_x) })   /* R-ctorfn (eta) + W-closure */")],
         spec="""
    ensures field.is_none() ==> res == Ok::<Option<P::Type>, AnyhowError>(None),
            forall|t: P::Type| Some(#[trigger] P::enc(t)) == *field ==> res == Ok::<Option<P::Type>, AnyhowError>(Some(t)),
""")
    F_BS = "node/libs/engine/src/block_store.rs"
    mod_open(U, "rpc_push_block_store_state")
    U.item(F_BS, "enum Last", subs=[("validator::BlockNumber", "BlockNumber"), ("validator::v2::CommitQC", "CommitQC")])
    U.item(F_BS, "struct BlockStoreState", subs=[("validator::BlockNumber", "BlockNumber")])
    U.item(N + "rpc/push_block_store_state.rs", "struct Req")
    F_PB = N + "rpc/push_block_store_state.rs"
    PG = [("proto::", "proto::gossip::", None), ("validator::BlockNumber", "BlockNumber", None)]
    HSR = [("anyhow::Result<Self::Type>", "Result<Self::Type, AnyhowError>", None)]
    U.trait_impl(F_PB, "impl ProtoRepr for proto::Last", header_subs=PG + HSR,
                 extra="""    open spec fn enc(t: Last) -> proto::gossip::Last {
        proto::gossip::Last { t: Some(match t {
            Last::PreGenesis(n) => proto::gossip::last::T::PreGenesis(n.0),
            Last::FinalV2(qc) => proto::gossip::last::T::FinalV2(qc.enc()),
        }) }
    }""",
                 fns=dict(read=dict(header_subs=HSR, rules_=RULES, ret="res", proof_at_start=BU, subs=PG),
                          build=dict(header_subs=HSR, rules_=RULES, ret="p", proof_at_start=BU, subs=PG)))
    U.trait_impl(F_PB, "impl ProtoRepr for proto::BlockStoreState", header_subs=PG + HSR,
                 extra="""    open spec fn enc(t: BlockStoreState) -> proto::gossip::BlockStoreState {
        proto::gossip::BlockStoreState { first: Some(t.first.0),
            last: match t.last { Some(l) => Some(<proto::gossip::Last as ProtoRepr>::enc(l)), None => None } }
    }""",
                 fns=dict(read=dict(header_subs=HSR, rules_=RULES, ret="res", proof_at_start=BU, subs=PG),
                          build=dict(header_subs=HSR, rules_=RULES, ret="p", proof_at_start=BU,
                                     subs=PG + [("this.last.as_ref().map(ProtoRepr::build)",
                                                 "this.last.as_ref().map(|verif_x: &Last| -> (verif_o: proto::gossip::Last) ensures verif_o == <proto::gossip::Last as ProtoRepr>::enc(*verif_x) { ProtoRepr::build(verif_x) })   /* R-ctorfn (eta) + W-closure */")])))
    net_impl(F_PB, "Req", "gossip", "PushBlockStoreState",
             "proto::gossip::PushBlockStoreState { state: Some(<proto::gossip::BlockStoreState as ProtoRepr>::enc(self.state)) }")
    mod_close(U, "rpc_push_block_store_state")
    mod_open(U, "rpc_push_tx")
    U.item("node/libs/engine/src/transaction.rs", "struct Transaction")
    U.item(N + "rpc/push_tx.rs", "struct Req")
    U.trait_impl(N + "rpc/push_tx.rs", "impl ProtoRepr for proto::Transaction", header_subs=PG + HSR,
                 extra="    open spec fn enc(t: Transaction) -> proto::gossip::Transaction { proto::gossip::Transaction { tx: Some(t.0) } }",
                 fns=dict(read=dict(header_subs=HSR, rules_=RULES, ret="res", proof_at_start=BU, subs=PG),
                          build=dict(header_subs=HSR, rules_=RULES, ret="p", proof_at_start=BU, subs=PG)))
    net_impl(N + "rpc/push_tx.rs", "Req", "gossip", "PushTx",
             "proto::gossip::PushTx { tx: Some(<proto::gossip::Transaction as ProtoRepr>::enc(self.0)) }")
    mod_close(U, "rpc_push_tx")
    U.assume("A3: ProtoFmt of node::PublicKey / node::Signature (ed25519) satisfies the round-trip contract; A2: semver parse/to_string round-trip")
def add_genesis(U):
    """C10: decoding a Genesis never reaches the `unreachable!()` of GenesisRaw::build (Genesis::read re-encodes what it decoded to
    compute the hash). Not under the round-trip contract: the schedule inside is validated and sorted by Schedule::new."""
    U.raw("""
impl ProtoFmt for Schedule {               // used only through read_optional / Option::map in GenesisRaw (the round-trip contract is NOT claimed
    type Proto = proto::ValidatorSchedule; // for Schedule: it holds only for values satisfying the type's invariant); see schedule_read/_build below
    uninterp spec fn enc(&self) -> proto::ValidatorSchedule;
    #[verifier::external_body] fn read(r: &Self::Proto) -> (res: Result<Self, AnyhowError>) { unimplemented!() }
    #[verifier::external_body] fn build(&self) -> (p: Self::Proto) { unimplemented!() }
}
impl Schedule {
    // Schedule::new: contract proved in unit leader (key-sorted arrangement of exactly the validators given)
    #[verifier::external_body]
    pub fn new(validators: Vec<ValidatorInfo>, leader_selection: LeaderSelection) -> (r: Result<Self, AnyhowError>)
        ensures r matches Ok(s) ==> s.wf() && s.vec@.to_multiset() == validators@.to_multiset() && s.leader_selection == leader_selection
    { unimplemented!() }
}
// A1: vec.iter().enumerate().map(F).collect::<Result<Vec<_>, _>>()
#[verifier::external_body]
pub fn tmpl_iter_enumerate_map_collect_result<A, B, F: FnMut((usize, &A)) -> Result<B, AnyhowError>>(v: &Vec<A>, f: F) -> (r: Result<Vec<B>, AnyhowError>)
    requires forall|i: int| 0 <= i < v@.len() ==> f.requires(((i as usize, &#[trigger] v@[i]),)),
    ensures r matches Ok(w) ==> w@.len() == v@.len() && forall|i: int| 0 <= i < v@.len() ==> f.ensures(((i as usize, &#[trigger] v@[i]),), Ok(w@[i])),
            r matches Err(_) ==> exists|i: int, e: AnyhowError| 0 <= i < v@.len() && #[trigger] f.ensures(((i as usize, &v@[i]),), Err(e)),
{ unimplemented!() }
""", label="Schedule: ProtoFmt stub, Schedule::new stub, template", props=["C10", "C09"])
    # Schedule's own read/build, as inherent functions with a CONTENT-PRESERVATION contract (weaker than the round trip):
    # build encodes every validator of the schedule in order plus the leader selection; read decodes every entry and hands exactly those
    # validators and that leader selection to Schedule::new
    S = "impl ProtoFmt for Schedule"
    U.fn(T.F_SCHED, S + " :: fn build", wrap="impl Schedule", name="schedule_build", ret="p", props=["C09"], rules_=RULES,
         header_subs=[("Self::Proto", "proto::ValidatorSchedule")],
         subs=[("Self::Proto {", "proto::ValidatorSchedule {   /* R-path */")],
         chains=[dict(recv="self", methods=["iter", "map", "collect"],
                      closures={1: dict(ty="&ValidatorInfo", ret="verif_o: proto::ValidatorInfo", spec="ensures verif_o == {p}.enc()")},
                      template="tmpl_iter_map_collect(&self.vec, {a1}, Ghost(|x: ValidatorInfo| x.enc()))   /* Schedule::iter() is self.vec.iter() */")],
         spec="""
    ensures p.validators@ == seq_enc(self.vec@), p.leader_selection == Some(self.leader_selection.enc()),
""")
    U.fn(T.F_SCHED, S + " :: fn read", wrap="impl Schedule", name="schedule_read", ret="res", props=["C09"], rules_=RULES,
         header_subs=[("anyhow::Result<Self>", "Result<Self, AnyhowError>"), ("Self::Proto", "proto::ValidatorSchedule")],
         chains=[dict(recv="r\n            .validators", methods=["iter", "enumerate", "map", "collect"],
                      closures={2: dict(ty="(usize, &proto::ValidatorInfo)", ret="verif_o: Result<ValidatorInfo, AnyhowError>",
                                        spec="ensures forall|x: ValidatorInfo| #[trigger] x.enc() == *{p}.1 ==> verif_o == Ok::<ValidatorInfo, AnyhowError>(x)")},
                      template="tmpl_iter_enumerate_map_collect_result(&r.validators, {a2})")],
         post_subs=[("Self::new(validators, leader_selection)", """proof {
            assert forall|vs: Seq<ValidatorInfo>, ls: LeaderSelection| r.validators@ == #[trigger] seq_enc(vs) && r.leader_selection == Some(#[trigger] ls.enc())
                implies validators@ == vs && leader_selection == ls by {
                assert forall|i: int| 0 <= i < vs.len() implies validators@[i] == vs[i] by { assert(r.validators@[i] == vs[i].enc()); }
                assert(validators@ =~= vs);
            }
        }
        Self::new(validators, leader_selection)""")],
         spec="""
    ensures
        // whatever list of validators and leader selection was encoded (by schedule_build): a successful read yields a well-formed schedule
        // holding exactly those validators (as a multiset: Schedule::new sorts by key) and that leader selection
        forall|vs: Seq<ValidatorInfo>, ls: LeaderSelection| r.validators@ == #[trigger] seq_enc(vs) && r.leader_selection == Some(#[trigger] ls.enc())
            ==> (res matches Ok(s) ==> s.wf() && s.vec@.to_multiset() == vs.to_multiset() && s.leader_selection == ls),
""")
    for t in ("ProtocolVersion", "ForkNumber", "ChainId"):
        U.item(T.F_GEN, "struct " + t, props=["C10"])
    U.item(T.F_GEN, "struct GenesisRaw", props=["C10"])
    G = "impl ProtoFmt for GenesisRaw"
    U.fn(T.F_GEN, G + " :: fn read", wrap="impl GenesisRaw", ret="res", props=["C10", "C09"], rules_=RULES,
         header_subs=[("anyhow::Result<Self>", "Result<Self, AnyhowError>"), ("Self::Proto", "proto::Genesis")],
         spec="""
    // what is decoded can be re-encoded: the only supported protocol version is the one build() handles
    ensures res matches Ok(g) ==> g.protocol_version.0 == 2
                // field by field, what is decoded is what the message carries (C09, content preservation; the schedule inside goes through Schedule::new)
                && r.chain_id == Some(g.chain_id.0) && r.fork_number == Some(g.fork_number.0) && r.first_block == Some(g.first_block.0)
                && r.protocol_version == Some(g.protocol_version.0) && (r.validators_schedule.is_none() == g.validators_schedule.is_none()),
""")
    U.fn(T.F_GEN, G + " :: fn build", wrap="impl GenesisRaw", ret="p", props=["C10", "C09"], rules_=RULES,
         header_subs=[("Self::Proto", "proto::Genesis")],
         subs=[("Self::Proto {", "proto::Genesis {   /* R-path */"),
               ("self.validators_schedule.as_ref().map(|x| x.build())",
                "self.validators_schedule.as_ref().map(|x: &Schedule| -> (verif_o: proto::ValidatorSchedule) ensures verif_o == x.enc() { x.build() })   /* W-closure */")],
         spec="""
    // `unreachable!()` is a proof obligation: discharged by this precondition, which read() establishes for every decoded value
    requires self.protocol_version.0 == 2,
    ensures p.chain_id == Some(self.chain_id.0), p.fork_number == Some(self.fork_number.0), p.first_block == Some(self.first_block.0),
            p.protocol_version == Some(self.protocol_version.0),
            p.validators_schedule == (match self.validators_schedule { Some(s) => Some(s.enc()), None => None }),
""")
    U.raw("""
// Genesis::read is `Ok(GenesisRaw::read(r)?.with_hash())`, with_hash() hashes canonical(&self) = encode(self.build()): the composition
pub fn genesis_read_then_build(r: &proto::Genesis) -> (res: Result<proto::Genesis, AnyhowError>)
{
    let g = GenesisRaw::read(r)?;
    Ok(g.build())
}
""", label="Genesis::read = read then build", props=["C10"])


def build(repo):
    U = Unit("conv", ["C09"], desc="ProtoFmt conversions round-trip", uses=T.USES + "\nuse std::sync::Arc;", crate_attrs="#![feature(allocator_api)]")
    U.repo = repo
    T.add_base_types(U)
    U.tail_subs = list(U.tail_subs) + [("time::UNIX_EPOCH", "utc_unix_epoch()", None)]
    # message types (definitions only)
    U.item(Q.F_CONS2, "struct Signers")
    U.item(Q.F_RC, "struct ReplicaCommit", attrs=T.D_CLONE_EQ)
    U.item(Q.F_RC, "struct CommitQC", subs=[("validator::AggregateSignature", "AggregateSignature")])
    U.item(Q.F_RT, "struct ReplicaTimeout")
    proto_txt, prov = protogen.generate(repo, PROTO_FILES, derive="")
    U.raw(proto_txt, label="R-proto: prost message types generated from " + ", ".join(f for f, _ in prov))
    U.raw(PRELUDE + common.STD_MIN + common.STD_VEC_DEDUP, label="prelude conv")
    U.raw(LEAVES, label="leaf impls (assumed)")
    # helpers of proto_fmt.rs
    HH = [("anyhow::Result<&T>", "Result<&T, AnyhowError>", None), ("anyhow::Result<T>", "Result<T, AnyhowError>", None),
          ("anyhow::Result<Option<T>>", "Result<Option<T>, AnyhowError>", None)]
    U.fn(F_PF, "fn required", ret="r", header_subs=HH, rules_=RULES, spec="""
    ensures field.is_some() ==> (r matches Ok(v) && *v == field->Some_0), field.is_none() ==> r.is_err(),
""")
    U.fn(F_PF, "fn read_required", ret="res", header_subs=HH, rules_=RULES, spec="""
    ensures forall|x: T| Some(#[trigger] x.enc()) == *field ==> res == Ok::<T, AnyhowError>(x),
            field.is_none() ==> res.is_err(),
""")
    U.fn(F_PF, "fn read_optional", ret="res", header_subs=HH, rules_=RULES,
         subs=[(".map(ProtoFmt::read)", ".map(|verif_x: &T::Proto| -> (verif_o: Result<T, AnyhowError>) "
                "ensures forall|x: T| #[trigger] x.enc() == *verif_x ==> verif_o == Ok::<T, AnyhowError>(x) { ProtoFmt::read(verif_x) })   /* R-ctorfn (eta) + W-closure */")],
         spec="""
    ensures field.is_none() ==> res == Ok::<Option<T>, AnyhowError>(None),
            forall|x: T| Some(#[trigger] x.enc()) == *field ==> res == Ok::<Option<T>, AnyhowError>(Some(x)),
            res matches Ok(o) ==> o.is_some() == field.is_some(),      // presence is preserved
""")
    # ---- hashes
    BYTES = [("ByteFmt::decode(required(&r.keccak256)?)?", "ByteFmt::decode(required(&r.keccak256)?.as_slice())?   /* R-std: &Vec<u8> -> &[u8] */")]
    impl(U, T.F_GEN, "GenesisHash", "proto::GenesisHash", "proto::GenesisHash { keccak256: Some(vec_of(self.0.bytes())) }", read=dict(subs=BYTES))
    impl(U, T.F_BLOCK, "PayloadHash", "proto::PayloadHash", "proto::PayloadHash { keccak256: Some(vec_of(self.0.bytes())) }", read=dict(subs=BYTES))
    impl(U, Q.F_CONS2, "View", "proto::ViewV2",
         "proto::ViewV2 { genesis: Some(self.genesis.enc()), number: Some(self.number.0), epoch: Some(self.epoch.0) }")
    impl(U, Q.F_BLK, "BlockHeader", "proto::BlockHeaderV2",
         "proto::BlockHeaderV2 { number: Some(self.number.0), payload: Some(self.payload.enc()) }")
    impl(U, Q.F_RC, "ReplicaCommit", "proto::ReplicaCommitV2",
         "proto::ReplicaCommitV2 { view: Some(self.view.enc()), proposal: Some(self.proposal.enc()) }")
    U.item(Q.F_CONS2, "enum Phase", attrs=T.D_COPY)
    impl(U, Q.F_CONS2, "Phase", "proto::PhaseV2", props=["C09", "C03"], enc="""proto::PhaseV2 { t: Some(match self {
            Phase::Prepare => proto::phase_v2::T::Prepare(proto::std::Void {}),
            Phase::Commit => proto::phase_v2::T::Commit(proto::std::Void {}),
            Phase::Timeout => proto::phase_v2::T::Timeout(proto::std::Void {}),
        }) }""")
    U.trait_impl(F_STD, "impl ProtoFmt for bit_vec::BitVec", header_subs=HS + [("bit_vec::BitVec", "BitVec", None), ("proto::std::BitVector", "proto::std::BitVector", None)],
                 extra="    open spec fn enc(&self) -> proto::std::BitVector {\n        proto::std::BitVector { size: Some(self@.len() as u64), bytes: Some(vec_of(bv_bytes(self@))) }\n    }",
                 fns=dict(read=dict(header_subs=HS, rules_=RULES, ret="res", proof_at_start=BU + " broadcast use bv_bytes_spec, bitvec_ext;",
                                    subs=[("Self::from_bytes(required(&r.bytes).context(())?)", "Self::from_bytes(required(&r.bytes).context(())?.as_slice())   /* R-std: &Vec<u8> -> &[u8] */")],
                                    post_subs=[("Ok(this)", """proof {
            assert forall|x: BitVec| #[trigger] x.enc() == *r implies this == x by {
                assert(r.bytes->Some_0@ == bv_bytes(x@));
                assert(this@.len() == x@.len());
                assert forall|i: int| 0 <= i < x@.len() implies this@[i] == x@[i] by {}
                assert(this@ =~= x@);
            }
        }
        Ok(this)""")]),
                          build=dict(header_subs=HS, rules_=RULES, ret="p", proof_at_start=BU,
                                     subs=[("Self::Proto {", "proto::std::BitVector {", None)])))
    impl(U, Q.F_CONS2, "Signers", "proto::std::BitVector", "self.0.enc()")
    impl(U, Q.F_RC, "CommitQC", "proto::CommitQcv2",
         "proto::CommitQcv2 { msg: Some(self.message.enc()), signers: Some(self.signers.enc()), sig: Some(self.signature.enc()) }")
    clo_build = lambda ty, pty: dict(ty="&" + ty, ret="verif_o: " + pty, spec="ensures verif_o == {p}.enc()")
    impl(U, Q.F_RT, "ReplicaTimeout", "proto::ReplicaTimeoutV2",
         "proto::ReplicaTimeoutV2 { view: Some(self.view.enc()), high_vote: opt_enc(self.high_vote), high_qc: opt_enc(self.high_qc) }",
         build=dict(subs=[("self.high_vote.as_ref().map(ProtoFmt::build)",
                           "self.high_vote.as_ref().map(|verif_x: &ReplicaCommit| -> (verif_o: proto::ReplicaCommitV2) ensures verif_o == verif_x.enc() { ProtoFmt::build(verif_x) })   /* R-ctorfn (eta) + W-closure */"),
                          ("self.high_qc.as_ref().map(ProtoFmt::build)",
                           "self.high_qc.as_ref().map(|verif_x: &CommitQC| -> (verif_o: proto::CommitQcv2) ensures verif_o == verif_x.enc() { ProtoFmt::build(verif_x) })   /* R-ctorfn (eta) + W-closure */")]))
    # ---- TimeoutQC: BTreeMap<ReplicaTimeout, Signers> <-> two parallel repeated fields in key order
    U.raw(Q.PRELUDE_TQC + TQC_CONV, label="prelude TqcMap (conv)")
    U.item(Q.F_RT, "struct TimeoutQC", subs=[("BTreeMap<ReplicaTimeout, Signers>", "TqcMap"), ("validator::AggregateSignature", "AggregateSignature")])
    impl(U, Q.F_RT, "TimeoutQC", "proto::TimeoutQcv2",
         """proto::TimeoutQcv2 { view: Some(self.view.enc()),
            msgs: vec_of_seq(tqc_msgs(self.map.entries())),
            signers: vec_of_seq(tqc_signers(self.map.entries())),
            sig: Some(self.signature.enc()) }""",
         read=dict(subs=[("BTreeMap::new()", "TqcMap::new()")],
                   index_loops={0: dict(prefix="for (msg, signers) in r.msgs.iter().zip(r.signers.iter())",
                                        len="verif_min_usize(r.msgs.len(), r.signers.len())   /* A1: zip stops at the shorter side */",
                                        spec_len="(if r.msgs@.len() <= r.signers@.len() { r.msgs@.len() } else { r.signers@.len() })",
                                        at="(&r.msgs[{i}], &r.signers[{i}])", pat="(msg, signers)",
                                        inv="""        {i} <= r.msgs@.len(), {i} <= r.signers@.len(),
        forall|x: TimeoutQC| #[trigger] x.enc() == *r ==> {i} <= x.map.entries().len() && map.entries() == x.map.entries().take({i} as int),""",
                                        body_start="""let ghost verif_m0 = map;
            proof {
                assert forall|x: TimeoutQC| #[trigger] x.enc() == *r implies {i} <= x.map.entries().len()
                        && *msg == x.map.entries()[{i} - 1].0.enc() && *signers == x.map.entries()[{i} - 1].1.enc() by {
                    let en = x.map.entries();
                    broadcast use vec_of_seq_view;
                    assert(x.enc().msgs == r.msgs && x.enc().signers == r.signers);
                    assert(vec_of_seq(tqc_msgs(en))@ == tqc_msgs(en) && vec_of_seq(tqc_signers(en))@ == tqc_signers(en));
                    assert(r.msgs@ == tqc_msgs(en) && r.signers@ == tqc_signers(en));
                }
            }""")},
                   post_subs=[("Signers::read(signers).context(())?,\n            );", """Signers::read(signers).context(())?,
            );
            proof {
                assert forall|x: TimeoutQC| #[trigger] x.enc() == *r implies verif_i0 <= x.map.entries().len()
                        && map.entries() == x.map.entries().take(verif_i0 as int) by {
                    let en = x.map.entries();
                    let k = verif_i0 - 1;
                    assert(verif_m0.entries() == en.take(k));
                    assert forall|j: int| 0 <= j < verif_m0.entries().len() implies rt_lt(#[trigger] verif_m0.entries()[j].0, en[k].0) by {
                        assert(verif_m0.entries()[j] == en[j]);
                        tqc_sorted(x.map, j, k);
                    }
                    assert(en.take(k).push(en[k]) =~= en.take(k + 1));
                }
            }"""),
                              ("Ok(Self {", """proof {
            assert forall|x: TimeoutQC| #[trigger] x.enc() == *r implies map == x.map by {
                let en = x.map.entries();
                broadcast use vec_of_seq_view, tqcmap_ext;
                assert(x.enc().msgs == r.msgs && x.enc().signers == r.signers);
                assert(vec_of_seq(tqc_msgs(en))@ == tqc_msgs(en) && vec_of_seq(tqc_signers(en))@ == tqc_signers(en));
                assert(r.msgs@.len() == en.len() && r.signers@.len() == en.len());
                assert(en.take(en.len() as int) =~= en);
                assert(map.entries() == en);
            }
        }
        Ok(Self {""")]),
         build=dict(chains=[dict(recv="self\n            .map", methods=["iter", "map", "unzip"],
                                 closures={1: dict(ty="(&ReplicaTimeout, &Signers)", ret="verif_o: (proto::ReplicaTimeoutV2, proto::std::BitVector)",
                                                   spec="ensures verif_o.0 == {p}.0.enc(), verif_o.1 == {p}.1.enc()")},
                                 template="tmpl_tqcmap_iter_map_unzip(&self.map, {a1}, Ghost(|e: (ReplicaTimeout, Signers)| (e.0.enc(), e.1.enc())))")],
                    post_subs=[("proto::TimeoutQcv2 {", """proof {
            assert(msgs@ =~= tqc_msgs(self.map.entries()));
            assert(signers@ =~= tqc_signers(self.map.entries()));
        }
        proto::TimeoutQcv2 {""")]))
    # ---- justification, proposal, new-view, consensus messages
    U.item(Q.F_LP, "enum ProposalJustification")
    U.item(Q.F_LP, "struct LeaderProposal")
    U.item(Q.F_NV, "struct ReplicaNewView")
    U.item(Q.F_CONS2, "enum ChonkyMsg")
    U.item(F_CONS, "enum ConsensusMsg", subs=[("v2::ChonkyMsg", "ChonkyMsg")])
    impl(U, Q.F_LP, "ProposalJustification", "proto::ProposalJustificationV2", """proto::ProposalJustificationV2 { t: Some(match self {
            ProposalJustification::Commit(x) => proto::proposal_justification_v2::T::CommitQc(x.enc()),
            ProposalJustification::Timeout(x) => proto::proposal_justification_v2::T::TimeoutQc(x.enc()),
        }) }""")
    impl(U, Q.F_LP, "LeaderProposal", "proto::LeaderProposalV2",
         """proto::LeaderProposalV2 {
            proposal_payload: match self.proposal_payload { Some(p) => Some(p.0), None => None },
            justification: Some(self.justification.enc()) }""",
         read=dict(closures=[dict(prefix="|p| Payload(p.clone())", ty="&Vec<u8>", ret="verif_o: Payload", spec="ensures verif_o == Payload(*{p})")]),
         build=dict(closures=[dict(prefix="|p| p.0.clone()", ty="&Payload", ret="verif_o: Vec<u8>", spec="ensures verif_o == {p}.0")]))
    impl(U, Q.F_NV, "ReplicaNewView", "proto::ReplicaNewViewV2",
         "proto::ReplicaNewViewV2 { justification: Some(self.justification.enc()) }")
    impl(U, Q.F_CONS2, "ChonkyMsg", "proto::ChonkyMsgV2", """proto::ChonkyMsgV2 { t: Some(match self {
            ChonkyMsg::ReplicaCommit(x) => proto::chonky_msg_v2::T::ReplicaCommit(x.enc()),
            ChonkyMsg::ReplicaTimeout(x) => proto::chonky_msg_v2::T::ReplicaTimeout(x.enc()),
            ChonkyMsg::ReplicaNewView(x) => proto::chonky_msg_v2::T::ReplicaNewView(x.enc()),
            ChonkyMsg::LeaderProposal(x) => proto::chonky_msg_v2::T::LeaderProposal(x.enc()),
        }) }""")
    impl(U, F_CONS, "ConsensusMsg", "proto::ConsensusMsg", """proto::ConsensusMsg { t: Some(match self {
            ConsensusMsg::V2(x) => proto::consensus_msg::T::V2(x.enc()),
        }) }""")
    # ---- blocks
    U.item(Q.F_BLK, "struct FinalBlock")
    U.item(T.F_BLOCK, "struct Justification")
    U.item(T.F_BLOCK, "struct PreGenesisBlock")
    U.item(T.F_BLOCK, "enum Block", subs=[("v2::FinalBlock", "FinalBlock")])
    U.item(T.F_BLOCK, "struct Proposal")
    impl(U, Q.F_BLK, "FinalBlock", "proto::FinalBlockV2",
         "proto::FinalBlockV2 { payload: Some(self.payload.0), justification: Some(self.justification.enc()) }")
    impl(U, T.F_BLOCK, "PreGenesisBlock", "proto::PreGenesisBlock",
         "proto::PreGenesisBlock { number: Some(self.number.0), payload: Some(self.payload.0), justification: Some(self.justification.0) }")
    impl(U, T.F_BLOCK, "Block", "proto::Block", """proto::Block { t: Some(match self {
            Block::FinalV2(b) => proto::block::T::FinalV2(b.enc()),
            Block::PreGenesis(b) => proto::block::T::PreGenesis(b.enc()),
        }) }""")
    impl(U, T.F_BLOCK, "Proposal", "proto::Proposal", "proto::Proposal { number: Some(self.number.0), payload: Some(self.payload.0) }")
    # ---- stored replica state
    U.item(F_STATE, "struct ChonkyV2State")
    U.item(F_STATE0, "enum ReplicaState")
    clo = lambda ty, pty: "|verif_x: &%s| -> (verif_o: %s) ensures verif_o == verif_x.enc() { verif_x.build() }" % (ty, pty)
    impl(U, F_STATE, "ChonkyV2State", "proto::ChonkyV2State", props=["C09", "C03"], enc=
         """proto::ChonkyV2State { epoch: Some(self.epoch.0), view_number: Some(self.view_number.0), phase: Some(self.phase.enc()),
            high_vote: opt_enc(self.high_vote), high_commit_qc: opt_enc(self.high_commit_qc), high_timeout_qc: opt_enc(self.high_timeout_qc),
            proposals: vec_of_seq(seq_enc(self.proposals@)) }""",
         read=dict(chains=[dict(recv="r\n                .proposals", methods=["iter", "map", "collect"],
                                template="tmpl_iter_map_collect_result(&r.proposals, |verif_x: &proto::Proposal| -> (verif_o: Result<Proposal, AnyhowError>) "
                                         "ensures forall|x: Proposal| #[trigger] x.enc() == *verif_x ==> verif_o == Ok::<Proposal, AnyhowError>(x) "
                                         "{{ ProtoFmt::read(verif_x) }})   /* closure = eta-expansion of `ProtoFmt::read` */")],
                   post_subs=[("Ok(Self { $A })", """let verif_s = Self { $A };   /* R-let: the result is bound before it is returned */
        proof {
            assert forall|x: ChonkyV2State| #[trigger] x.enc() == *r implies verif_s == x by {
                broadcast use vec_of_seq_view, vec_ext;
                assert(x.enc().proposals == r.proposals);
                assert(vec_of_seq(seq_enc(x.proposals@))@ == seq_enc(x.proposals@));
                assert forall|i: int| 0 <= i < x.proposals@.len() implies verif_s.proposals@[i] == x.proposals@[i] by {
                    assert(r.proposals@[i] == x.proposals@[i].enc());
                }
                assert(verif_s.proposals@ =~= x.proposals@);
            }
        }
        Ok(verif_s)""")]),
         build=dict(subs=[("self.high_vote.as_ref().map(|x| x.build())", "self.high_vote.as_ref().map(" + clo("ReplicaCommit", "proto::ReplicaCommitV2") + ")   /* W-closure */"),
                          ("self.high_commit_qc.as_ref().map(|x| x.build())", "self.high_commit_qc.as_ref().map(" + clo("CommitQC", "proto::CommitQcv2") + ")   /* W-closure */"),
                          ("self.high_timeout_qc.as_ref().map(|x| x.build())", "self.high_timeout_qc.as_ref().map(" + clo("TimeoutQC", "proto::TimeoutQcv2") + ")   /* W-closure */")],
                    chains=[dict(recv="self.proposals", methods=["iter", "map", "collect"],
                                 closures={1: dict(ty="&Proposal", ret="verif_o: proto::Proposal", spec="ensures verif_o == {p}.enc()")},
                                 template="tmpl_iter_map_collect(&self.proposals, {a1}, Ghost(|x: Proposal| x.enc()))")]))
    impl(U, F_STATE0, "ReplicaState", "proto::ReplicaState", props=["C09", "C03"], enc="""proto::ReplicaState { t: Some(match self {
            ReplicaState::V2(x) => proto::replica_state::T::V2(x.enc()),
        }) }""")
    # ---- schedule components (Schedule / Genesis themselves go through Schedule::new and are not under this contract)
    F_SCHED = T.F_SCHED
    impl(U, F_SCHED, "ValidatorInfo", "proto::ValidatorInfo",
         "proto::ValidatorInfo { key: Some(self.key.enc()), weight: Some(self.weight), leader: Some(self.leader) }")
    impl(U, F_SCHED, "LeaderSelectionMode", "proto::LeaderSelectionMode", props=["C09", "C11"], enc="""proto::LeaderSelectionMode { mode: Some(match self {
            LeaderSelectionMode::RoundRobin => proto::leader_selection_mode::Mode::RoundRobin(proto::leader_selection_mode::RoundRobin {}),
            LeaderSelectionMode::Weighted => proto::leader_selection_mode::Mode::Weighted(proto::leader_selection_mode::Weighted {}),
        }) }""")
    # C11 too: all nodes compute the same leader only if the decoded selection rule (frequency 0 included) is the encoded one
    impl(U, F_SCHED, "LeaderSelection", "proto::LeaderSelection", props=["C09", "C11"], enc=
         "proto::LeaderSelection { frequency: Some(self.frequency), mode: Some(self.mode.enc()) }")
    # ---- discovery, top-level Msg, Signed
    F_DISC = T.M + "discovery.rs"
    F_NODE = R + "node/messages.rs"
    U.raw(NET_LEAVES, label="leaf impls std_conv (Kani group std_conv)")
    U.item(F_DISC, "struct NetAddress", subs=[("net::SocketAddr", "SocketAddr"), ("time::Utc", "Utc")])
    impl(U, F_DISC, "NetAddress", "proto::NetAddress",
         "proto::NetAddress { addr: Some(self.addr.enc()), version: Some(self.version), timestamp: Some(self.timestamp.enc()) }")
    U.item(F_NODE, "struct SessionId")
    U.item(T.F_MSG, "enum Msg")
    U.item(T.F_MSG, "struct MsgHash", subs=[("keccak256::Keccak256", "Keccak256")])
    impl(U, T.F_MSG, "Msg", "proto::Msg", """proto::Msg { t: Some(match self {
            Msg::Consensus(x) => proto::msg::T::Consensus(x.enc()),
            Msg::SessionId(x) => proto::msg::T::SessionId(x.0),
            Msg::NetAddress(x) => proto::msg::T::NetAddress(x.enc()),
        }) }""")
    impl(U, T.F_MSG, "MsgHash", "proto::MsgHash", "proto::MsgHash { keccak256: Some(vec_of(self.0.bytes())) }", read=dict(subs=BYTES))
    U.raw(VARIANT, label="prelude Variant")
    VH = [("Result<Self, BadVariantError>", "Result<Self, BadVariantError>", None)]
    for ty, var in (("ConsensusMsg", "Consensus"), ("SessionId", "SessionId"), ("NetAddress", "NetAddress")):
        U.trait_impl(T.F_MSG, "impl Variant<Msg> for " + ty, header_subs=[("Variant<Msg>", "Variant", None)],
                     extra="    open spec fn ins(self) -> Msg { Msg::%s(self) }" % var,
                     fns=dict(insert=dict(ret="m"), extract=dict(ret="r")))
    U.raw(T.clone_impl("ConsensusMsg") + T.clone_impl("SessionId") + T.clone_impl("NetAddress"), label="clone impls")
    U.trait_impl(T.F_MSG, "impl<V: Variant<Msg> + Clone> ProtoFmt for Signed<V>", header_subs=[("Variant<Msg>", "Variant", None)] + HS,
                 extra="    open spec fn enc(&self) -> proto::Signed {\n        proto::Signed { msg: Some(self.msg.ins().enc()), key: Some(self.key.enc()), sig: Some(self.sig.enc()) }\n    }",
                 fns=dict(read=dict(header_subs=HS, rules_=RULES, ret="res", proof_at_start=BU,
                                    subs=[("Self::Proto {", "proto::Signed {", None),
                                          ("V::extract(read_required::<Msg>(&r.msg).context(())?)?",
                                           "V::extract(read_required::<Msg>(&r.msg).context(())?).map_err(|verif_e: BadVariantError| -> (verif_r: AnyhowError) { anyhow_error() })?   /* R-try: From<BadVariantError> for anyhow::Error */")]),
                          build=dict(header_subs=HS, rules_=RULES, ret="p", proof_at_start=BU, subs=[("Self::Proto {", "proto::Signed {", None),
                                      ("self.msg.clone()", "verif_clone(&self.msg)   /* R-std: A1, the message types derive Clone */")])))
    add_genesis(U)
    add_net(U)
    U.raw(ROUNDTRIP, label="roundtrip (property)", canary=False)
    U.assume("R-proto: the prost message types are generated from the .proto files of /repo with prost's documented mapping "
             "(optional -> Option, repeated -> Vec, oneof -> Option<enum>, heck case conversion); prost's wire codec is outside the claim")
    U.assume("A3: ByteFmt of keccak digests and the ProtoFmt impls of PublicKey / Signature / AggregateSignature (blst) satisfy the round-trip contract")
    U.assume("A2: bit_vec::BitVec::{to_bytes, from_bytes, truncate} behave as documented (MSB-first bit order, zero padding, 8 bits per byte, prefix)")
    U.assume("A1: Vec<u8> equality is content equality; anyhow::Context keeps Ok values; Option::transpose")
    return U
