"""U-streams (C15, RPC composition): every OPEN of a reusable stream goes through the stream queue's limiter, and the stream queues of
RPC clients / servers are built with exactly the configured rate and in-flight limit."""
from vx.unit import Unit

F_RS = "node/components/network/src/mux/reusable_stream.rs"
F_H = "node/components/network/src/mux/header.rs"
F_RPC = "node/components/network/src/rpc/mod.rs"

PRELUDE = r"""
// ---------------- prelude (A4: locks, channels, scope tasks as documented; runtime handles opaque) ----------------
#[verifier::external_body] pub struct Ctx { _p: u8 }
#[verifier::external_body] pub struct Scope { _p: u8 }
pub enum RunError { Canceled, Closed, Other }                                  // mux::RunError (which error is not specified)
#[verifier::external_body] #[derive(Clone, Copy)] pub struct Duration { _p: u8 }   // time::Duration
#[verifier::external_body] pub struct Limiter { _p: u8 }                       // limiter::Limiter (its state machine: unit limiter)
#[verifier::external_body] pub struct Permit { _p: u8 }                        // limiter::Permit<'_>
impl Limiter {
    pub uninterp spec fn rate(&self) -> Rate;
    #[verifier::external_body] pub fn new(ctx: &Ctx, rate: Rate) -> (r: Limiter) ensures r.rate() == rate { unimplemented!() }
    // W-ghost: a granted acquire of n permits adds n to the caller's count of stream opens it has paid for
    #[verifier::external_body]
    pub async fn acquire(&self, ctx: &Ctx, permits: usize, paid: &mut Ghost<int>) -> (r: Result<Permit, RunError>)
        ensures r.is_ok() ==> final(paid)@ == old(paid)@ + permits, r.is_err() ==> final(paid)@ == old(paid)@,
    { unimplemented!() }
}
"""

PRELUDE_RUN = r"""
// ---------------- stubs for ReusableStream::run ----------------
#[verifier::external_body] pub struct ReadReusableStream { _p: u8 }
#[verifier::external_body] pub struct WriteReusableStream { _p: u8 }
impl WriteReusableStream {
    pub uninterp spec fn kind(&self) -> StreamKind;
    #[verifier::external_body] pub fn get_stream_kind(&self) -> (r: StreamKind) ensures r == self.kind() { unimplemented!() }
    #[verifier::external_body] pub async fn send_close(&mut self, ctx: &Ctx) -> (r: Result<(), RunError>) ensures final(self).kind() == old(self).kind() { unimplemented!() }
    // an OPEN frame may be sent only for a stream open that has been paid for at this queue's limiter
    #[verifier::external_body]
    pub async fn send_open(&mut self, ctx: &Ctx, paid: &Ghost<int>) -> (r: Result<(), RunError>)
        requires paid@ >= 1,
        ensures final(self).kind() == old(self).kind(),
    { unimplemented!() }
}
#[verifier::external_body] #[verifier::accept_recursive_types(T)] pub struct LockReceiver<T> { _p: core::marker::PhantomData<T> }   // sync::ExclusiveLockReceiver<T>
#[verifier::external_body] #[verifier::accept_recursive_types(T)] pub struct ExclusiveLock<T> { _p: core::marker::PhantomData<T> }
#[verifier::external_body]
pub fn exclusive_lock_new<T>(v: T) -> (r: (ExclusiveLock<T>, LockReceiver<T>)) ensures r.1.held() == v { unimplemented!() }
impl<T> LockReceiver<T> {
    pub uninterp spec fn held(&self) -> T;      // the value that comes back when the lock is released (its user cannot replace it)
    #[verifier::external_body]
    pub async fn wait(&mut self, ctx: &Ctx) -> (r: Result<T, RunError>) ensures r matches Ok(v) ==> v == old(self).held() { unimplemented!() }
}
#[verifier::external_body] pub struct RecvOpenTask { _p: u8 }                  // JoinHandle of the task that waits for the peer's OPEN
// R-spawn: `s.spawn(async { let mut read = read_receiver.wait(ctx).await?; read.recv_open(ctx).await?; Ok(read) })`
#[verifier::external_body]
pub fn verif_spawn_recv_open(s: &Scope, ctx: &Ctx, read_receiver: &mut LockReceiver<ReadReusableStream>) -> RecvOpenTask { unimplemented!() }
impl RecvOpenTask {
    #[verifier::external_body] pub async fn join(self, ctx: &Ctx) -> (r: Result<ReadReusableStream, RunError>) { unimplemented!() }
}
#[verifier::external_body] pub struct Reservation { _p: u8 }                   // oneshot::Sender<Stream>
pub struct ReadStream(pub ExclusiveLock<ReadReusableStream>);
pub struct WriteStream(pub ExclusiveLock<WriteReusableStream>);
pub struct Stream { pub read: ReadStream, pub write: WriteStream }
impl Reservation {
    // handing a stream to a requester consumes one paid-for open
    #[verifier::external_body]
    pub fn send(self, s: Stream, paid: &mut Ghost<int>) -> (r: Result<(), ()>)
        requires old(paid)@ >= 1,
        ensures final(paid)@ == old(paid)@ - 1,
    { unimplemented!() }
}
impl StreamQueue {
    #[verifier::external_body] pub async fn push(&self, ctx: &Ctx) -> (r: Result<Reservation, RunError>) { unimplemented!() }
}
pub struct ReusableStream { pub read: ReadReusableStream, pub write: WriteReusableStream, pub stream_queue: Arc<StreamQueue> }
"""

PRELUDE_RPC = r"""
// ---------------- prelude for rpc::{Client::new, Service::add_client, Service::add_server} and mux::StreamQueue::new ----------------
#[verifier::external_body] pub struct ChanSender { _p: u8 }                    // channel::Sender<ReservedStream>
#[verifier::external_body] pub struct ChanReceiver { _p: u8 }
#[verifier::external_body] pub struct MutexReceiver { _p: u8 }                 // sync::Mutex<channel::Receiver<ReservedStream>>
#[verifier::external_body] pub fn channel_bounded(n: usize) -> (ChanSender, ChanReceiver) { unimplemented!() }
#[verifier::external_body] pub fn mutex_new(r: ChanReceiver) -> MutexReceiver { unimplemented!() }
#[derive(Clone, Copy)] pub struct Capability(pub u64);                           // proto::rpc::Capability (an enum of numbers)
impl Capability { pub fn id(self) -> (r: u64) ensures r == self.0 { self.0 } }   // `self as mux::CapabilityId`
pub trait Rpc: Sized {              // R-type: the two associated constants of rpc::Rpc used here
    const CAPABILITY: Capability;
    const INFLIGHT: u32;
}
// BTreeMap<CapabilityId, Arc<StreamQueue>>
#[verifier::external_body] pub struct QueueMap { _p: u8 }
impl QueueMap {
    pub uninterp spec fn view(&self) -> Map<u64, Arc<StreamQueue>>;
    #[verifier::external_body]
    pub fn insert(&mut self, k: u64, v: Arc<StreamQueue>) -> (r: Option<Arc<StreamQueue>>)
        ensures final(self)@ == old(self)@.insert(k, v), r.is_some() == old(self)@.contains_key(k) { unimplemented!() }
}
pub struct Mux { pub accept: QueueMap, pub connect: QueueMap }                   // R-type: the two queue maps (cfg is not touched here)
// Vec<Box<dyn ServerTrait>>: the stream queue each registered server takes its streams from
#[verifier::external_body] pub struct ServerList { _p: u8 }
impl ServerList {
    pub uninterp spec fn queues(&self) -> Seq<Arc<StreamQueue>>;
    // R-stub: `self.servers.push(Box::new(Server { handler, queue, _rpc: PhantomData }))`
    #[verifier::external_body]
    pub fn push_server<H>(&mut self, handler: H, queue: Arc<StreamQueue>) ensures final(self).queues() == old(self).queues().push(queue) { unimplemented!() }
}
pub struct Service { pub mux: Mux, pub servers: ServerList }
pub struct Client<R: Rpc> { pub queue: Arc<StreamQueue>, pub _rpc: core::marker::PhantomData<R> }
// `panic!("client/server for capability .. already registered")`: a start-up configuration error, not reachable from the network
#[verifier::external_body] pub fn verif_config_panic() ensures false { unimplemented!() }
"""


def build(repo):
    U = Unit("streams", ["C15"], desc="rate limit on stream opens", uses="use std::sync::Arc;")
    U.repo = repo
    U.raw(PRELUDE, label="prelude streams")
    U.item("node/libs/concurrency/src/limiter/mod.rs", "struct Rate", subs=[("time::Duration", "Duration")], attrs="#[derive(Clone, Copy)]")
    DC = "#[derive(Clone, Copy, PartialEq, Eq, Structural)]"
    U.item(F_H, "struct StreamKind", attrs=DC)
    for n in ("ACCEPT", "CONNECT"):
        U.item(F_H, "impl StreamKind :: const %s" % n, vis=False, label="const StreamKind::%s" % n)
        U.sections[-1].text = "impl StreamKind {\npub " + U.sections[-1].text.replace("pub(super) ", "") + "}\n"
    U.raw(PRELUDE_RPC, label="prelude rpc")
    U.item(F_RS, "struct StreamQueue", subs=[("limiter::Limiter", "Limiter"), ("channel::Sender<ReservedStream>", "ChanSender"),
                                             ("sync::Mutex<channel::Receiver<ReservedStream>>", "MutexReceiver")])
    U.fn(F_RS, "impl StreamQueue :: fn new", wrap="impl StreamQueue", ret="r",
         header_subs=[("ctx::Ctx", "Ctx"), ("limiter::Rate", "Rate")],
         subs=[("channel::bounded(1)", "channel_bounded(1)"), ("limiter::Limiter::new(", "Limiter::new("), ("sync::Mutex::new(recv)", "mutex_new(recv)")],
         spec="""
    ensures r.max_streams == max_streams, r.limiter.rate() == rate,      // the queue's limiter enforces exactly the rate it was given
""")
    CL = "impl<R: Rpc> Client<R>"
    U.fn(F_RPC, CL + " :: fn new", wrap=CL, ret="r",
         header_subs=[("ctx::Ctx", "Ctx"), ("limiter::Rate", "Rate")],
         subs=[("mux::StreamQueue::new(", "StreamQueue::new("),
               ("std::marker::PhantomData", "core::marker::PhantomData")],
         spec="    ensures r.queue.max_streams == R::INFLIGHT, r.queue.limiter.rate() == rate,\n")
    SV = "impl<'a> Service<'a>"
    MS = [("(mut self,", "(self,   /* R-let: `mut self` is bound below */"), ("(\n        mut self,", "(self,   /* R-let */")]
    U.fn(F_RPC, SV + " :: fn add_client", wrap="impl Service", ret="r",
         header_subs=[("(mut self, client", "(self, client")],
         subs=[("self", "verif_self", None),
               ("panic!($M)", "verif_config_panic()   /* R-std: start-up configuration error */")],
         post_subs=[("if verif_self", "let mut verif_self = self;   /* R-let */ if verif_self")],
         spec="""
    ensures r.mux.accept@ == self.mux.accept@.insert(R::CAPABILITY.0, client.queue),      // the client's own queue, under its capability
            r.mux.connect@ == self.mux.connect@, r.servers.queues() == self.servers.queues(),
""")
    U.fn(F_RPC, SV + " :: fn add_server", wrap="impl Service", ret="r",
         header_subs=[("mut self,", "self,"), ("ctx::Ctx", "Ctx"), ("impl Handler<R> + 'a", "H"), ("<R: Rpc>", "<R: Rpc, H>"), ("limiter::Rate", "Rate")],
         subs=[("self", "verif_self", None), ("mux::StreamQueue::new(", "StreamQueue::new("), ("limiter::Rate", "Rate", None),
               ("panic!($M)", "verif_config_panic()   /* R-std: start-up configuration error */"),
               ("verif_self.servers.push(Box::new(Server { handler, queue, $P }));", "verif_self.servers.push_server(handler, queue);   /* R-stub */")],
         post_subs=[("let queue =", "let mut verif_self = self;   /* R-let */ let queue =")],
         spec="""
    ensures
        // the server's stream queue admits at most INFLIGHT concurrent streams and opens them at exactly the CONFIGURED rate
        exists|q: Arc<StreamQueue>| q.max_streams == R::INFLIGHT && q.limiter.rate() == rate
            && #[trigger] r.mux.connect@ == self.mux.connect@.insert(R::CAPABILITY.0, q)
            && r.servers.queues() == self.servers.queues().push(q),
        r.mux.accept@ == self.mux.accept@,
""")

    # ---- rpc::Server::serve: one request per reserved stream, received under the handler's request-size limit (C15 / C10)
    U.raw(r"""
// ---------------- prelude for the per-request task of rpc::Server::serve ----------------
#[verifier::external_body] pub struct AnyhowError { _p: u8 }
pub trait RpcMsg: Sized { type Req; type Resp; }                               // R-type: the message types of rpc::Rpc
#[verifier::external_body] #[verifier::reject_recursive_types(R)] #[verifier::reject_recursive_types(H)]
pub struct Server<R: RpcMsg, H> { _p: core::marker::PhantomData<(R, H)> }       // rpc::Server<R, H>: handler + queue (opaque)
impl<R: RpcMsg, H> Server<R, H> {
    pub uninterp spec fn spec_max_req_size(&self) -> usize;                     // what this server's Handler::max_req_size() returns
    #[verifier::external_body] pub fn handler_max_req_size(&self) -> (r: usize) ensures r == self.spec_max_req_size() { unimplemented!() }
    // Handler::handle: one invocation per reserved stream (W-ghost budget)
    #[verifier::external_body]
    pub async fn handler_handle(&self, ctx: &Ctx, req: R::Req, budget: &mut Ghost<int>) -> (r: Result<R::Resp, AnyhowError>)
        requires old(budget)@ >= 1, ensures final(budget)@ == old(budget)@ - 1 { unimplemented!() }
}
#[verifier::external_body] pub struct ReservedStream { _p: u8 }                 // mux::ReservedStream (one paid-for stream of the server's queue)
#[verifier::external_body] pub struct OpenRead { _p: u8 }
#[verifier::external_body] pub struct OpenWrite { _p: u8 }
pub struct OpenStream { pub read: OpenRead, pub write: OpenWrite }
impl ReservedStream {
    #[verifier::external_body] pub async fn open(self, ctx: &Ctx) -> (r: Result<Result<OpenStream, AnyhowError>, AnyhowError>) { unimplemented!() }
}
// frame::mux_recv_proto (under contract in unit mux): the message is buffered up to `max_size` bytes. Here: the limit handed over must be
// the one the handler declares ("never buffers more than its configured limits")
#[verifier::external_body]
pub async fn mux_recv_req<R: RpcMsg, H>(srv: &Server<R, H>, ctx: &Ctx, read: &mut OpenRead, max_size: usize) -> (r: Result<(R::Req, usize), AnyhowError>)
    requires max_size <= srv.spec_max_req_size() { unimplemented!() }
#[verifier::external_body]
pub async fn mux_send_resp<R: RpcMsg>(ctx: &Ctx, write: &mut OpenWrite, resp: &R::Resp) -> (r: Result<usize, AnyhowError>) { unimplemented!() }
pub trait VerifCtxA<T> { fn context(self, c: ()) -> Result<T, AnyhowError>; }
impl<T> VerifCtxA<T> for Result<T, AnyhowError> {
    #[verifier::external_body] fn context(self, c: ()) -> (r: Result<T, AnyhowError>) ensures r.is_ok() == self.is_ok(), self.is_ok() ==> r == Result::<T, AnyhowError>::Ok(self->Ok_0) { unimplemented!() }
}
""", label="prelude rpc server", props=["C15", "C10"])
    U.lift_closure(F_RPC, "impl<R: Rpc, H: Handler<R>> ServerTrait for Server<R, H> :: fn serve", "async {\n let mut stream = stream.open(ctx).await??;", "serve_one_request",
                   "<R: RpcMsg, H>(this: &Server<R, H>, ctx: &Ctx, stream: ReservedStream) -> (r: Result<(), AnyhowError>)",
                   block=True, fn_kw="async fn", brace_at=1, props=["C15", "C10"],
                   proof_at_start="let mut verif_budget: Ghost<int> = Ghost(1);   /* W-ghost: one request may be served on one reserved stream */",
                   subs=[("let recv_time = ctx.now();", ""), ("let process_time = ctx.now();", ""),
                         ("let _guard = RPC_METRICS.$X;", ""),
                         ("RPC_METRICS.$X;", "", None),
                         ("let size_labels = $X;", ""), ("let resp_size_labels = $X;", ""), ("let inflight_labels = $X;", ""),
                         ("let mut server_process_labels = $X;", ""), ("let mut recv_send_labels = $X;", ""),
                         ("server_process_labels.set_result(&res);", ""), ("recv_send_labels.set_result(&res);", ""),
                         ("frame::mux_recv_proto::<R::Req>($A)", "mux_recv_req::<R, H>(this, $A)   /* R-stub: precondition = the handler's own limit */"),
                         ("self.handler.max_req_size()", "this.handler_max_req_size()", None),      # any count: a change that no longer asks the handler must be decided, not lose the anchor
                         ("self.handler.handle($A)", "this.handler_handle($A, &mut verif_budget)   /* W-ghost */"),
                         ("frame::mux_send_proto(ctx, &mut stream.write, &res?)", "mux_send_resp::<R>(ctx, &mut stream.write, &res?)"),
                         ("anyhow::Ok(())", "Ok(())")],
                   spec="    ensures true,     // the obligations are the preconditions of mux_recv_req (size limit) and handler_handle (one request per reserved stream)\n")
    U.raw(PRELUDE_RUN, label="stubs ReusableStream::run")
    U.lift_closure(F_RS, "impl ReusableStream :: fn run", "scope::run!(ctx, |ctx, s| async {", "reusable_stream_run_body",
                   "(this: ReusableStream, ctx: &Ctx, s: &Scope) -> (r: Result<(), RunError>)",
                   block=True, fn_kw="async fn", attrs="#[verifier::exec_allows_no_decreases_clause]",
                   subs=[("self.", "this.", None),
                         ("let (_, mut read_receiver) = sync::ExclusiveLock::new(this.read);",
                          "let mut verif_paid: Ghost<int> = Ghost(0);   /* W-ghost: stream opens paid for at the limiter and not yet used */\n"
                          "            let (_, mut read_receiver) = exclusive_lock_new(this.read);"),
                         ("sync::ExclusiveLock::new(", "exclusive_lock_new(", 3),
                         ("s.spawn(async { $B })", "verif_spawn_recv_open(s, ctx, &mut read_receiver)   /* R-spawn */"),
                         (".limiter.acquire(ctx, $N)", ".limiter.acquire(ctx, $N, &mut verif_paid)   /* W-ghost */"),
                         (".send_open(ctx)", ".send_open(ctx, &verif_paid)   /* W-ghost */", None),
                         ("write.stream_kind", "write.get_stream_kind()   /* R-type: field of the opaque write half */"),
                         ("_ => unreachable!(\"bad StreamKind\"),", "_ => { assert(false);   /* R-dbg: unreachable! as proof obligation */ return Err(RunError::Other); }"),
                         ("reservation.send(Stream { $F })", "reservation.send(Stream { $F }, &mut verif_paid)   /* W-ghost */")],
                   loops={0: dict(prefix="loop", inv="verif_paid@ == 0, write_receiver.held().kind() == StreamKind::ACCEPT || write_receiver.held().kind() == StreamKind::CONNECT")},
                   spec="""
    requires this.write.kind() == StreamKind::ACCEPT || this.write.kind() == StreamKind::CONNECT,      // how Mux::spawn_streams builds them
    ensures true,
""")
    U.assume("A4: the per-stream task is verified as a sequential function; the spawned recv_open task and the users of the handed-out "
             "stream halves run concurrently and are not modelled. A permit that is dropped before the stream is handed out is not "
             "detected (drop timing); what is decided: on EVERY path an OPEN frame / a hand-out is preceded by its own acquire(1) on "
             "this queue's limiter in the same iteration")
    return U
