"""Shared prelude + type extraction for the `roles::validator` message types (units qc, implied, replica)."""
from units import common

M = "node/libs/roles/src/validator/messages/"
V2 = M + "v2/"
F_SCHED = M + "schedule.rs"
F_CONS = M + "consensus.rs"
F_BLOCK = M + "block.rs"
F_GEN = M + "genesis.rs"
F_MSG = M + "msg.rs"

USES = "use vstd::view::View as VstdViewTrait;\nuse vstd::std_specs::ops::*;\nuse vstd::std_specs::convert::*;\nuse vstd::std_specs::cmp::*;\nuse core::cmp::Ordering;"

D_COPY = "#[derive(Clone, Copy, PartialEq, Eq, Structural)]"
D_CLONE_EQ = "#[derive(PartialEq, Eq, Structural)]"


def clone_impl(ty, generics=""):
    """A1: #[derive(Clone)] returns a value equal to the original."""
    return ("impl%s Clone for %s { #[verifier::external_body] fn clone(&self) -> (r: Self) ensures r == *self "
            "{ unimplemented!() } }   // A1: derive(Clone)\n" % (generics, ty))


def ord_newtype(ty):
    """A1: #[derive(PartialOrd, Ord)] on a u64 newtype is the order of the u64."""
    return """
impl PartialOrd for %(t)s { #[verifier::external_body] fn partial_cmp(&self, other: &Self) -> (r: Option<Ordering>) { unimplemented!() } }
impl PartialOrdSpecImpl for %(t)s {       // A1: derive(PartialOrd) on a u64 newtype
    open spec fn obeys_partial_cmp_spec() -> bool { true }
    open spec fn partial_cmp_spec(&self, other: &Self) -> Option<Ordering> { Some(ord_u64(self.0, other.0)) }
}
""" % dict(t=ty)


PRELUDE_CRYPTO = r"""
// ---------------- prelude: cryptography and third-party data structures (assumed contracts) ----------------
pub open spec fn ord_u64(a: u64, b: u64) -> Ordering {
    if a < b { Ordering::Less } else if a == b { Ordering::Equal } else { Ordering::Greater } }

#[verifier::external_body]
#[derive(Clone, Copy, PartialEq, Eq, Structural)]
pub struct Keccak256 { _p: u8 }                                       // A3: keccak256 digest (opaque, compared structurally)
pub uninterp spec fn keccak(msg: Seq<u8>) -> Keccak256;               // A3: keccak is a function (determinism only)
impl Keccak256 {
    #[verifier::external_body]
    pub fn new(msg: &[u8]) -> (r: Self) ensures r == keccak(msg@) { unimplemented!() }     // A3
}
#[verifier::external_body]
pub struct PublicKey { _p: u8 }                                       // A3: BLS public key
impl Clone for PublicKey { #[verifier::external_body] fn clone(&self) -> (r: Self) ensures r == *self { unimplemented!() } }
#[verifier::external_body]
pub struct Signature { _p: u8 }                                       // A3: BLS signature
impl Clone for Signature { #[verifier::external_body] fn clone(&self) -> (r: Self) ensures r == *self { unimplemented!() } }
#[verifier::external_body]
pub struct AggregateSignature { _p: u8 }                              // A3: BLS aggregate signature
impl Clone for AggregateSignature { #[verifier::external_body] fn clone(&self) -> (r: Self) ensures r == *self { unimplemented!() } }
#[verifier::external_body]
pub struct AnyhowError { _p: u8 }                                     // anyhow::Error (texts dropped by R-errmsg)
#[verifier::external_body]
pub fn anyhow_error() -> AnyhowError { unimplemented!() }

// A3: signature predicates are uninterpreted; nothing is assumed about them except that they are functions
pub uninterp spec fn sig_ok<V>(msg: V, key: PublicKey, sig: Signature) -> bool;
pub uninterp spec fn agg_ok<V>(agg: AggregateSignature, pairs: Seq<(V, PublicKey)>) -> bool;
pub uninterp spec fn agg_empty() -> AggregateSignature;
pub uninterp spec fn agg_add(agg: AggregateSignature, sig: Signature) -> AggregateSignature;
impl AggregateSignature {
    #[verifier::external_body]
    pub fn default() -> (r: Self) ensures r == agg_empty() { unimplemented!() }                        // A3
    #[verifier::external_body]
    pub fn add(&mut self, sig: &Signature) ensures *final(self) == agg_add(*old(self), *sig) { unimplemented!() }   // A3
    // verify_messages hashes every message and calls blst; Ok iff the aggregate verifies over exactly these pairs
    #[verifier::external_body]
    pub fn verify_messages<V>(&self, messages_and_keys: MsgKeys<V>) -> (r: Result<(), AnyhowError>)
        ensures r.is_ok() == agg_ok(*self, messages_and_keys.pairs()) { unimplemented!() }            // A3
}
// the lazily evaluated iterator of (message, key) pairs handed to verify_messages (R-chain result type)
#[verifier::external_body]
#[verifier::reject_recursive_types(V)]
pub struct MsgKeys<V> { _p: core::marker::PhantomData<V> }
impl<V> MsgKeys<V> { pub uninterp spec fn pairs(&self) -> Seq<(V, PublicKey)>; }

// A2: bit_vec::BitVec, view = Seq<bool>
#[verifier::external_body]
pub struct BitVec { _p: u8 }
impl Clone for BitVec { #[verifier::external_body] fn clone(&self) -> (r: Self) ensures r == *self { unimplemented!() } }
impl BitVec {
    pub uninterp spec fn view(&self) -> Seq<bool>;
    #[verifier::external_body]
    pub fn from_elem(n: usize, b: bool) -> (r: Self) ensures r@.len() == n, forall|i: int| 0 <= i < n ==> r@[i] == b { unimplemented!() }
    #[verifier::external_body]
    pub fn len(&self) -> (r: usize) ensures r == self@.len() { unimplemented!() }
    // R-index: `bv[i]` panics when i >= len
    #[verifier::external_body]
    pub fn get_bit(&self, i: usize) -> (r: bool) requires i < self@.len() ensures r == self@[i as int] { unimplemented!() }
    #[verifier::external_body]
    pub fn set(&mut self, i: usize, b: bool) requires i < old(self)@.len() ensures final(self)@ == old(self)@.update(i as int, b) { unimplemented!() }
    #[verifier::external_body]
    pub fn none(&self) -> (r: bool) ensures r == (forall|i: int| 0 <= i < self@.len() ==> !self@[i]) { unimplemented!() }
    // BitVec::or / and panic when the lengths differ
    #[verifier::external_body]
    pub fn or(&mut self, o: &BitVec) -> (r: bool) requires old(self)@.len() == o@.len()
        ensures final(self)@.len() == o@.len(), forall|i: int| 0 <= i < o@.len() ==> #[trigger] final(self)@[i] == (old(self)@[i] || o@[i]) { unimplemented!() }
    #[verifier::external_body]
    pub fn and(&mut self, o: &BitVec) -> (r: bool) requires old(self)@.len() == o@.len()
        ensures final(self)@.len() == o@.len(), forall|i: int| 0 <= i < o@.len() ==> #[trigger] final(self)@[i] == (old(self)@[i] && o@[i]) { unimplemented!() }
}
pub uninterp spec fn bv_of(s: Seq<bool>) -> BitVec;
pub broadcast axiom fn bv_of_view(s: Seq<bool>) ensures #[trigger] bv_of(s)@ == s;      // A2
pub broadcast axiom fn bitvec_ext(a: BitVec, b: BitVec)      // A2: a BitVec is determined by its bits
    requires #[trigger] a.view() == #[trigger] b.view() ensures a == b;
"""

SCHEDULE_STUB = r"""
// ---------------- Schedule: contracts proved in unit `leader`, assumed here (modularity) ----------------
pub open spec fn spec_f(n: nat) -> nat { if n >= 1 { ((n - 1) / 5) as nat } else { 0 } }
pub open spec fn spec_quorum(n: nat) -> int { n - spec_f(n) }
pub open spec fn spec_subquorum(n: nat) -> int { n - 3 * spec_f(n) }
pub open spec fn total(vec: Seq<ValidatorInfo>, k: int) -> int
    decreases k
{ if k <= 0 { 0 } else { total(vec, k - 1) + vec[k - 1].weight } }
#[verifier::external_body]
pub struct KeyIndex { _p: u8 }
// the free threshold functions: contracts proved in unit `thresholds`
#[verifier::external_body] pub fn max_faulty_weight(total_weight: u64) -> (r: u64) requires total_weight >= 1 ensures r as nat == spec_f(total_weight as nat) { unimplemented!() }
#[verifier::external_body] pub fn quorum_threshold(total_weight: u64) -> (r: u64) requires total_weight >= 1 ensures r as int == spec_quorum(total_weight as nat) { unimplemented!() }
#[verifier::external_body] pub fn subquorum_threshold(total_weight: u64) -> (r: u64) requires total_weight >= 1 ensures r as int == spec_subquorum(total_weight as nat) { unimplemented!() }
impl Schedule {
    pub open spec fn wf(&self) -> bool {
        &&& self.vec@.len() >= 1
        &&& forall|j: int| 0 <= j < self.vec@.len() ==> (#[trigger] self.vec@[j]).weight > 0
        &&& self.total_weight == total(self.vec@, self.vec@.len() as int)
        &&& self.total_weight >= 1
        // keys are distinct (BTreeMap in Schedule::new)
        &&& forall|i: int, j: int| 0 <= i < j < self.vec@.len() ==> self.vec@[i].key != self.vec@[j].key
    }
    #[verifier::external_body]
    pub fn len(&self) -> (r: usize) ensures r == self.vec@.len() { unimplemented!() }                   // proved in unit leader
    #[verifier::external_body]
    pub fn total_weight(&self) -> (r: u64) ensures r == self.total_weight { unimplemented!() }          // proved in unit leader
    #[verifier::external_body]
    pub fn quorum_threshold(&self) -> (r: u64) requires self.wf() ensures r as int == spec_quorum(self.total_weight as nat) { unimplemented!() }      // proved in unit leader
    #[verifier::external_body]
    pub fn subquorum_threshold(&self) -> (r: u64) requires self.wf() ensures r as int == spec_subquorum(self.total_weight as nat) { unimplemented!() }  // proved in unit leader
    // `indexes` is the inverse of `vec[..].key` (Schedule::new); assumed type invariant
    #[verifier::external_body]
    pub fn index(&self, validator: &PublicKey) -> (r: Option<usize>)
        requires self.wf(),
        ensures r.is_some() ==> r.unwrap() < self.vec@.len() && self.vec@[r.unwrap() as int].key == *validator,
                r.is_none() ==> forall|j: int| 0 <= j < self.vec@.len() ==> self.vec@[j].key != *validator,
    { unimplemented!() }
    #[verifier::external_body]
    pub fn contains(&self, validator: &PublicKey) -> (r: bool)
        requires self.wf(),
        ensures r == (exists|j: int| 0 <= j < self.vec@.len() && self.vec@[j].key == *validator),
    { unimplemented!() }
}
"""

SIGNED_STUB = r"""
impl<V> Signed<V> {
    // real body: self.sig.verify_msg(&self.msg.clone().insert(), &self.key)  -- BLS via blst FFI (A3)
    #[verifier::external_body]
    pub fn verify(&self) -> (r: Result<(), AnyhowError>) ensures r.is_ok() == sig_ok(self.msg, self.key, self.sig) { unimplemented!() }
}
"""


ORD_VIEW = r"""
// A1: #[derive(PartialOrd)] on View is lexicographic in field order (genesis, epoch, number); the order on hashes is opaque
pub uninterp spec fn hash_cmp(a: GenesisHash, b: GenesisHash) -> Ordering;
pub broadcast axiom fn hash_cmp_refl(a: GenesisHash) ensures #[trigger] hash_cmp(a, a) == Ordering::Equal;
impl PartialOrd for View { #[verifier::external_body] fn partial_cmp(&self, other: &Self) -> (r: Option<Ordering>) { unimplemented!() } }
impl PartialOrdSpecImpl for View {
    open spec fn obeys_partial_cmp_spec() -> bool { true }
    open spec fn partial_cmp_spec(&self, other: &Self) -> Option<Ordering> {
        Some(match hash_cmp(self.genesis, other.genesis) {
            Ordering::Equal => match ord_u64(self.epoch.0, other.epoch.0) {
                Ordering::Equal => ord_u64(self.number.0, other.number.0),
                o => o,
            },
            o => o,
        })
    }
}
"""


def add_base_types(U):
    """hashes, numbers, View, BlockHeader, Payload, Schedule (stubbed methods), Signed."""
    U.raw(common.STD_OPTION_COPIED + common.STD_COMBINATORS + PRELUDE_CRYPTO, label="prelude crypto")
    # R-path: the `validator::` module prefix is dropped wherever a function body still carries it (e.g. the free threshold functions)
    U.tail_subs = list(U.tail_subs) + [("validator::", "", None)]
    U.item(F_GEN, "struct GenesisHash", attrs=D_COPY)
    U.item(F_BLOCK, "struct PayloadHash", attrs=D_COPY)
    U.item(F_BLOCK, "struct BlockNumber", attrs=D_COPY)
    U.item(F_CONS, "struct ViewNumber", attrs=D_COPY)
    U.item(F_CONS, "struct EpochNumber", attrs=D_COPY)
    U.raw(ord_newtype("BlockNumber") + ord_newtype("ViewNumber") + ord_newtype("EpochNumber"), label="derive(PartialOrd) specs")
    U.item(F_BLOCK, "struct Payload")
    U.raw(clone_impl("Payload"), label="clone Payload")
    U.item(V2 + "consensus.rs", "struct View", attrs=D_COPY)
    U.raw(ORD_VIEW, label="derive(PartialOrd) for View")
    U.item(V2 + "block.rs", "struct BlockHeader", attrs=D_COPY)
    U.item(F_SCHED, "struct ValidatorInfo", subs=[("validator::PublicKey", "PublicKey")])
    U.item(F_SCHED, "enum LeaderSelectionMode", attrs="#[derive(PartialEq, Eq, Structural)]")
    U.item(F_SCHED, "struct LeaderSelection")
    U.item(F_SCHED, "struct Schedule", subs=[("BTreeMap<validator::PublicKey, usize>", "KeyIndex")])
    U.raw(SCHEDULE_STUB, label="Schedule stubs")
    U.item(F_MSG, "struct Signed", subs=[("<V: Variant<Msg>>", "<V>"), ("validator::PublicKey", "PublicKey"),
                                          ("validator::Signature", "Signature")])
    U.raw(SIGNED_STUB, label="Signed::verify stub")
    U.assume("A1: #[derive(Clone)] returns an equal value; #[derive(PartialEq)] is structural; #[derive(PartialOrd)] on u64 newtypes is the u64 order")
    U.assume("A2: bit_vec::BitVec {from_elem, len, index, set, none, or, and} behave as documented (index/or/and panic on bad length)")
    U.assume("A3: BLS signature checks (Signed::verify, AggregateSignature::{add, verify_messages}) are uninterpreted predicates over "
             "(message, key, signature); keccak256 is a deterministic function")
    U.assume("Schedule accessor contracts (len, quorum_threshold, subquorum_threshold, index, contains) are stubs here and are proved in "
             "unit `leader`, where Schedule::new is proved to establish the invariant they rely on (modularity: callers see contracts)")
