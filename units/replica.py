"""U-replica (C03, C05, C01 premises): the ChonkyBFT replica state machine handlers."""
from vx.unit import Unit
from units import roles_types as T
from units import qc as Q
from units import implied as I
from units import common

B = "node/components/bft/src/v2_chonky_bft/"
F_MOD = B + "mod.rs"
F_PROP = B + "proposal.rs"
F_COMMIT = B + "commit.rs"
F_TIMEOUT = B + "timeout.rs"
F_NV = B + "new_view.rs"
F_BLOCK = B + "block.rs"
F_PROPOSER = B + "proposer.rs"
F_CONS = T.M + "consensus.rs"
F_CONS2 = T.V2 + "consensus.rs"
F_STATE = T.V2 + "state.rs"
F_STATE0 = T.M + "state.rs"
F_IO = "node/components/network/src/io.rs"

PRELUDE = r"""
// ---------------- prelude for the replica (R-type: runtime handles are opaque; A4: a handler runs on one task) ----------------
#[verifier::external_body] pub struct Ctx { _p: u8 }
#[verifier::external_body] pub struct Deadline { _p: u8 }            // time::Deadline
#[verifier::external_body] pub struct Instant { _p: u8 }             // time::Instant
#[verifier::external_body] pub struct Duration { _p: u8 }            // time::Duration
#[verifier::external_body] pub struct SecretKey { _p: u8 }           // validator::SecretKey (A3)
#[verifier::external_body] pub struct EngineMgr { _p: u8 }           // Arc<EngineManager> (A5; its own contracts: unit blockstore)
#[verifier::external_body] pub struct OutChannel { _p: u8 }          // ctx::channel::UnboundedSender<ToNetworkMessage>
#[verifier::external_body] pub struct InChannel { _p: u8 }           // sync::prunable_mpsc::Receiver<FromNetworkMessage>
#[verifier::external_body] pub struct ProposerSender { _p: u8 }      // sync::watch::Sender<Option<ProposalJustification>>
#[verifier::external_body] pub struct ProposalCache { _p: u8 }       // BTreeMap<BlockNumber, HashMap<PayloadHash, Payload>>
#[verifier::external_body] pub struct PayloadMap { _p: u8 }          // HashMap<PayloadHash, Payload>
#[verifier::external_body] pub struct ViewsCache { _p: u8 }          // BTreeMap<PublicKey, ViewNumber>
#[verifier::external_body] pub struct CommitQcsCache { _p: u8 }      // BTreeMap<ViewNumber, BTreeMap<ReplicaCommit, CommitQC>>
#[verifier::external_body] pub struct TimeoutQcsCache { _p: u8 }     // BTreeMap<ViewNumber, TimeoutQC>
#[verifier::external_body] pub struct Canceled { _p: u8 }
pub enum CtxError { Canceled(Canceled), Internal(AnyhowError) }      // ctx::Error
pub trait VerifWrap<T> { fn wrap(self, c: ()) -> Result<T, CtxError>; }
impl<T> VerifWrap<T> for Result<T, CtxError> {      // error::Wrap keeps Ok-ness and the value (A1)
    #[verifier::external_body] fn wrap(self, c: ()) -> (r: Result<T, CtxError>)
        ensures r.is_ok() == self.is_ok(), self.is_ok() ==> r == Result::<T, CtxError>::Ok(self->Ok_0) { unimplemented!() }
}
impl Ctx {
    #[verifier::external_body] pub fn now(&self) -> Instant { unimplemented!() }
    #[verifier::external_body] pub fn with_deadline(&self, d: Deadline) -> Ctx { unimplemented!() }
    #[verifier::external_body] pub fn is_active(&self) -> bool { unimplemented!() }       // A4: whether the context has been cancelled; any value
}
impl Clone for Deadline { #[verifier::external_body] fn clone(&self) -> (r: Self) { unimplemented!() } }
impl Copy for Deadline {}
// A3: comparing keys with == is structural
impl PartialEq for PublicKey { #[verifier::external_body] fn eq(&self, o: &Self) -> (r: bool) { unimplemented!() } }
impl PartialEqSpecImpl for PublicKey {
    open spec fn obeys_eq_spec() -> bool { true }
    open spec fn eq_spec(&self, o: &Self) -> bool { *self == *o }
}
// the leader of a view: contract proved in unit `leader` (returns the unique eligible validator the schedule prescribes)
pub uninterp spec fn leader_of(s: &Schedule, v: ViewNumber) -> PublicKey;
impl Schedule {
    #[verifier::external_body]
    pub fn view_leader(&self, view_number: ViewNumber) -> (r: PublicKey)
        requires self.wf(),
        ensures r == leader_of(self, view_number),
    { unimplemented!() }
}
pub struct BlockStoreState { pub first: BlockNumber }      // R-type: the member of engine::BlockStoreState read here
// A7: numbers and views carried by a VALID certificate are below 2^64-1 (a quorum would have to sign otherwise)
#[verifier::external_body]
pub proof fn a7_commit_qc_bounded(qc: CommitQC, g: GenesisHash, e: EpochNumber, s: &Schedule)
    requires qc.valid(g, e, s)
    ensures qc.message.proposal.number.0 < u64::MAX, qc.message.view.number.0 < u64::MAX
{ }
#[verifier::external_body]
pub proof fn a7_timeout_qc_bounded(qc: TimeoutQC, g: GenesisHash, e: EpochNumber, s: &Schedule)
    requires qc.valid(g, e, s)
    ensures qc.view.number.0 < u64::MAX
{ }
pub proof fn a7_justification_bounded(j: ProposalJustification, g: GenesisHash, e: EpochNumber, s: &Schedule)
    requires j.valid(g, e, s)
    ensures j.qc_view() < u64::MAX, j matches ProposalJustification::Commit(qc) ==> qc.message.proposal.number.0 < u64::MAX,
{
    match j {
        ProposalJustification::Commit(qc) => { a7_commit_qc_bounded(qc, g, e, s); }
        ProposalJustification::Timeout(qc) => { a7_timeout_qc_bounded(qc, g, e, s); }
    }
}
pub proof fn lemma_valid_shape(qc: TimeoutQC, g: GenesisHash, e: EpochNumber, s: &Schedule)
    requires qc.valid(g, e, s)
    ensures qc.shape_ok(s),
            forall|j: int| 0 <= j < qc.map.entries().len() && (#[trigger] qc.map.entries()[j]).0.high_qc.is_some()
                ==> qc.map.entries()[j].0.high_qc.unwrap().valid(g, e, s),
{
    assert forall|j: int| 0 <= j < qc.map.entries().len() implies (#[trigger] qc.map.entries()[j]).1.0@.len() == s.vec@.len() by {
        assert(qc.entry_ok(j, g, e, s));
    }
    assert forall|j: int| 0 <= j < qc.map.entries().len() && (#[trigger] qc.map.entries()[j]).0.high_qc.is_some()
        implies qc.map.entries()[j].0.high_qc.unwrap().valid(g, e, s) by {
        assert(qc.entry_ok(j, g, e, s));
    }
}
#[verifier::external_body] pub fn deadline_after(ctx: &Ctx, d: &Duration) -> Deadline { unimplemented!() }     // R-stub: time::Deadline::Finite(ctx.now() + d)
impl SecretKey {
    pub uninterp spec fn public_spec(&self) -> PublicKey;
    // A3: signing produces a signature that verifies for this key
    #[verifier::external_body]
    pub fn sign_msg<V>(&self, msg: V) -> (r: Signed<V>)
        ensures r.msg == msg, r.key == self.public_spec(), sig_ok(r.msg, r.key, r.sig) { unimplemented!() }
    #[verifier::external_body]
    pub fn public(&self) -> (r: PublicKey) ensures r == self.public_spec() { unimplemented!() }
}
impl OutChannel {
    #[verifier::external_body] pub fn send(&self, m: ConsensusInputMessage) { unimplemented!() }
}
impl ProposerSender {
    // A4: the proposer task holds the receiver for the life of the scope, so send() cannot fail
    #[verifier::external_body] pub fn send(&self, j: Option<ProposalJustification>) -> (r: Result<(), ()>) ensures r.is_ok() { unimplemented!() }
}
pub struct Config {                       // R-type: bft::Config with Arc<EngineManager> opaque; genesis_hash() is engine_manager.genesis_hash()
    pub engine_manager: EngineMgr,
    pub secret_key: SecretKey,
    pub max_payload_size: usize,
    pub view_timeout: Duration,
    pub epoch: EpochNumber,
    pub first_block: BlockNumber,
    pub validators: Schedule,
}
impl Config {
    pub uninterp spec fn genesis(&self) -> GenesisHash;
    #[verifier::external_body] pub fn genesis_hash(&self) -> (r: GenesisHash) ensures r == self.genesis() { unimplemented!() }
}
// what the replica persists and what a restart restores (the ChonkyV2State fields that matter for voting)
pub struct Snap {
    pub view: ViewNumber, pub phase: Phase, pub high_vote: Option<ReplicaCommit>,
    pub high_commit_qc: Option<CommitQC>, pub high_timeout_qc: Option<TimeoutQC>,
}
impl EngineMgr {
    #[verifier::external_body] pub fn queued(&self) -> BlockStoreState { unimplemented!() }
    // A5: the execution layer's verdict on a payload
    #[verifier::external_body]
    pub async fn verify_payload(&self, ctx: &Ctx, number: BlockNumber, epoch: EpochNumber, payload: &Payload) -> (r: Result<(), CtxError>) { unimplemented!() }
    #[verifier::external_body]
    pub async fn propose_payload(&self, ctx: &Ctx, number: BlockNumber) -> (r: Result<Payload, CtxError>) { unimplemented!() }
    // A5: set_state is durable when it returns Ok
    #[verifier::external_body]
    pub async fn set_state(&self, ctx: &Ctx, state: &ReplicaState) -> (r: Result<(), CtxError>) { unimplemented!() }
    pub uninterp spec fn stored_state(&self) -> ReplicaState;      // A5: what set_state last made durable
    #[verifier::external_body]
    pub async fn get_state(&self, ctx: &Ctx) -> (r: Result<ReplicaState, CtxError>)
        ensures r matches Ok(s) ==> s == self.stored_state() { unimplemented!() }
    #[verifier::external_body]
    pub async fn queue_block(&self, ctx: &Ctx, block: Block) -> (r: Result<(), CtxError>) { unimplemented!() }
    #[verifier::external_body]
    pub async fn wait_until_persisted(&self, ctx: &Ctx, n: BlockNumber) -> (r: Result<BlockStoreStateOpaque, CtxError>) { unimplemented!() }
}
#[verifier::external_body] pub struct BlockStoreStateOpaque { _p: u8 }
pub enum Block { FinalV2(FinalBlock) }      // R-type: only the variant the replica produces
impl ProposalCache {
    // (number, hash) -> payload
    pub uninterp spec fn view(&self) -> Map<(BlockNumber, PayloadHash), Payload>;
    #[verifier::external_body]
    pub fn get(&self, n: &BlockNumber) -> (r: Option<&PayloadMap>)
        ensures r.is_some() ==> forall|h: PayloadHash| #[trigger] r.unwrap().view().contains_key(h) == self@.contains_key((*n, h))
                    && (r.unwrap().view().contains_key(h) ==> r.unwrap().view()[h] == self@[(*n, h)]),
    { unimplemented!() }
    // R-stub for `for (number, payloads) in &self.block_proposal_cache { proposals.extend(payloads.values().map(..)) }`
    #[verifier::external_body]
    pub fn to_proposals(&self) -> (r: Vec<Proposal>) { unimplemented!() }
    // R-stub for `let mut c = BTreeMap::new(); for proposal in backup.proposals { c.entry(..).or_default().insert(..) }`
    #[verifier::external_body]
    pub fn from_proposals(p: &Vec<Proposal>) -> (r: Self) { unimplemented!() }
    // R-chain: `.entry(n).or_default().insert(h, p)`
    #[verifier::external_body]
    pub fn insert_payload(&mut self, n: BlockNumber, h: PayloadHash, p: Payload)
        ensures final(self)@ == old(self)@.insert((n, h), p) { unimplemented!() }
    // R-chain: `.retain(|k, _| k > &n)`
    #[verifier::external_body]
    pub fn retain_above(&mut self, n: BlockNumber)
        ensures forall|k: (BlockNumber, PayloadHash)| #[trigger] final(self)@.contains_key(k) == (old(self)@.contains_key(k) && k.0.0 > n.0),
                forall|k: (BlockNumber, PayloadHash)| final(self)@.contains_key(k) ==> #[trigger] final(self)@[k] == old(self)@[k],
    { unimplemented!() }
}
impl PayloadMap {
    pub uninterp spec fn view(&self) -> Map<PayloadHash, Payload>;
    #[verifier::external_body]
    pub fn get(&self, h: &PayloadHash) -> (r: Option<&Payload>)
        ensures r.is_some() == self@.contains_key(*h), r.is_some() ==> *r.unwrap() == self@[*h] { unimplemented!() }
}
"""



SPEC = r"""
// ---------------- specification of the replica (C03 / C05), written from the statements and spec/informal-spec/replica.rs ----------------
impl StateMachine {
    pub open spec fn g(&self) -> GenesisHash { self.config.genesis() }
    pub open spec fn snapshot(&self) -> Snap {
        Snap { view: self.view_number, phase: self.phase, high_vote: self.high_vote,
               high_commit_qc: self.high_commit_qc, high_timeout_qc: self.high_timeout_qc }
    }
    // the certificates the replica holds verify in isolation (every one came out of verify() or was assembled from verified votes)
    pub open spec fn certs_valid(&self) -> bool {
        &&& self.high_commit_qc.is_some() ==> self.high_commit_qc.unwrap().valid(self.g(), self.config.epoch, &self.config.validators)
        &&& self.high_timeout_qc.is_some() ==> self.high_timeout_qc.unwrap().valid(self.g(), self.config.epoch, &self.config.validators)
    }
    pub open spec fn wf0(&self) -> bool { self.config.validators.wf() && self.certs_valid() }
    pub open spec fn wf(&self) -> bool {
        &&& self.wf0()
        // a replica is only ever in view v > 0 because it holds a certificate (this is what makes get_justification's assert hold)
        &&& self.view_number.0 > 0 ==> self.high_commit_qc.is_some() || self.high_timeout_qc.is_some()
    }
    // view of the highest certificate held (as a number; -1 if none)
    pub open spec fn commit_view(&self) -> int { if self.high_commit_qc.is_some() { self.high_commit_qc.unwrap().message.view.number.0 as int } else { -1 } }
    pub open spec fn timeout_view(&self) -> int { if self.high_timeout_qc.is_some() { self.high_timeout_qc.unwrap().view.number.0 as int } else { -1 } }
    // "it carries the highest certificate the replica holds": commit certificate on a tie
    pub open spec fn spec_justification(&self) -> ProposalJustification {
        if self.commit_view() >= self.timeout_view() { ProposalJustification::Commit(self.high_commit_qc.unwrap()) }
        else { ProposalJustification::Timeout(self.high_timeout_qc.unwrap()) }
    }
}
"""


def sm_struct(U):
    U.item(F_MOD, "struct StateMachine", subs=[
        ("ctx::channel::UnboundedSender<ToNetworkMessage>", "OutChannel"),
        ("sync::prunable_mpsc::Receiver<FromNetworkMessage>", "InChannel"),
        ("sync::watch::Sender<Option<validator::v2::ProposalJustification>>", "ProposerSender"),
        ("BTreeMap<validator::BlockNumber, HashMap<validator::PayloadHash, validator::Payload>>", "ProposalCache"),
        ("BTreeMap<validator::PublicKey, validator::ViewNumber>", "ViewsCache", 2),
        ("""BTreeMap<
        validator::ViewNumber,
        BTreeMap<validator::v2::ReplicaCommit, validator::v2::CommitQC>,
    >""", "CommitQcsCache"),
        ("BTreeMap<validator::ViewNumber, validator::v2::TimeoutQC>", "TimeoutQcsCache"),
        ("time::Deadline", "Deadline"), ("time::Instant", "Instant"),
        ("validator::v2::", "", None), ("validator::", "", None),
        # W-ghost: monitor fields
        ("pub view_start: Instant,", "pub view_start: Instant,\n    pub verif_persisted: Ghost<Snap>,          // W-ghost: the state most recently made durable\n"
                                     "    pub verif_sent: Ghost<Seq<ConsensusMsg>>,  // W-ghost: every message handed to the network so far\n"),
    ])


RULES = ("R-log", "R-metrics", "R-errmsg", "R-underscore", "R-ctorfn")
HDR = [("ctx::Ctx", "Ctx", None), ("ctx::Result<()>", "Result<(), CtxError>", None), ("validator::v2::", "", None), ("validator::", "", None)]
PATHS = [("validator::v2::", "", None), ("validator::", "", None)]
SM = "impl StateMachine"
# W-ghost monitor: persist-before-send
# any count: "persisted" is recorded only after a backup_state(..) whose failure is propagated with `?`; a handler that stops doing so is not a lost
# anchor - its send-site assertion (nothing leaves the node before the state recording it is durable) is what decides it
AFTER_BACKUP = ("self.backup_state(ctx).await.wrap(())?;",
                "self.backup_state(ctx).await.wrap(())?; proof { self.verif_persisted = Ghost(self.snapshot()); }   /* W-ghost */", None)


def send_monitor(n=1):
    return ("self.outbound_channel.send(output_message);",
            "assert(self.verif_persisted@ == self.snapshot());   /* W-ghost: nothing signed leaves the node before the state that records it is durable */ "
            "proof { self.verif_sent = Ghost(self.verif_sent@.push(output_message.message.msg)); } "
            "self.outbound_channel.send(output_message);", n)


def add_core(U):
    sm_struct(U)
    U.raw(SPEC, label="spec replica")
    U.fn(F_BLOCK, SM + " :: fn backup_state", wrap=SM, ret="r", header_subs=HDR, rules_=RULES,
         subs=PATHS + [("""let mut proposals = vec![];
        for (number, payloads) in &self.block_proposal_cache {
            proposals.extend(payloads.values().map(|p| Proposal {
                number: *number,
                payload: p.clone(),
            }));
        }""", "let proposals = self.block_proposal_cache.to_proposals();   /* R-stub: proposal list (not part of the voting state) */"),
                        ("self.config\n            .engine_manager\n            .set_state(ctx, &backup)",
                         "assert(backup matches ReplicaState::V2(s) && s.epoch == self.config.epoch && s.view_number == self.view_number && s.phase == self.phase "
                         "&& s.high_vote == self.high_vote && s.high_commit_qc == self.high_commit_qc && s.high_timeout_qc == self.high_timeout_qc);   /* W-ghost: what is written IS the snapshot */ "
                         "self.config\n            .engine_manager\n            .set_state(ctx, &backup)"),
                        # W-ghost: Ok may only be returned after the write to durable storage has succeeded (the callers treat Ok as "durable")
                        ("Ok(())", "{ assert(verif_wrote);   /* W-ghost: every Ok path has written the state */ Ok(()) }", None)],
         post_subs=[(".wrap(())?;", ".wrap(())?; proof { verif_wrote = true; }   /* W-ghost */", 1)],
         proof_at_start="let ghost mut verif_wrote: bool = false;   /* W-ghost */",
         spec="    ensures true,\n")
    U.fn(F_BLOCK, SM + " :: fn save_block", wrap=SM, ret="r", header_subs=HDR, rules_=RULES,
         subs=PATHS + [("block.clone().into()", "Block::FinalV2(block.clone())   /* R-type: From<FinalBlock> for Block */"),
                        ("""let number_metric = &crate::metrics::METRICS.finalized_block_number;
        let current_number = number_metric.get();
        number_metric.set(current_number.max(block.header().number.0));""", "")],
         spec="""
    // the certificate was verified (or assembled from verified votes) before a block is built on it
    requires commit_qc.valid(old(self).g(), old(self).config.epoch, &old(self).config.validators),
    ensures final(self).snapshot() == old(self).snapshot(), final(self).config == old(self).config, final(self).votes() == old(self).votes(),
            final(self).verif_persisted == old(self).verif_persisted, final(self).verif_sent == old(self).verif_sent,
""")
    U.fn(F_MOD, SM + " :: fn process_commit_qc", wrap=SM, ret="r", header_subs=HDR, rules_=RULES, subs=PATHS,
         closures=[dict(prefix="|cur|", ty="&CommitQC", ret="b: bool",
                        spec="ensures b == ({p}.message.view.number.0 < qc.message.view.number.0)")],
         spec="""
    requires old(self).wf0(), qc.valid(old(self).g(), old(self).config.epoch, &old(self).config.validators),
    ensures
        final(self).config == old(self).config, final(self).view_number == old(self).view_number, final(self).phase == old(self).phase,
        final(self).high_vote == old(self).high_vote, final(self).high_timeout_qc == old(self).high_timeout_qc,
        final(self).verif_persisted == old(self).verif_persisted, final(self).verif_sent == old(self).verif_sent,
        final(self).votes() == old(self).votes(),
        final(self).certs_valid(),
        // adopted iff strictly newer (by view); otherwise the held certificate is untouched -- in all cases, also on an internal error
        final(self).high_commit_qc == (if old(self).commit_view() < qc.message.view.number.0 { Some(*qc) } else { old(self).high_commit_qc }),
        final(self).commit_view() >= old(self).commit_view(), final(self).commit_view() >= qc.message.view.number.0,
        // an (internal) error can only come from storing the block of a certificate that has just been adopted
        r.is_err() ==> final(self).high_commit_qc == Some(*qc),
""")
    U.fn(F_MOD, SM + " :: fn process_timeout_qc", wrap=SM, ret="r", header_subs=HDR, rules_=RULES, subs=PATHS,
         closures=[dict(prefix="|old|", ty="&TimeoutQC", ret="b: bool",
                        spec="ensures b == ({p}.view.number.0 < qc.view.number.0)")],
         post_subs=[("if let Some(high_qc) = qc.high_qc() {", """if let Some(high_qc) = qc.high_qc() {
            proof {   // the carried certificate was checked when the timeout certificate was verified
                let j = choose|j: int| 0 <= j < qc.map.entries().len() && (#[trigger] qc.map.entries()[j]).0.high_qc == Some(*high_qc);
                assert(qc.entry_ok(j, self.g(), self.config.epoch, &self.config.validators));
            }""")],
         spec="""
    requires old(self).wf0(), qc.valid(old(self).g(), old(self).config.epoch, &old(self).config.validators),
    ensures
        final(self).config == old(self).config, final(self).view_number == old(self).view_number, final(self).phase == old(self).phase,
        final(self).high_vote == old(self).high_vote,
        final(self).verif_persisted == old(self).verif_persisted, final(self).verif_sent == old(self).verif_sent,
        final(self).votes() == old(self).votes(),
        final(self).certs_valid(),
        final(self).commit_view() >= old(self).commit_view(), final(self).timeout_view() >= old(self).timeout_view(),
        r.is_err() ==> final(self).high_commit_qc.is_some() && final(self).high_timeout_qc == old(self).high_timeout_qc,
        // the commit certificate carried inside is processed UNCONDITIONALLY (spec), then the timeout certificate iff strictly newer
        r.is_ok() ==> final(self).high_timeout_qc == (if old(self).timeout_view() < qc.view.number.0 { Some(*qc) } else { old(self).high_timeout_qc })
            && final(self).timeout_view() >= qc.view.number.0
            && (forall|j: int| 0 <= j < qc.map.entries().len() && (#[trigger] qc.map.entries()[j]).0.high_qc.is_some()
                    ==> final(self).commit_view() >= qc.map.entries()[j].0.high_qc.unwrap().message.view.number.0),
""")
    U.fn(F_NV, SM + " :: fn get_justification", wrap=SM, ret="r", header_subs=HDR, rules_=RULES, subs=PATHS + [
        ("assert!(self.high_commit_qc.is_some() || self.high_timeout_qc.is_some());",
         "assert(self.high_commit_qc.is_some() || self.high_timeout_qc.is_some());   // R-dbg: assert! as proof obligation")],
         closures=[dict(prefix="|x| x.view()", ty="&CommitQC", ret="v: &View", spec="ensures *v == {p}.message.view"),
                   dict(prefix="|x| &x.view", ty="&TimeoutQC", ret="v: &View", spec="ensures *v == {p}.view")],
         proof_at_start="broadcast use hash_cmp_refl;",
         spec="""
    requires self.wf(), self.high_commit_qc.is_some() || self.high_timeout_qc.is_some(),
    ensures r == self.spec_justification(),
            // self-justifying: what is returned verifies in isolation
            r.valid(self.g(), self.config.epoch, &self.config.validators),
""")


def err_enum(U, file, name, verify_err):
    U.item(file, "enum Error", subs=[("enum Error", "enum " + name), ("anyhow::Error", "AnyhowError", None), ("ctx::Error", "CtxError"),
                                     ("validator::v2::", "", None), ("validator::", "", None)])
    U.raw("""
impl From<CtxError> for %(n)s { #[verifier::external_body] fn from(e: CtxError) -> (r: %(n)s) ensures r == %(n)s::Internal(e) { unimplemented!() } }
impl FromSpecImpl<CtxError> for %(n)s {       // A1: thiserror's #[from]
    open spec fn obeys_from_spec() -> bool { true }
    open spec fn from_spec(e: CtxError) -> %(n)s { %(n)s::Internal(e) }
}
""" % dict(n=name), label="From<CtxError> for " + name)


def r_try(err, pats):
    """R-try: `X?` where X: ctx::Result and the function returns Result<_, Error> -- the conversion thiserror's #[from] generates
    is made explicit (Verus does not connect `?` to From::from): X.map_err(|e| Error::Internal(e))?"""
    conv = ".map_err(|verif_e: CtxError| -> (verif_r: %s) ensures verif_r == %s::Internal(verif_e) { %s::Internal(verif_e) })?   /* R-try: #[from] */" % (err, err, err)
    return [(p + "?", p + conv, c) for p, c in pats]


def add_views(U):
    NV_ACCEPT = """
    pub open spec fn nv_accept(&self, m: &Signed<ReplicaNewView>) -> bool {
        let v = m.msg.justification.spec_view().number;
        &&& v.0 > self.view_number.0 || (v == self.view_number && m.key == leader_of(&self.config.validators, self.view_number))
        &&& exists|j: int| 0 <= j < self.config.validators.vec@.len() && self.config.validators.vec@[j].key == m.key
        &&& sig_ok(m.msg, m.key, m.sig)
        &&& m.msg.justification.valid(self.g(), self.config.epoch, &self.config.validators)
    }
"""
    U.raw("""
pub open spec fn spec_next(v: ViewNumber) -> ViewNumber { if v.0 == u64::MAX { ViewNumber(0) } else { ViewNumber((v.0 + 1) as u64) } }
impl ProposalJustification {
    pub open spec fn spec_view(&self) -> View {
        match self {
            ProposalJustification::Commit(qc) => View { genesis: qc.message.view.genesis, epoch: qc.message.view.epoch, number: spec_next(qc.message.view.number) },
            ProposalJustification::Timeout(qc) => View { genesis: qc.view.genesis, epoch: qc.view.epoch, number: spec_next(qc.view.number) },
        }
    }
    // view of the certificate inside
    pub open spec fn qc_view(&self) -> int {
        match self { ProposalJustification::Commit(qc) => qc.message.view.number.0 as int, ProposalJustification::Timeout(qc) => qc.view.number.0 as int }
    }
}
impl StateMachine {
    pub open spec fn max_cert_view(&self) -> int { if self.commit_view() >= self.timeout_view() { self.commit_view() } else { self.timeout_view() } }
    pub open spec fn new_view_msg(&self) -> ConsensusMsg {
        ConsensusMsg::V2(ChonkyMsg::ReplicaNewView(ReplicaNewView { justification: self.spec_justification() }))
    }
    pub open spec fn timeout_msg(&self) -> ConsensusMsg {
        ConsensusMsg::V2(ChonkyMsg::ReplicaTimeout(ReplicaTimeout {
            view: View { genesis: self.g(), number: self.view_number, epoch: self.config.epoch },
            high_vote: self.high_vote, high_qc: self.high_commit_qc }))
    }
""" + NV_ACCEPT + """
}
""", label="spec views")
    U.fn(F_CONS, "impl ViewNumber :: fn next", wrap="impl ViewNumber", ret="r", spec="""
    ensures r == spec_next(self),     // total: never panics
""")
    U.fn(F_CONS2, "impl View :: fn next_view", wrap="impl View", ret="r", spec="""
    ensures r.genesis == self.genesis, r.epoch == self.epoch, r.number == spec_next(self.number),
""")
    U.fn(Q.F_LP, "impl ProposalJustification :: fn view", wrap="impl ProposalJustification", ret="r", spec="""
    ensures r == self.spec_view(),      // total: never panics, whatever view an unverified message names
""")
    U.fn(Q.F_LP, "impl LeaderProposal :: fn view", wrap="impl LeaderProposal", ret="r", spec="""
    ensures r == self.justification.spec_view(),
""")
    U.fn(Q.F_NV, "impl ReplicaNewView :: fn view", wrap="impl ReplicaNewView", ret="r", spec="""
    ensures r == self.justification.spec_view(),
""")
    err_enum(U, F_NV, "NewViewError", None)
    U.fn(F_NV, SM + " :: fn start_new_view", wrap=SM, ret="r", header_subs=HDR, rules_=RULES,
         subs=PATHS + [("self.block_proposal_cache\n                .retain(|k, _| k > &$N);", "self.block_proposal_cache.retain_above($N);   /* R-chain */"),
                        ("time::Deadline::Finite(ctx.now() + self.config.view_timeout)", "deadline_after(ctx, &self.config.view_timeout)   /* R-stub */"),
                        AFTER_BACKUP, send_monitor()],
         spec="""
    requires old(self).wf(),
             // a replica moves to a new view only forwards ...
             view.0 > old(self).view_number.0,
             // ... and only when it holds a valid certificate for the preceding view (or a later one)
             old(self).max_cert_view() >= view.0 - 1,
    ensures final(self).config == old(self).config, final(self).view_number == view, final(self).votes() == old(self).votes(),
            final(self).high_vote == old(self).high_vote, final(self).high_commit_qc == old(self).high_commit_qc,
            final(self).high_timeout_qc == old(self).high_timeout_qc, final(self).wf(),
            r.is_ok() ==> final(self).phase == Phase::Prepare
                // exactly one message is emitted: a new-view carrying the highest certificate held
                && final(self).verif_sent@ == old(self).verif_sent@.push(final(self).new_view_msg())
                && final(self).verif_persisted@ == final(self).snapshot(),
            r.is_err() ==> final(self).verif_sent == old(self).verif_sent,
""")
    U.fn(F_TIMEOUT, SM + " :: fn start_timeout", wrap=SM, ret="r", header_subs=HDR, rules_=RULES,
         subs=PATHS + [("time::Deadline::Finite(ctx.now() + self.config.view_timeout)", "deadline_after(ctx, &self.config.view_timeout)   /* R-stub */"),
                        AFTER_BACKUP, send_monitor(2)],
         spec="""
    requires old(self).wf(),
    ensures final(self).config == old(self).config, final(self).view_number == old(self).view_number, final(self).votes() == old(self).votes(),
            final(self).high_vote == old(self).high_vote, final(self).high_commit_qc == old(self).high_commit_qc,
            final(self).high_timeout_qc == old(self).high_timeout_qc, final(self).wf(),
            final(self).phase == Phase::Timeout,       // after a timeout vote no commit vote can follow in this view
            r.is_ok() ==> final(self).verif_persisted@ == final(self).snapshot()
                // re-emits the new-view (except in view 0) and the timeout vote, which reports the replica's high vote and high certificate
                && final(self).verif_sent@ == (if final(self).view_number.0 != 0 { old(self).verif_sent@.push(final(self).new_view_msg()) } else { old(self).verif_sent@ }).push(final(self).timeout_msg()),
            r.is_err() ==> final(self).verif_sent == old(self).verif_sent,
""")
    U.fn(F_NV, SM + " :: fn on_new_view", wrap=SM, ret="r", header_subs=HDR + [("Result<(), Error>", "Result<(), NewViewError>")], rules_=RULES,
         subs=PATHS + [("Error::", "NewViewError::", None), ("author.clone().into()", "Box::new(author.clone())   /* R-std */", None)]
              + r_try("NewViewError", [(".wrap(())", 2), ("self.start_new_view(ctx, $V).await", 1)]),
         post_subs=[("match &message.justification {", """proof { a7_justification_bounded(message.justification, self.g(), self.config.epoch, &self.config.validators); }
        match &message.justification {""")],
         spec="""
    requires old(self).wf(),
    ensures final(self).config == old(self).config, final(self).wf(), final(self).votes() == old(self).votes(),
            final(self).view_number.0 >= old(self).view_number.0,
            final(self).commit_view() >= old(self).commit_view(), final(self).timeout_view() >= old(self).timeout_view(),
            final(self).high_vote == old(self).high_vote,
            // reaction prescribed by the replica specification (with the documented refinement: the leader's new-view for the current view is processed)
            r.is_ok() ==> old(self).nv_accept(&signed_message)
                && final(self).view_number.0 == (if signed_message.msg.justification.spec_view().number.0 > old(self).view_number.0
                        { signed_message.msg.justification.spec_view().number.0 } else { old(self).view_number.0 })
                && final(self).justification_recorded(signed_message.msg.justification),
            old(self).nv_accept(&signed_message) ==> r.is_ok() || r matches Err(NewViewError::Internal(_)),
            // a rejected message changes nothing and emits nothing
            (r.is_err() && !(r matches Err(NewViewError::Internal(_)))) ==> final(self).snapshot() == old(self).snapshot() && final(self).verif_sent == old(self).verif_sent,
""")


def add_proposal(U):
    U.raw("""
pub proof fn a7_carried_bounded(qc: TimeoutQC, g: GenesisHash, e: EpochNumber, s: &Schedule)
    requires qc.valid(g, e, s)
    ensures forall|j: int| 0 <= j < qc.map.entries().len() && (#[trigger] qc.map.entries()[j]).0.high_qc.is_some()
                ==> qc.map.entries()[j].0.high_qc.unwrap().message.proposal.number.0 < u64::MAX,
{
    lemma_valid_shape(qc, g, e, s);
    assert forall|j: int| 0 <= j < qc.map.entries().len() && (#[trigger] qc.map.entries()[j]).0.high_qc.is_some()
        implies qc.map.entries()[j].0.high_qc.unwrap().message.proposal.number.0 < u64::MAX by {
        a7_commit_qc_bounded(qc.map.entries()[j].0.high_qc.unwrap(), g, e, s);
    }
}
// everything get_implied_block requires follows from the justification having been verified (plus A7)
pub proof fn lemma_prepare_implied(j: ProposalJustification, g: GenesisHash, e: EpochNumber, s: &Schedule)
    requires j.valid(g, e, s)
    ensures j.qc_view() < u64::MAX,
            j matches ProposalJustification::Commit(qc) ==> qc.message.proposal.number.0 < u64::MAX,
            j matches ProposalJustification::Timeout(qc) ==> qc.shape_ok(s) && (forall|k: int| 0 <= k < qc.map.entries().len()
                 && (#[trigger] qc.map.entries()[k]).0.high_qc.is_some() ==> qc.map.entries()[k].0.high_qc.unwrap().message.proposal.number.0 < u64::MAX),
{
    a7_justification_bounded(j, g, e, s);
    match j {
        ProposalJustification::Timeout(qc) => { lemma_valid_shape(qc, g, e, s); a7_carried_bounded(qc, g, e, s); }
        _ => {}
    }
}
impl StateMachine {
    // accept condition of a proposal (informal spec: on_proposal)
    pub open spec fn prop_accept(&self, m: &Signed<LeaderProposal>) -> bool {
        let v = m.msg.justification.spec_view().number;
        &&& v.0 > self.view_number.0 || (v == self.view_number && self.phase == Phase::Prepare)    // not yet voted / timed out in this view
        &&& m.key == leader_of(&self.config.validators, v)                                        // from the leader of THE MESSAGE's view
        &&& sig_ok(m.msg, m.key, m.sig)
        &&& m.msg.justification.valid(self.g(), self.config.epoch, &self.config.validators)
    }
    // the certificates carried by a processed justification are reflected in the replica's high certificates
    pub open spec fn justification_recorded(&self, j: ProposalJustification) -> bool {
        &&& j matches ProposalJustification::Commit(qc) ==> self.commit_view() >= qc.message.view.number.0
        &&& j matches ProposalJustification::Timeout(qc) ==> self.timeout_view() >= qc.view.number.0
                && (forall|k: int| 0 <= k < qc.map.entries().len() && (#[trigger] qc.map.entries()[k]).0.high_qc.is_some()
                        ==> self.commit_view() >= qc.map.entries()[k].0.high_qc.unwrap().message.view.number.0)
    }
    // the vote a correct replica casts for an accepted proposal
    pub open spec fn vote_for(&self, m: &Signed<LeaderProposal>, vote: ReplicaCommit) -> bool {
        exists|r: (BlockNumber, Option<PayloadHash>)| #[trigger] is_implied(m.msg.justification, &self.config.validators, self.config.first_block, r)
            && vote.view == m.msg.justification.spec_view()
            && vote.proposal.number == r.0
            // forced re-proposal: no payload may be attached and the vote is for the implied hash;
            // fresh proposal: the payload must be present and the vote is for ITS hash
            && (r.1.is_some() ==> m.msg.proposal_payload.is_none() && vote.proposal.payload == r.1.unwrap())
            && (r.1.is_none() ==> m.msg.proposal_payload.is_some() && vote.proposal.payload == PayloadHash(keccak(m.msg.proposal_payload.unwrap().0@)))
    }
}
""", label="spec proposal", canary=False)
    U.fn(T.F_BLOCK, "impl Payload :: fn len", wrap="impl Payload", ret="r", spec="    ensures r == self.0@.len(),\n")
    U.fn(T.F_BLOCK, "impl BlockNumber :: fn prev", wrap="impl BlockNumber", ret="r", spec="""
    ensures self.0 == 0 ==> r.is_none(), self.0 > 0 ==> r == Some(BlockNumber((self.0 - 1) as u64)),
""")
    err_enum(U, F_PROP, "ProposalError", None)
    U.fn(F_PROP, SM + " :: fn on_proposal", wrap=SM, ret="r", props=["C03", "C05", "C01", "C02", "C11", "C10"], header_subs=HDR + [("Result<(), Error>", "Result<(), ProposalError>")], rules_=RULES,
         subs=PATHS + [("Error::", "ProposalError::", None), ("ctx::ProposalError::", "CtxError::", None),
                        ("self.block_proposal_cache\n                    .entry($N)\n                    .or_default()\n                    .insert($H, $P);",
                         "self.block_proposal_cache.insert_payload($N, $H, $P);   /* R-chain */"),
                        AFTER_BACKUP, send_monitor()]
              + r_try("ProposalError", [(".wrap(())", 3)]),
         post_subs=[("let (implied_block_number, implied_block_hash) = message", """proof {
            lemma_prepare_implied(message.justification, self.g(), self.config.epoch, &self.config.validators);
        }
        let (implied_block_number, implied_block_hash) = message""")],
         spec="""
    requires old(self).wf(),
    ensures final(self).config == old(self).config, final(self).wf(), final(self).votes() == old(self).votes(),
            final(self).view_number.0 >= old(self).view_number.0,
            final(self).commit_view() >= old(self).commit_view(), final(self).timeout_view() >= old(self).timeout_view(),
            r.is_ok() ==> old(self).prop_accept(&signed_message)
                && final(self).view_number == signed_message.msg.justification.spec_view().number
                && final(self).phase == Phase::Commit
                && final(self).high_vote.is_some() && old(self).vote_for(&signed_message, final(self).high_vote.unwrap())
                // exactly one commit vote leaves the node, it IS the recorded high vote, and the state recording it is already durable
                && final(self).verif_sent@ == old(self).verif_sent@.push(ConsensusMsg::V2(ChonkyMsg::ReplicaCommit(final(self).high_vote.unwrap())))
                && final(self).verif_persisted@ == final(self).snapshot()
                // the certificate justifying the proposal is processed (C05: the state after the handler is the spec's)
                && final(self).justification_recorded(signed_message.msg.justification),
            // a rejected proposal changes nothing of the voting state and emits nothing
            (r.is_err() && !(r matches Err(ProposalError::Internal(_)))) ==> final(self).snapshot() == old(self).snapshot() && final(self).verif_sent == old(self).verif_sent,
            // an internal error may leave a partially updated state behind, but never an un-persisted message
            r.is_err() ==> final(self).verif_sent == old(self).verif_sent,
""")


CACHE_PRELUDE = r"""
#[verifier::external] impl core::fmt::Debug for CommitQCAddError { fn fmt(&self, f: &mut core::fmt::Formatter<'_>) -> core::fmt::Result { Ok(()) } }     // derive(Debug), needed by .expect()
#[verifier::external] impl core::fmt::Debug for TimeoutQCAddError { fn fmt(&self, f: &mut core::fmt::Formatter<'_>) -> core::fmt::Result { Ok(()) } }
// ---------------- vote caches of the replica (R-type: nested BTreeMaps as finite maps, A1) ----------------
impl ViewsCache {
    pub uninterp spec fn view(&self) -> Map<PublicKey, ViewNumber>;            // latest view each validator voted in
    #[verifier::external_body] pub fn insert(&mut self, k: PublicKey, v: ViewNumber) -> (r: Option<ViewNumber>)
        ensures final(self)@ == old(self)@.insert(k, v) { unimplemented!() }
}
#[verifier::external_body] pub struct ActiveViews { _p: u8 }                    // HashSet<&ViewNumber>
impl ActiveViews { pub uninterp spec fn view(&self) -> Set<ViewNumber>; }
// views_cache.values().collect::<HashSet<_>>()
#[verifier::external_body]
pub fn tmpl_views_values_collect(vc: &ViewsCache) -> (r: ActiveViews)
    ensures forall|v: ViewNumber| #[trigger] r@.contains(v) <==> exists|k: PublicKey| vc@.contains_key(k) && #[trigger] vc@[k] == v
{ unimplemented!() }
impl CommitQcsCache {
    pub uninterp spec fn view(&self) -> Map<(ViewNumber, ReplicaCommit), CommitQC>;     // (view, vote) -> partially collected certificate
    // R-chain (anchor-exact): `.retain(|view_number, _| active_views.contains(view_number))`
    #[verifier::external_body]
    pub fn retain_views_in(&mut self, a: &ActiveViews)
        ensures forall|k: (ViewNumber, ReplicaCommit)| #[trigger] final(self)@.contains_key(k) <==> old(self)@.contains_key(k) && a@.contains(k.0),
                forall|k: (ViewNumber, ReplicaCommit)| final(self)@.contains_key(k) ==> #[trigger] final(self)@[k] == old(self)@[k],
    { unimplemented!() }
}
// cache.entry(view).or_default().entry(vote).or_insert_with(F)  ->  &mut CommitQC
#[verifier::external_body]
pub fn tmpl_cqc_entry<'a, F: FnOnce() -> CommitQC>(c: &'a mut CommitQcsCache, v: ViewNumber, m: ReplicaCommit, f: F) -> (e: &'a mut CommitQC)
    requires !old(c)@.contains_key((v, m)) ==> f.requires(()),
    ensures old(c)@.contains_key((v, m)) ==> *e == old(c)@[(v, m)],
            !old(c)@.contains_key((v, m)) ==> f.ensures((), *e),
            final(c)@ == old(c)@.insert((v, m), *final(e)),
{ unimplemented!() }
// cache.remove(&view).unwrap().remove(vote).unwrap(): both unwraps succeed iff the entry is there
#[verifier::external_body]
pub fn tmpl_cqc_take(c: &mut CommitQcsCache, v: &ViewNumber, m: &ReplicaCommit) -> (q: CommitQC)
    requires old(c)@.contains_key((*v, *m)),
    ensures q == old(c)@[(*v, *m)],
            forall|k: (ViewNumber, ReplicaCommit)| #[trigger] final(c)@.contains_key(k) <==> old(c)@.contains_key(k) && k.0 != *v,
            forall|k: (ViewNumber, ReplicaCommit)| final(c)@.contains_key(k) ==> #[trigger] final(c)@[k] == old(c)@[k],
{ unimplemented!() }
// A3 (BLS aggregation, the only cryptographic axioms in the development): an aggregate built by adding individually valid
// signatures of distinct committee members over one vote verifies over exactly those members
pub uninterp spec fn built(q: CommitQC, vec: Seq<ValidatorInfo>) -> bool;
pub broadcast axiom fn built_new(q: CommitQC, vec: Seq<ValidatorInfo>)
    requires q.signature == agg_empty(), forall|i: int| 0 <= i < q.signers.0@.len() ==> !q.signers.0@[i],
    ensures #[trigger] built(q, vec);
pub axiom fn built_add(q0: CommitQC, q1: CommitQC, vec: Seq<ValidatorInfo>, i: int, sig: Signature)
    requires built(q0, vec), 0 <= i < vec.len(), !q0.signers.0@[i], q1.signers.0@ == q0.signers.0@.update(i, true), q1.message == q0.message,
             q1.signature == agg_add(q0.signature, sig), sig_ok(q0.message, vec[i].key, sig),
    ensures built(q1, vec);
pub broadcast axiom fn built_verifies(q: CommitQC, vec: Seq<ValidatorInfo>)
    requires #[trigger] built(q, vec), q.signers.0@.len() == vec.len(),
    ensures agg_ok(q.signature, sel_pairs(q.message, q.signers.0@, vec, vec.len() as int));
impl TimeoutQcsCache {
    pub uninterp spec fn view(&self) -> Map<ViewNumber, TimeoutQC>;     // view -> partially collected timeout certificate
    #[verifier::external_body]
    pub fn retain_views_in(&mut self, a: &ActiveViews)
        ensures forall|k: ViewNumber| #[trigger] final(self)@.contains_key(k) <==> old(self)@.contains_key(k) && a@.contains(k),
                forall|k: ViewNumber| final(self)@.contains_key(k) ==> #[trigger] final(self)@[k] == old(self)@[k],
    { unimplemented!() }
    // BTreeMap::remove (A1)
    #[verifier::external_body]
    pub fn remove(&mut self, k: &ViewNumber) -> (r: Option<TimeoutQC>)
        ensures r == (if old(self)@.contains_key(*k) { Some(old(self)@[*k]) } else { None }), final(self)@ == old(self)@.remove(*k),
    { unimplemented!() }
}
// cache.entry(view).or_insert_with(F)  ->  &mut TimeoutQC
#[verifier::external_body]
pub fn tmpl_tqc_entry<'a, F: FnOnce() -> TimeoutQC>(c: &'a mut TimeoutQcsCache, v: ViewNumber, f: F) -> (e: &'a mut TimeoutQC)
    requires !old(c)@.contains_key(v) ==> f.requires(()),
    ensures old(c)@.contains_key(v) ==> *e == old(c)@[v],
            !old(c)@.contains_key(v) ==> f.ensures((), *e),
            final(c)@ == old(c)@.insert(v, *final(e)),
{ unimplemented!() }
// A3, timeout certificates: the aggregate is built by adding individually valid signatures, each over the signer's own vote
pub uninterp spec fn tbuilt(q: TimeoutQC, vec: Seq<ValidatorInfo>) -> bool;
pub broadcast axiom fn tbuilt_new(q: TimeoutQC, vec: Seq<ValidatorInfo>)
    requires q.signature == agg_empty(), q.map.entries().len() == 0,
    ensures #[trigger] tbuilt(q, vec);
pub axiom fn tbuilt_add(q0: TimeoutQC, q1: TimeoutQC, vec: Seq<ValidatorInfo>, i: int, m: ReplicaTimeout, sig: Signature, had: bool, p: int)
    requires tbuilt(q0, vec), 0 <= i < vec.len(),
             forall|j: int| 0 <= j < q0.map.entries().len() ==> !(#[trigger] q0.map.entries()[j]).1.0@[i],
             tqc_added(q0.map.entries(), q1.map.entries(), m, i, vec.len() as int, had, p),
             q1.signature == agg_add(q0.signature, sig), sig_ok(m, vec[i].key, sig),
    ensures tbuilt(q1, vec);
pub broadcast axiom fn tbuilt_verifies(q: TimeoutQC, vec: Seq<ValidatorInfo>)
    requires #[trigger] tbuilt(q, vec), en_lens(q.map.entries(), vec.len() as int),
    ensures agg_ok(q.signature, all_pairs(q.map.entries(), vec, q.map.entries().len() as int));
impl TimeoutQC {
    // everything validity asks for except the quorum: what add() maintains vote by vote
    pub open spec fn pre_valid(&self, g: GenesisHash, e: EpochNumber, s: &Schedule) -> bool {
        &&& self.view.ok(g, e)
        &&& forall|j: int| 0 <= j < self.map.entries().len() ==> self.entry_ok(j, g, e, s)
        &&& self.disjoint(self.map.entries().len() as int)
        &&& tbuilt(*self, s.vec@)
    }
}
// TimeoutQC::add keeps the certificate pre-valid (consequence of its contract, proved in unit qc)
pub proof fn lemma_tqc_add_pre_valid(q0: TimeoutQC, q1: TimeoutQC, m: ReplicaTimeout, i: int, had: bool, p: int, g: GenesisHash, e: EpochNumber, s: &Schedule)
    requires
        q0.view.ok(g, e), forall|j: int| 0 <= j < q0.map.entries().len() ==> q0.entry_ok(j, g, e, s),
        q0.disjoint(q0.map.entries().len() as int),
        0 <= i < s.vec@.len(),
        forall|j: int| 0 <= j < q0.map.entries().len() ==> !(#[trigger] q0.map.entries()[j]).1.0@[i],
        tqc_added(q0.map.entries(), q1.map.entries(), m, i, s.vec@.len() as int, had, p),
        m.view == q0.view, m.valid(g, e, s), q1.view == q0.view,
    ensures
        forall|j: int| 0 <= j < q1.map.entries().len() ==> q1.entry_ok(j, g, e, s),
        q1.disjoint(q1.map.entries().len() as int),
{
    let o = q0.map.entries();
    let n = q1.map.entries();
    if had {
        assert forall|j: int| 0 <= j < n.len() implies q1.entry_ok(j, g, e, s) by {
            assert(q0.entry_ok(j, g, e, s));
            if j != p { assert(n[j] == o[j]); }
            else { assert(n[p].1.0@[i]); }
        }
        assert forall|j1: int, j2: int, b: int| 0 <= j1 < j2 < n.len() && 0 <= b < n[j1].1.0@.len() && 0 <= b < n[j2].1.0@.len()
            implies !(#[trigger] n[j1].1.0@[b] && #[trigger] n[j2].1.0@[b]) by {
            assert(q0.entry_ok(j1, g, e, s) && q0.entry_ok(j2, g, e, s));
            if j1 != p { assert(n[j1] == o[j1]); }
            if j2 != p { assert(n[j2] == o[j2]); }
            assert(!(o[j1].1.0@[b] && o[j2].1.0@[b]));
            assert(!o[j1].1.0@[i] && !o[j2].1.0@[i]);
        }
    } else {
        assert forall|j: int| 0 <= j < n.len() implies q1.entry_ok(j, g, e, s) by {
            if j < p { assert(n[j] == o[j]); assert(q0.entry_ok(j, g, e, s)); }
            else if j > p { assert(n[j] == o[j - 1]); assert(q0.entry_ok(j - 1, g, e, s)); }
            else { assert(n[p].1.0@[i] == (i == i)); }
        }
        assert forall|j1: int, j2: int, b: int| 0 <= j1 < j2 < n.len() && 0 <= b < n[j1].1.0@.len() && 0 <= b < n[j2].1.0@.len()
            implies !(#[trigger] n[j1].1.0@[b] && #[trigger] n[j2].1.0@[b]) by {
            let k1 = if j1 < p { j1 } else { j1 - 1 };
            let k2 = if j2 < p { j2 } else { j2 - 1 };
            if j1 != p { assert(n[j1] == o[k1]); assert(q0.entry_ok(k1, g, e, s)); assert(!o[k1].1.0@[i]); }
            if j2 != p { assert(n[j2] == o[k2]); assert(q0.entry_ok(k2, g, e, s)); assert(!o[k2].1.0@[i]); }
            if j1 != p && j2 != p { assert(!(o[k1].1.0@[b] && o[k2].1.0@[b])); }
            if j1 == p { assert(n[p].1.0@[b] == (b == i)); }
            if j2 == p { assert(n[p].1.0@[b] == (b == i)); }
        }
    }
}
impl StateMachine {
    // invariant of the commit-vote bookkeeping, per cached certificate
    pub open spec fn commit_entry_ok(&self, k: (ViewNumber, ReplicaCommit)) -> bool {
        let s = &self.config.validators;
        let q = self.commit_qcs_cache@[k];
        &&& q.message == k.1 && k.1.view.number == k.0 && q.message.view.ok(self.g(), self.config.epoch)
        &&& q.signers.0@.len() == s.vec@.len()
        &&& built(q, s.vec@)
        // one latest vote per validator: whoever is counted in a certificate of view v has its latest view >= v recorded
        &&& forall|i: int| 0 <= i < s.vec@.len() && q.signers.0@[i] ==>
                self.commit_views_cache@.contains_key(#[trigger] s.vec@[i].key) && self.commit_views_cache@[s.vec@[i].key].0 >= k.0.0
        // certificates are kept only for views some validator is at (bounded by the committee, however many future-view messages arrive)
        &&& exists|key: PublicKey| self.commit_views_cache@.contains_key(key) && #[trigger] self.commit_views_cache@[key] == k.0
    }
    pub open spec fn commit_inv(&self) -> bool {
        forall|k: (ViewNumber, ReplicaCommit)| #[trigger] self.commit_qcs_cache@.contains_key(k) ==> self.commit_entry_ok(k)
    }
    // invariant of the timeout-vote bookkeeping, per cached certificate
    pub open spec fn timeout_entry_ok(&self, v: ViewNumber) -> bool {
        let s = &self.config.validators;
        let q = self.timeout_qcs_cache@[v];
        &&& q.view.number == v && q.pre_valid(self.g(), self.config.epoch, s)
        &&& forall|j: int, i: int| 0 <= j < q.map.entries().len() && 0 <= i < s.vec@.len() && (#[trigger] q.map.entries()[j]).1.0@[i] ==>
                self.timeout_views_cache@.contains_key(#[trigger] s.vec@[i].key) && self.timeout_views_cache@[s.vec@[i].key].0 >= v.0
        &&& exists|key: PublicKey| self.timeout_views_cache@.contains_key(key) && #[trigger] self.timeout_views_cache@[key] == v
    }
    pub open spec fn timeout_inv(&self) -> bool {
        forall|v: ViewNumber| #[trigger] self.timeout_qcs_cache@.contains_key(v) ==> self.timeout_entry_ok(v)
    }
    pub open spec fn votes(&self) -> (CommitQcsCache, ViewsCache, TimeoutQcsCache, ViewsCache) {
        (self.commit_qcs_cache, self.commit_views_cache, self.timeout_qcs_cache, self.timeout_views_cache)
    }
}
"""

VOTES_PRELUDE = r"""
// ---------------- constructors / lookups of the vote caches (A1) ----------------
impl ViewsCache {
    #[verifier::external_body] pub fn new() -> (r: Self) ensures r@ == Map::<PublicKey, ViewNumber>::empty() { unimplemented!() }
    #[verifier::external_body] pub fn get(&self, k: &PublicKey) -> (r: Option<&ViewNumber>)
        ensures r.is_some() == self@.contains_key(*k), r.is_some() ==> *r.unwrap() == self@[*k] { unimplemented!() }
}
impl CommitQcsCache { #[verifier::external_body] pub fn new() -> (r: Self) ensures r@ == Map::<(ViewNumber, ReplicaCommit), CommitQC>::empty() { unimplemented!() } }
impl TimeoutQcsCache { #[verifier::external_body] pub fn new() -> (r: Self) ensures r@ == Map::<ViewNumber, TimeoutQC>::empty() { unimplemented!() } }
"""


def add_votes(U):
    U.raw(CACHE_PRELUDE, label="prelude caches", canary=True)
    U.raw(VOTES_PRELUDE, label="prelude votes")
    err_enum(U, F_COMMIT, "CommitError", None)
    err_enum(U, F_TIMEOUT, "TimeoutError", None)
    common_post = """
    requires old(self).wf(),
    ensures final(self).config == old(self).config, final(self).wf(),
            final(self).view_number.0 >= old(self).view_number.0, final(self).high_vote == old(self).high_vote,
            final(self).commit_view() >= old(self).commit_view(), final(self).timeout_view() >= old(self).timeout_view(),
            // accept condition (informal spec): committee member, not from a past view, valid signature, right chain/epoch
            r.is_ok() ==> (exists|j: int| 0 <= j < old(self).config.validators.vec@.len() && #[trigger] old(self).config.validators.vec@[j].key == signed_message.key)
                && signed_message.msg.view.number.0 >= old(self).view_number.0
                && sig_ok(signed_message.msg, signed_message.key, signed_message.sig)
                // the view changes only when a certificate for the MESSAGE's view has formed, and then to exactly the following view
                && (final(self).view_number == old(self).view_number && final(self).phase == old(self).phase && final(self).verif_sent == old(self).verif_sent
                    || final(self).view_number.0 == signed_message.msg.view.number.0 + 1 && final(self).max_cert_view() >= signed_message.msg.view.number.0),
            (r.is_err() && !(r matches Err(%(E)s::Internal(_)))) ==> final(self).snapshot() == old(self).snapshot() && final(self).verif_sent == old(self).verif_sent,
"""
    U.fn(F_COMMIT, SM + " :: fn on_commit", wrap=SM, ret="r", header_subs=HDR + [("Result<(), Error>", "Result<(), CommitError>")], rules_=RULES,
         proof_at_start="broadcast use built_new, built_verifies;",
         subs=PATHS + [("Error::", "CommitError::", None), ("author.clone().into()", "Box::new(author.clone())   /* R-std */", None),
                        ("if let Some(&view) = $E {", "if let Some(verif_view_ref) = $E { let view = *verif_view_ref;   /* R-refpat */"),
                        ("let active_views: HashSet<_> =", "let active_views: ActiveViews ="),
                        ("self.commit_qcs_cache\n            .retain(|view_number, _| active_views.contains(view_number));",
                         "self.commit_qcs_cache.retain_views_in(&active_views);   /* R-chain (anchor-exact closure) */")]
              + r_try("CommitError", [(".wrap(())", 1), ("self.start_new_view(ctx, $V).await", 1)]),
         chains=[dict(recv="self\n            .commit_qcs_cache", methods=["entry", "or_default", "entry", "or_insert_with"],
                      closures={3: dict(ty=[], ret="q: CommitQC",
                                        spec="ensures q.message == *message, q.signature == agg_empty(), q.signers.0@.len() == self.config.validators.vec@.len(), "
                                             "forall|i: int| 0 <= i < q.signers.0@.len() ==> !q.signers.0@[i]")},
                      template="tmpl_cqc_entry(&mut self.commit_qcs_cache, {a0}, {a2}, {a3})", count=1),
                 dict(recv="self.commit_views_cache", methods=["values", "collect"], template="tmpl_views_values_collect(&self.commit_views_cache)"),
                 dict(recv="self\n            .commit_qcs_cache", methods=["remove", "unwrap", "remove", "unwrap"],
                      template="tmpl_cqc_take(&mut self.commit_qcs_cache, {a0}, {a2})", count=1)],
         post_subs=[("self.process_commit_qc(ctx, &commit_qc)", """proof {
            assert(commit_qc == verif_q1);
            // commit only on a quorum: the consumed certificate is valid (weight compared above, aggregate by the A3 axioms)
            assert(commit_qc.valid(self.g(), self.config.epoch, &self.config.validators));
            assert forall|k: (ViewNumber, ReplicaCommit)| #[trigger] self.commit_qcs_cache@.contains_key(k) implies self.commit_entry_ok(k) by {
                assert(verif_s2.commit_qcs_cache@.contains_key(k)); assert(verif_s2.commit_entry_ok(k)); }
            a7_commit_qc_bounded(commit_qc, self.g(), self.config.epoch, &self.config.validators);
        }
        self.process_commit_qc(ctx, &commit_qc)"""),
                    ("let weight = commit_qc.signers.weight(&self.config.validators);", "let ghost verif_q1 = *commit_qc; let weight = commit_qc.signers.weight(&self.config.validators);"),
                    ("self.commit_qcs_cache.retain_views_in(&active_views);", """self.commit_qcs_cache.retain_views_in(&active_views);
        proof {
            let k0 = (message.view.number, *message);
            assert(self.commit_views_cache@[*author] == message.view.number);
            assert(active_views@.contains(message.view.number));
            assert(self.commit_qcs_cache@.contains_key(k0) && self.commit_qcs_cache@[k0] == verif_q1);
            assert forall|k: (ViewNumber, ReplicaCommit)| #[trigger] self.commit_qcs_cache@.contains_key(k) implies self.commit_entry_ok(k) by {
                if k == k0 { assert(self.commit_entry_ok(k0)); } else {
                    assert(old(self).commit_qcs_cache@.contains_key(k));
                    assert(old(self).commit_entry_ok(k));
                    assert(self.commit_qcs_cache@[k] == old(self).commit_qcs_cache@[k]);
                    assert(active_views@.contains(k.0));
                }
            }
        }"""),
                    ("let commit_qc = tmpl_cqc_take(", "let ghost verif_s2 = *self; proof { assert(verif_s2.commit_inv()); } let commit_qc = tmpl_cqc_take("),
                    ("commit_qc\n            .add(", "let ghost verif_q0 = *commit_qc;   /* W-ghost */\n        commit_qc\n            .add("),
                    (".expect(()); let weight" if False else ".expect(\"could not add message to CommitQC\");", """.expect("could not add message to CommitQC");
        proof {   // the certificate stays an aggregate of individually valid signatures (A3 aggregation axiom)
            let vec = self.config.validators.vec@;
            let i = choose|i: int| 0 <= i < vec.len() && vec[i].key == signed_message.key && !verif_q0.signers.0@[i]
                && #[trigger] commit_qc.signers.0@ == verif_q0.signers.0@.update(i, true);
            built_add(verif_q0, *commit_qc, vec, i, signed_message.sig);
        }""")],
         spec=(common_post % dict(E="CommitError")).replace("    requires old(self).wf(),", "    requires old(self).wf(), old(self).commit_inv(),")
              + "            // the vote bookkeeping invariant (one latest vote per validator, certificates only for views some validator is at) is preserved\n"
                "            final(self).commit_inv(),\n"
                "            final(self).timeout_qcs_cache == old(self).timeout_qcs_cache, final(self).timeout_views_cache == old(self).timeout_views_cache,\n")
    U.fn(F_TIMEOUT, SM + " :: fn on_timeout", wrap=SM, ret="r", header_subs=HDR + [("Result<(), Error>", "Result<(), TimeoutError>")], rules_=RULES,
         proof_at_start="broadcast use tbuilt_new, tbuilt_verifies;",
         subs=PATHS + [("Error::", "TimeoutError::", None), ("author.clone().into()", "Box::new(author.clone())   /* R-std */", None),
                        ("if let Some(&view) = $E {", "if let Some(verif_view_ref) = $E { let view = *verif_view_ref;   /* R-refpat */"),
                        ("let active_views: HashSet<_> =", "let active_views: ActiveViews ="),
                        ("self.timeout_qcs_cache\n            .retain(|view_number, _| active_views.contains(view_number));",
                         "self.timeout_qcs_cache.retain_views_in(&active_views);   /* R-chain (anchor-exact closure) */")]
              + r_try("TimeoutError", [(".wrap(())", 1), ("self.start_new_view(ctx, $V).await", 1)]),
         chains=[dict(recv="self\n            .timeout_qcs_cache", methods=["entry", "or_insert_with"],
                      closures={1: dict(ty=[], ret="q: TimeoutQC",
                                        spec="ensures q.view == message.view, q.map.entries().len() == 0, q.signature == agg_empty()")},
                      template="tmpl_tqc_entry(&mut self.timeout_qcs_cache, {a0}, {a1})", count=1),
                 dict(recv="self.timeout_views_cache", methods=["values", "collect"], template="tmpl_views_values_collect(&self.timeout_views_cache)")],
         post_subs=[("let timeout_qc = tmpl_tqc_entry(", "let ghost verif_g = self.g(); let timeout_qc = tmpl_tqc_entry("),
                    ("timeout_qc\n            .add(", """let ghost verif_q0 = *timeout_qc;   /* W-ghost */
        proof {
            let v0 = message.view.number;
            if old(self).timeout_qcs_cache@.contains_key(v0) { assert(old(self).timeout_entry_ok(v0)); assert(verif_q0 == old(self).timeout_qcs_cache@[v0]); }
            assert(verif_q0.view == message.view);
            assert forall|j: int| 0 <= j < verif_q0.map.entries().len() implies verif_q0.entry_ok(j, verif_g, self.config.epoch, &self.config.validators) by {}
            assert forall|j: int| 0 <= j < verif_q0.map.entries().len() implies (#[trigger] verif_q0.map.entries()[j]).1.0@.len() == self.config.validators.vec@.len() by {
                assert(verif_q0.entry_ok(j, verif_g, self.config.epoch, &self.config.validators)); }
        }
        timeout_qc
            .add("""),
                    (".expect(\"could not add message to TimeoutQC\");", """.expect("could not add message to TimeoutQC");
        proof {   // the certificate stays pre-valid: entries valid and disjoint (lemma), aggregate of individually valid signatures (A3 axiom)
            let s = &self.config.validators;
            let had = verif_q0.map.has(*message);
            let p = if had { verif_q0.map.find(*message) } else { tqc_ins_pos(verif_q0.map, *message) };
            let i = choose|i: int| 0 <= i < s.vec@.len() && #[trigger] s.vec@[i].key == signed_message.key
                && (forall|j: int| 0 <= j < verif_q0.map.entries().len() ==> !(#[trigger] verif_q0.map.entries()[j]).1.0@[i])
                && tqc_added(verif_q0.map.entries(), timeout_qc.map.entries(), *message, i, s.vec@.len() as int, had, p);
            lemma_tqc_add_pre_valid(verif_q0, *timeout_qc, *message, i, had, p, verif_g, self.config.epoch, s);
            tbuilt_add(verif_q0, *timeout_qc, s.vec@, i, *message, signed_message.sig, had, p);
            assert forall|j: int| 0 <= j < timeout_qc.map.entries().len() implies (#[trigger] timeout_qc.map.entries()[j]).1.0@.len() == s.vec@.len() by {
                assert(timeout_qc.entry_ok(j, verif_g, self.config.epoch, s)); }
        }"""),
                    ("let weight = timeout_qc.weight(&self.config.validators);", "let ghost verif_q1 = *timeout_qc; let weight = timeout_qc.weight(&self.config.validators);"),
                    ("self.timeout_qcs_cache.retain_views_in(&active_views);", """self.timeout_qcs_cache.retain_views_in(&active_views);
        proof {
            let v0 = message.view.number;
            assert(self.timeout_views_cache@[*author] == v0);
            assert(active_views@.contains(v0));
            assert(self.timeout_qcs_cache@.contains_key(v0) && self.timeout_qcs_cache@[v0] == verif_q1);
            assert forall|v: ViewNumber| #[trigger] self.timeout_qcs_cache@.contains_key(v) implies self.timeout_entry_ok(v) by {
                if v == v0 { assert(self.timeout_entry_ok(v0)); } else {
                    assert(old(self).timeout_qcs_cache@.contains_key(v));
                    assert(old(self).timeout_entry_ok(v));
                    assert(self.timeout_qcs_cache@[v] == old(self).timeout_qcs_cache@[v]);
                    assert(active_views@.contains(v));
                }
            }
        }"""),
                    ("let timeout_qc = self.timeout_qcs_cache.remove(", "let ghost verif_s2 = *self; proof { assert(verif_s2.timeout_inv()); } let timeout_qc = self.timeout_qcs_cache.remove("),
                    ("self.process_timeout_qc(ctx, &timeout_qc)", """proof {
            assert(timeout_qc == verif_q1);
            // a new view is entered only on a quorum: the consumed certificate is valid
            assert(timeout_qc.valid(self.g(), self.config.epoch, &self.config.validators));
            assert forall|v: ViewNumber| #[trigger] self.timeout_qcs_cache@.contains_key(v) implies self.timeout_entry_ok(v) by {
                assert(v != message.view.number);
                assert(verif_s2.timeout_qcs_cache@.contains_key(v)); assert(verif_s2.timeout_entry_ok(v));
                assert(self.timeout_qcs_cache@[v] == verif_s2.timeout_qcs_cache@[v]);
                assert(self.timeout_views_cache == verif_s2.timeout_views_cache && self.config == verif_s2.config); }
            a7_timeout_qc_bounded(timeout_qc, self.g(), self.config.epoch, &self.config.validators);
        }
        self.process_timeout_qc(ctx, &timeout_qc)""")],
         spec=(common_post % dict(E="TimeoutError")).replace("    requires old(self).wf(),", "    requires old(self).wf(), old(self).timeout_inv(),")
              + "            final(self).timeout_inv(),\n"
                "            final(self).commit_qcs_cache == old(self).commit_qcs_cache, final(self).commit_views_cache == old(self).commit_views_cache,\n")


def add_start(U):
    U.raw("""
pub open spec fn snap_of(b: ChonkyV2State) -> Snap {
    Snap { view: b.view_number, phase: b.phase, high_vote: b.high_vote, high_commit_qc: b.high_commit_qc, high_timeout_qc: b.high_timeout_qc }
}
pub open spec fn snap_default() -> Snap {
    Snap { view: ViewNumber(0), phase: Phase::Prepare, high_vote: None, high_commit_qc: None, high_timeout_qc: None }
}
""", label="spec start")
    U.raw("""
// derive-like glue: the trait impls delegate to the inherent functions verified below (so code using Default::default still type-checks)
impl Default for ChonkyV2State { #[verifier::external_body] fn default() -> Self { unimplemented!() } }
impl Default for ReplicaState { #[verifier::external_body] fn default() -> Self { unimplemented!() } }
""", label="Default glue")
    U.fn(F_STATE, "impl Default for ChonkyV2State :: fn default", wrap="impl ChonkyV2State", ret="r",
         subs=[("vec![]", "Vec::new()   /* R-std */")],
         spec="    ensures snap_of(r) == snap_default(), r.epoch == EpochNumber(0),\n")
    U.fn(F_MOD, SM + " :: fn start", wrap=SM, ret="r", rules_=RULES,
         header_subs=[("ctx::Ctx", "Ctx"), ("ctx::Result<Self>", "Result<Self, CtxError>"),
                      ("ctx::channel::UnboundedSender<ToNetworkMessage>", "OutChannel"),
                      ("sync::prunable_mpsc::Receiver<FromNetworkMessage>", "InChannel"),
                      ("sync::watch::Sender<Option<validator::v2::ProposalJustification>>", "ProposerSender")],
         subs=PATHS + [("let mut block_proposal_cache: BTreeMap<_, HashMap<_, _>> = BTreeMap::new();",
                        "let block_proposal_cache = ProposalCache::from_proposals(&backup.proposals);   /* R-stub (with the loop below): proposal cache, not voting state */"),
                       ("for proposal in backup.proposals { $B }", ""),
                       ("time::Deadline::Finite(ctx.now() + config.view_timeout)", "deadline_after(ctx, &config.view_timeout)   /* R-stub */"),
                       ("commit_views_cache: BTreeMap::new()", "commit_views_cache: ViewsCache::new()"),
                       ("commit_qcs_cache: BTreeMap::new()", "commit_qcs_cache: CommitQcsCache::new()"),
                       ("timeout_views_cache: BTreeMap::new()", "timeout_views_cache: ViewsCache::new()"),
                       ("timeout_qcs_cache: BTreeMap::new()", "timeout_qcs_cache: TimeoutQcsCache::new()"),
                       ("view_start: ctx.now(),", "view_start: ctx.now(), verif_persisted: Ghost(snap_of(backup)), verif_sent: Ghost(Seq::empty()),   /* W-ghost */")],
         spec="""
    ensures
        // restart restores exactly the durable voting state (view, PHASE, high vote, high certificates) when it belongs to this epoch,
        // and starts from the initial state otherwise
        r matches Ok(sm) ==> sm.config == config && (match config.engine_manager.stored_state() {
            ReplicaState::V2(b) => sm.snapshot() == (if b.epoch == config.epoch { snap_of(b) } else { snap_default() })
        }) && sm.verif_persisted@ == sm.snapshot() && sm.verif_sent@.len() == 0
            // the vote bookkeeping starts empty (its invariant holds trivially)
            && sm.commit_qcs_cache@ == Map::<(ViewNumber, ReplicaCommit), CommitQC>::empty() && sm.commit_inv()
            && sm.timeout_qcs_cache@ == Map::<ViewNumber, TimeoutQC>::empty() && sm.timeout_inv(),
""")
    U.fn(F_PROPOSER, "fn create_proposal", ret="r", rules_=RULES,
         header_subs=[("ctx::Ctx", "Ctx"), ("ctx::Result<validator::v2::LeaderProposal>", "Result<LeaderProposal, CtxError>"), ("validator::v2::", "", None)],
         subs=PATHS + [("anyhow_error()\n                .into()", "CtxError::Internal(anyhow_error())   /* R-errmsg */")],
         post_subs=[("let (block_number, opt_block_hash) =", "proof { lemma_prepare_implied(justification, cfg.genesis(), cfg.epoch, &cfg.validators); } let (block_number, opt_block_hash) =")],
         props=["C02", "C05"],
         spec="""
    requires cfg.validators.wf(), justification.valid(cfg.genesis(), cfg.epoch, &cfg.validators),
    ensures r matches Ok(p) ==> p.justification == justification
        // the proposer attaches a payload exactly when the justification does not force a re-proposal
        && exists|im: (BlockNumber, Option<PayloadHash>)| #[trigger] is_implied(justification, &cfg.validators, cfg.first_block, im)
              && (im.1.is_some() <==> p.proposal_payload.is_none()),
""")

def add_label(U):
    """ConsensusMsg::label(): the selection function tells message KINDS apart by comparing labels, so the labels must be pairwise
    distinct. The exec function is copied as usual; a spec copy (R-spec: same text, `&'static str` -> Seq<char>, every string literal
    L -> L@) is generated from the same source, and the injectivity lemma's proof hints (reveal_strlit + one distinguishing length
    or character per pair of DIFFERENT literals) are generated from the literals found in the current source. Two kinds sharing a
    literal leave the lemma unprovable; renaming a label does not."""
    from vx.items import load
    from vx.lex import tokenize
    it = load(U.repo, F_CONS).find(["impl ConsensusMsg", "fn label"])
    lits = []
    for t in tokenize(it.body_text()):
        if t.kind == "str" and t.text not in lits:
            lits.append(t.text)
    U.fn(F_CONS, "impl ConsensusMsg :: fn label", wrap="impl ConsensusMsg", ret="r", props=["C16"],
         subs=[("v2::ChonkyMsg", "ChonkyMsg", None)],
         spec="    ensures r@ == self.spec_label(),\n")
    U.fn(F_CONS, "impl ConsensusMsg :: fn label", wrap="impl ConsensusMsg", name="spec_label", props=["C16"], canary=False, vis=False,
         label="impl ConsensusMsg :: spec fn spec_label (R-spec copy of label)",
         header_subs=[("pub fn label", "pub open spec fn label"), ("&'static str", "Seq<char>")],
         subs=[("v2::ChonkyMsg", "ChonkyMsg", None)] + [(l, l + "@", None) for l in lits])
    hints = ["    " + " ".join("reveal_strlit(%s);" % l for l in lits)]
    vals = [eval(l) if l.startswith('"') else None for l in lits]
    for i in range(len(lits)):
        for j in range(i + 1, len(lits)):
            x, y = vals[i], vals[j]
            if x is None or y is None or x == y:
                continue
            if len(x) != len(y):
                hints.append("    assert(%s@.len() == %d && %s@.len() == %d);" % (lits[i], len(x), lits[j], len(y)))
            else:
                k = next(k for k in range(len(x)) if x[k] != y[k])
                hints.append("    assert(%s@[%d] == %r && %s@[%d] == %r);" % (lits[i], k, x[k], lits[j], k, y[k]))
    U.raw("""
// messages of different kinds carry different labels (so comparing labels tells kinds apart); same kind => same label is by definition
pub proof fn lemma_label_injective(a: ConsensusMsg, b: ConsensusMsg)
    requires kind_of(a) != kind_of(b),
    ensures a.spec_label() != b.spec_label(),
{
%s
}
""" % "\n".join(hints), label="lemma label injective (hints generated from the literals in /repo)", props=["C16"], canary=True)
    U.sections[-1].meta.update(file=F_CONS, lines=list(it.line_span()))


def add_select(U):
    """C16 (channel half): the selection function that decides which pending consensus message survives."""
    F_LIB = "node/components/bft/src/lib.rs"
    F_MPSC = "node/libs/concurrency/src/sync/prunable_mpsc/mod.rs"
    U.item(F_MPSC, "enum SelectionFunctionResult", attrs="#[derive(PartialEq, Eq, Structural)]", props=["C16"])
    U.item(F_IO, "struct ConsensusReq", subs=[("validator::Signed<validator::ConsensusMsg>", "Signed<ConsensusMsg>"), ("oneshot::Sender<()>", "AckSender")], props=["C16"])
    U.raw("""
#[verifier::external_body] pub struct AckSender { _p: u8 }
pub open spec fn kind_of(m: ConsensusMsg) -> int {
    match m { ConsensusMsg::V2(ChonkyMsg::LeaderProposal(_)) => 0, ConsensusMsg::V2(ChonkyMsg::ReplicaCommit(_)) => 1,
              ConsensusMsg::V2(ChonkyMsg::ReplicaNewView(_)) => 2, ConsensusMsg::V2(ChonkyMsg::ReplicaTimeout(_)) => 3 }
}
impl ConsensusMsg {
    pub open spec fn spec_view_number(&self) -> ViewNumber {
        match self {
            ConsensusMsg::V2(ChonkyMsg::LeaderProposal(m)) => m.justification.spec_view().number,
            ConsensusMsg::V2(ChonkyMsg::ReplicaCommit(m)) => m.view.number,
            ConsensusMsg::V2(ChonkyMsg::ReplicaNewView(m)) => m.justification.spec_view().number,
            ConsensusMsg::V2(ChonkyMsg::ReplicaTimeout(m)) => m.view.number,
        }
    }
    pub open spec fn spec_genesis(&self) -> GenesisHash {
        match self {
            ConsensusMsg::V2(ChonkyMsg::LeaderProposal(m)) => m.justification.spec_view().genesis,
            ConsensusMsg::V2(ChonkyMsg::ReplicaCommit(m)) => m.view.genesis,
            ConsensusMsg::V2(ChonkyMsg::ReplicaNewView(m)) => m.justification.spec_view().genesis,
            ConsensusMsg::V2(ChonkyMsg::ReplicaTimeout(m)) => m.view.genesis,
        }
    }
}
pub type FromNetworkMessage = ConsensusReq;
""", label="prelude select", props=["C16"])
    add_label(U)
    U.fn(F_CONS2, "impl ChonkyMsg :: fn view_number", wrap="impl ChonkyMsg", ret="r", props=["C16", "C10"],
         spec="    ensures r == ConsensusMsg::V2(*self).spec_view_number(),      // total: no panic for any (unverified) message\n")
    U.fn(F_CONS, "impl ConsensusMsg :: fn view_number", wrap="impl ConsensusMsg", ret="r", props=["C16", "C10"],
         spec="    ensures r == self.spec_view_number(),\n")
    U.fn(F_CONS2, "impl ChonkyMsg :: fn genesis", wrap="impl ChonkyMsg", ret="r", props=["C16", "C10"],
         spec="    ensures r == ConsensusMsg::V2(*self).spec_genesis(),\n")
    U.fn(F_CONS, "impl ConsensusMsg :: fn genesis", wrap="impl ConsensusMsg", ret="r", props=["C16", "C10"],
         spec="    ensures r == self.spec_genesis(),\n")
    U.fn(F_LIB, "fn inbound_selection_function", ret="r", props=["C16"],
         proof_at_start="proof { if kind_of(old_req.msg.msg) != kind_of(new_req.msg.msg) { lemma_label_injective(old_req.msg.msg, new_req.msg.msg); } }   /* W-ghost */",
         spec="""
    ensures
        // messages of different senders or kinds never displace each other
        (old_req.msg.key != new_req.msg.key || kind_of(old_req.msg.msg) != kind_of(new_req.msg.msg)) ==> r == SelectionFunctionResult::Keep,
        // same sender and kind: exactly the one with the HIGHER view survives; on a tie the pending one stays (the new one is dropped)
        (old_req.msg.key == new_req.msg.key && kind_of(old_req.msg.msg) == kind_of(new_req.msg.msg)) ==>
            r == (if old_req.msg.msg.spec_view_number().0 < new_req.msg.msg.spec_view_number().0 { SelectionFunctionResult::DiscardOld }
                  else { SelectionFunctionResult::DiscardNew }),
""")
    U.fn(F_LIB, "fn inbound_filter_predicate", ret="r", props=["C16"],
         spec="    ensures r == sig_ok(new_req.msg.msg, new_req.msg.key, new_req.msg.sig),      // dropped only if the signature is invalid\n")


def build(repo):
    U = Unit("replica", ["C04"], desc="replica state machine", uses=T.USES + "\nuse std::sync::Arc;")
    U.repo = repo
    # the certificate functions are premises of every replica rule: the properties served by this unit count their failures too
    U.props = ["C04", "C01", "C02", "C03", "C05", "C16"]
    T.add_base_types(U)
    # R-path: the `v2::` module prefix is dropped wherever a function body carries it (after `validator::` has been dropped)
    U.tail_subs = list(U.tail_subs) + [("v2::", "", None), ("ctx::Error", "CtxError", None), ("ctx::Canceled", "Canceled", None)]
    Q.add_signers(U)
    Q.add_commit(U)
    Q.add_timeout(U)
    Q.add_rest(U)
    U.props = ["C02"]
    I.add_implied(U)
    U.props = ["C03", "C05", "C01", "C10"]
    U.item(F_CONS2, "enum Phase", attrs=T.D_COPY)
    U.item(F_CONS2, "enum ChonkyMsg")
    U.item(F_CONS, "enum ConsensusMsg", subs=[("v2::ChonkyMsg", "ChonkyMsg")])
    U.item(T.F_BLOCK, "struct Proposal")
    U.item(F_STATE, "struct ChonkyV2State")
    U.item(F_STATE0, "enum ReplicaState")
    U.item(F_IO, "struct ConsensusInputMessage", subs=[("validator::Signed<validator::ConsensusMsg>", "Signed<ConsensusMsg>")])
    U.raw(T.clone_impl("FinalBlock") + T.clone_impl("TimeoutQC") if False else T.clone_impl("FinalBlock"), label="clone FinalBlock")
    U.raw(common.STD_IS_NONE_OR + PRELUDE, label="prelude replica")
    add_core(U)
    add_views(U)
    add_proposal(U)
    U.props = ["C03", "C05", "C01", "C10", "C16"]      # the vote-cache half of C16 lives in on_commit / on_timeout / start
    add_votes(U)
    add_start(U)
    U.props = ["C03", "C05", "C01", "C10"]
    add_select(U)
    U.assume("A4: a handler runs on one task and owns &mut self; .await points are sequential calls")
    U.assume("A5: EngineManager::set_state is durable when it returns Ok; what get_state returns is what was last stored")
    U.assume("H-ind: the induction over all histories that turns the per-handler rules into global agreement is not mechanised")
    return U
