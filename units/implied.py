"""U-implied (C02): TimeoutQC::{high_vote, high_qc}, ProposalJustification::get_implied_block + sub-quorum counting lemma."""
from vx.unit import Unit
from units import roles_types as T
from units import qc as Q

F_RT = Q.F_RT
F_LP = Q.F_LP

PRELUDE = r"""
// ---------------- R-type: the local `HashMap<BlockHeader, u64>` of high_vote (A1: a finite map) ----------------
#[verifier::external_body]
pub struct HvCount { _p: u8 }
impl HvCount {
    pub uninterp spec fn view(&self) -> Map<BlockHeader, u64>;
    #[verifier::external_body]
    pub fn new() -> (r: Self) ensures r@ == Map::<BlockHeader, u64>::empty() { unimplemented!() }
}
// count.entry(K).or_default()  ->  &mut u64     (A1: entry API)
#[verifier::external_body]
pub fn tmpl_count_entry_or_default<'a>(m: &'a mut HvCount, k: BlockHeader) -> (e: &'a mut u64)
    ensures *e == (if old(m)@.contains_key(k) { old(m)@[k] } else { 0u64 }),
            final(m)@ == old(m)@.insert(k, *final(e)),
{ unimplemented!() }
// count.into_iter().filter(P).collect::<Vec<_>>()     (A1: every entry exactly once, in unspecified order)
#[verifier::external_body]
pub fn tmpl_count_into_iter_filter_collect<P: FnMut(&(BlockHeader, u64)) -> bool>(m: HvCount, p: P,
        Ghost(gp): Ghost<spec_fn((BlockHeader, u64)) -> bool>) -> (r: Vec<(BlockHeader, u64)>)
    requires
        forall|x: (BlockHeader, u64)| #[trigger] p.requires((&x,)),
        forall|x: (BlockHeader, u64), b: bool| #[trigger] p.ensures((&x,), b) ==> b == gp(x),
    ensures
        forall|i: int| 0 <= i < r@.len() ==> m@.contains_key((#[trigger] r@[i]).0) && m@[r@[i].0] == r@[i].1 && gp(r@[i]),
        forall|i: int, j: int| 0 <= i < j < r@.len() ==> (#[trigger] r@[i]).0 != (#[trigger] r@[j]).0,
        forall|h: BlockHeader| #[trigger] m@.contains_key(h) && gp((h, m@[h])) ==> exists|i: int| 0 <= i < r@.len() && (#[trigger] r@[i]).0 == h,
{ unimplemented!() }
// map.keys().filter_map(F).max_by_key(K)     (A1)
#[verifier::external_body]
pub fn tmpl_map_keys_filter_map_max_by_key<'a, F: FnMut(&'a ReplicaTimeout) -> Option<&'a CommitQC>, K: FnMut(&&'a CommitQC) -> ViewNumber>(
        m: &'a TqcMap, f: F, k: K) -> (r: Option<&'a CommitQC>)
    requires
        forall|j: int| 0 <= j < m.entries().len() ==> f.requires((&(#[trigger] m.entries()[j]).0,)),
        forall|j: int, o: Option<&CommitQC>| 0 <= j < m.entries().len() && #[trigger] f.ensures((&m.entries()[j].0,), o)
            ==> opt_same(o, m.entries()[j].0.high_qc),
        forall|q: &CommitQC| #[trigger] k.requires((&q,)),
        forall|q: &CommitQC, v: ViewNumber| #[trigger] k.ensures((&q,), v) ==> v == q.message.view.number,
    ensures
        r.is_none() <==> (forall|j: int| 0 <= j < m.entries().len() ==> (#[trigger] m.entries()[j]).0.high_qc.is_none()),
        r.is_some() ==> (exists|j: int| 0 <= j < m.entries().len() && (#[trigger] m.entries()[j]).0.high_qc == Some(*r.unwrap())),
        r.is_some() ==> (forall|j: int| 0 <= j < m.entries().len() && (#[trigger] m.entries()[j]).0.high_qc.is_some()
                            ==> m.entries()[j].0.high_qc.unwrap().message.view.number.0 <= r.unwrap().message.view.number.0),
{ unimplemented!() }
pub open spec fn opt_same(o: Option<&CommitQC>, q: Option<CommitQC>) -> bool {
    (o.is_none() <==> q.is_none()) && (o.is_some() ==> q == Some(*o.unwrap()))
}
"""

SPEC = r"""
// ---------------- specification (C02), written from the property statement ----------------
// weight of the signers of timeout votes (among the first k entries) whose high vote is for header h
pub open spec fn hvw(en: Seq<(ReplicaTimeout, Signers)>, vec: Seq<ValidatorInfo>, h: BlockHeader, k: int) -> int
    decreases k
{
    if k <= 0 { 0 } else {
        hvw(en, vec, h, k - 1) + (if en[k - 1].0.high_vote.is_some() && en[k - 1].0.high_vote.unwrap().proposal == h {
            sw(en[k - 1].1.0@, vec, vec.len() as int) } else { 0 })
    }
}
pub proof fn lemma_hvw_bound(en: Seq<(ReplicaTimeout, Signers)>, vec: Seq<ValidatorInfo>, h: BlockHeader, k: int)
    requires 0 <= k <= en.len(), en_lens(en, vec.len() as int), en_disjoint(en, k), total(vec, vec.len() as int) <= u64::MAX,
    ensures 0 <= hvw(en, vec, h, k) <= sw(ubits(en, vec.len() as int, k), vec, vec.len() as int) <= total(vec, vec.len() as int),
    decreases k
{
    lemma_tqc_weight(en, vec, k);
    if k > 0 {
        lemma_hvw_bound(en, vec, h, k - 1);
        lemma_tqc_weight(en, vec, k - 1);
        lemma_sw_le_total(en[k - 1].1.0@, vec, vec.len() as int);
        let gm = |j: int| sw(en[j].1.0@, vec, vec.len() as int) as u64;
        assert(map_sum(gm, k) == map_sum(gm, k - 1) + gm(k - 1) as int);
    }
}
impl TimeoutQC {
    pub open spec fn shape_ok(&self, s: &Schedule) -> bool {      // what verify() has established
        en_lens(self.map.entries(), s.vec@.len() as int) && en_disjoint(self.map.entries(), self.map.entries().len() as int)
    }
    // "there's a subquorum of votes for it": h is THE header whose reporters weigh at least n-3f
    pub open spec fn is_high_vote(&self, s: &Schedule, h: BlockHeader) -> bool {
        let en = self.map.entries();
        &&& hvw(en, s.vec@, h, en.len() as int) >= spec_subquorum(s.total_weight as nat)
        &&& forall|h2: BlockHeader| hvw(en, s.vec@, h2, en.len() as int) >= spec_subquorum(s.total_weight as nat) ==> h2 == h
    }
    pub open spec fn spec_high_vote(&self, s: &Schedule) -> Option<BlockHeader> {
        if exists|h: BlockHeader| self.is_high_vote(s, h) { Some(choose|h: BlockHeader| self.is_high_vote(s, h)) } else { None }
    }
    pub open spec fn is_high_qc(&self, q: Option<&CommitQC>) -> bool {
        let en = self.map.entries();
        &&& q.is_none() <==> (forall|j: int| 0 <= j < en.len() ==> (#[trigger] en[j]).0.high_qc.is_none())
        &&& q.is_some() ==> (exists|j: int| 0 <= j < en.len() && (#[trigger] en[j]).0.high_qc == Some(*q.unwrap()))
        &&& q.is_some() ==> (forall|j: int| 0 <= j < en.len() && (#[trigger] en[j]).0.high_qc.is_some()
                ==> en[j].0.high_qc.unwrap().message.view.number.0 <= q.unwrap().message.view.number.0)
    }
}
"""

IMPLIED_SPEC = r"""
// r is the block implied by justification j (the postcondition of get_implied_block, shared with the replica unit)
pub open spec fn is_implied(j: ProposalJustification, s: &Schedule, first: BlockNumber, r: (BlockNumber, Option<PayloadHash>)) -> bool {
    match j {
        ProposalJustification::Commit(qc) => r == j.spec_implied(s, first, None, None),
        ProposalJustification::Timeout(qc) => exists|hq: Option<&CommitQC>| #[trigger] qc.is_high_qc(hq)
            && r == j.spec_implied(s, first, qc.spec_high_vote(s), hq),
    }
}
impl ProposalJustification {
    // The rule of the statement: after a commit certificate for (n,h) the next block is n+1 (fresh payload); after a timeout
    // certificate the block is the sub-quorum high vote (re-proposal of ITS payload) when that vote is for a HIGHER number than
    // the highest certificate reported, otherwise a fresh block right after the highest certificate (or the first block).
    pub open spec fn spec_implied(&self, s: &Schedule, first: BlockNumber, hv: Option<BlockHeader>, hq: Option<&CommitQC>)
        -> (BlockNumber, Option<PayloadHash>)
    {
        match self {
            ProposalJustification::Commit(qc) => (BlockNumber((qc.message.proposal.number.0 + 1) as u64), None),
            ProposalJustification::Timeout(qc) => {
                if hv.is_some() && (hq.is_none() || hv.unwrap().number.0 > hq.unwrap().message.proposal.number.0) {
                    (hv.unwrap().number, Some(hv.unwrap().payload))
                } else if hq.is_some() {
                    (BlockNumber((hq.unwrap().message.proposal.number.0 + 1) as u64), None)
                } else {
                    (first, None)
                }
            }
        }
    }
}
"""

SUBQUORUM = r"""
// ---------------- ghost development: the sub-quorum counting argument (C02 one-step form) ----------------
pub open spec fn wsum(w: Seq<nat>, s: Set<int>, k: int) -> nat decreases k
{ if k <= 0 { 0 } else { wsum(w, s, k - 1) + (if s.contains(k - 1) { w[k - 1] } else { 0 }) } }
pub open spec fn wt(w: Seq<nat>, s: Set<int>) -> nat { wsum(w, s, w.len() as int) }
pub open spec fn all_of(w: Seq<nat>) -> Set<int> { vstd::set_lib::set_int_range(0, w.len() as int) }
pub proof fn lemma_inter_union(w: Seq<nat>, a: Set<int>, b: Set<int>, k: int)
    requires 0 <= k <= w.len()
    ensures wsum(w, a.intersect(b), k) + wsum(w, a.union(b), k) == wsum(w, a, k) + wsum(w, b, k)
    decreases k { if k > 0 { lemma_inter_union(w, a, b, k - 1); } }
pub proof fn lemma_mono(w: Seq<nat>, a: Set<int>, b: Set<int>, k: int)
    requires 0 <= k <= w.len(), a.subset_of(b) ensures wsum(w, a, k) <= wsum(w, b, k)
    decreases k { if k > 0 { lemma_mono(w, a, b, k - 1); } }
pub proof fn lemma_diff(w: Seq<nat>, a: Set<int>, b: Set<int>, k: int)
    requires 0 <= k <= w.len()
    ensures wsum(w, a.difference(b), k) + wsum(w, a.intersect(b), k) == wsum(w, a, k)
    decreases k { if k > 0 { lemma_diff(w, a, b, k - 1); } }
// Quorum intersection: two quorums share a validator outside any faulty set of weight <= f (so two commit certificates for the
// same view carry the same block, given that a correct validator signs at most one commit vote per view -- C03)
pub proof fn lemma_two_quorums_share_correct(w: Seq<nat>, q1: Set<int>, q2: Set<int>, faulty: Set<int>)
    requires
        wt(w, all_of(w)) >= 1, q1.subset_of(all_of(w)), q2.subset_of(all_of(w)),
        wt(w, q1) >= wt(w, all_of(w)) - spec_f(wt(w, all_of(w))),
        wt(w, q2) >= wt(w, all_of(w)) - spec_f(wt(w, all_of(w))),
        wt(w, faulty) <= spec_f(wt(w, all_of(w))),
    ensures
        wt(w, q1.intersect(q2)) > spec_f(wt(w, all_of(w))),
        exists|i: int| q1.contains(i) && q2.contains(i) && !faulty.contains(i),
{
    let k = w.len() as int;
    lemma_inter_union(w, q1, q2, k);
    lemma_mono(w, q1.union(q2), all_of(w), k);
    if forall|i: int| q1.contains(i) && q2.contains(i) ==> faulty.contains(i) {
        assert(q1.intersect(q2).subset_of(faulty));
        lemma_mono(w, q1.intersect(q2), faulty, k);
    }
}
// For every committee, every faulty set F of weight <= f, every quorum Q that signed a commit vote for header h in view v and
// every timeout quorum T for view v in which every correct signer of Q reports h as its high vote:
//   the weight reporting h reaches n-3f, and the weight reporting anything else stays below n-3f.
pub proof fn lemma_subquorum(w: Seq<nat>, q: Set<int>, t: Set<int>, faulty: Set<int>, rep_h: Set<int>, rep_other: Set<int>)
    requires
        wt(w, all_of(w)) >= 1, q.subset_of(all_of(w)), t.subset_of(all_of(w)), faulty.subset_of(all_of(w)),
        wt(w, q) >= wt(w, all_of(w)) - spec_f(wt(w, all_of(w))),
        wt(w, t) >= wt(w, all_of(w)) - spec_f(wt(w, all_of(w))),
        wt(w, faulty) <= spec_f(wt(w, all_of(w))),
        q.intersect(t).difference(faulty).subset_of(rep_h),
        rep_other.subset_of(t), rep_other.disjoint(q.difference(faulty)),
    ensures
        wt(w, rep_h) >= spec_subquorum(wt(w, all_of(w))),
        wt(w, rep_other) < spec_subquorum(wt(w, all_of(w))),
{
    let k = w.len() as int;
    lemma_inter_union(w, q, t, k);            lemma_mono(w, q.union(t), all_of(w), k);
    lemma_diff(w, q.intersect(t), faulty, k); lemma_mono(w, q.intersect(t).intersect(faulty), faulty, k);
    lemma_mono(w, q.intersect(t).difference(faulty), rep_h, k);
    lemma_mono(w, rep_other, all_of(w).difference(q).union(faulty), k);
    lemma_inter_union(w, all_of(w).difference(q), faulty, k);
    lemma_diff(w, all_of(w), q, k);
    lemma_mono(w, all_of(w).intersect(q), q, k); lemma_mono(w, q, all_of(w).intersect(q), k);
}
"""


HV_HINT = """proof {
            let en = self.map.entries(); let vec = validators_schedule.vec@; let n = en.len() as int;
            let subq = spec_subquorum(validators_schedule.total_weight as nat);
            assert(min as int == subq && subq >= 1);
            assert forall|h: BlockHeader| hvw(en, vec, h, n) >= subq implies (exists|i: int| 0 <= i < high_votes@.len() && (#[trigger] high_votes@[i]).0 == h) by {
                assert(cnt.contains_key(h));
            }
            if high_votes@.len() == 1 {
                let h = high_votes@[0].0;
                assert(self.is_high_vote(validators_schedule, h));
                let c = choose|h: BlockHeader| self.is_high_vote(validators_schedule, h);
                assert(c == h);
            } else {
                assert forall|h: BlockHeader| !self.is_high_vote(validators_schedule, h) by {
                    if self.is_high_vote(validators_schedule, h) {
                        if high_votes@.len() >= 2 {
                            assert(hvw(en, vec, high_votes@[0].0, n) >= subq);
                            assert(hvw(en, vec, high_votes@[1].0, n) >= subq);
                        }
                    }
                }
            }
        }
        """


def build(repo):
    U = Unit("implied", ["C04", "C02"], desc="implied block of a justification", uses=T.USES)
    U.repo = repo
    T.add_base_types(U)
    Q.add_signers(U)
    Q.add_commit(U)
    Q.add_timeout(U)
    U.props = ["C02"]
    U.item(F_LP, "enum ProposalJustification")
    add_implied(U)
    return U


def add_implied(U):
    U.raw(PRELUDE, label="prelude implied")
    U.raw(SPEC, label="spec implied", canary=True)
    U.fn(T.F_BLOCK, "impl BlockNumber :: fn next", wrap="impl BlockNumber", ret="r", spec="""
    requires self.0 < u64::MAX,          // A7: a certified block number is below 2^64-1 (else this unwrap panics)
    ensures r.0 == self.0 + 1,
""")
    U.fn(F_RT, "impl TimeoutQC :: fn high_vote", wrap="impl TimeoutQC", ret="r",
         header_subs=[("validator::Schedule", "Schedule")],
         subs=[("let mut count: HashMap<_, u64> = HashMap::new();", "let mut count: HvCount = HvCount::new();   // R-type"),
               ("*count.entry(v.proposal).or_default() += $W;",
                "let verif_w = $W; let verif_e = count.entry(v.proposal).or_default(); "
                "proof { lemma_hvw_bound(self.map.entries(), validators_schedule.vec@, v.proposal, verif_i0 as int - 1); "
                "lemma_hvw_bound(self.map.entries(), validators_schedule.vec@, v.proposal, verif_i0 as int); } "
                "*verif_e += verif_w;   // R-seq: `*E += W` evaluates W first")],
         chains=[dict(recv="count", methods=["entry", "or_default"], template="tmpl_count_entry_or_default(&mut count, {a0})"),
                 dict(recv="count", methods=["into_iter", "filter", "collect"],
                      closures={1: dict(ty="&(BlockHeader, u64)", ret="b: bool", spec="ensures b == ({p}.1 >= min)")},
                      template="tmpl_count_into_iter_filter_collect(count, {a1}, Ghost(|x: (BlockHeader, u64)| x.1 >= min))")],
         closures=[dict(prefix="|x| x.0", ty="(BlockHeader, u64)", ret="h: BlockHeader", spec="ensures h == {p}.0")],
         post_subs=[("let min = validators_schedule.subquorum_threshold();",
                     "let ghost cnt = count@; let min = validators_schedule.subquorum_threshold();"),
                    ("if high_votes.len() == 1 {", HV_HINT + "if high_votes.len() == 1 {")],
         index_loops={0: dict(prefix="for (msg, signers) in &self.map", len="self.map.len()", spec_len="self.map.entries().len()",
                              at="self.map.entry_at({i})", pat="(msg, signers)",
                              inv="""
            validators_schedule.wf(), self.shape_ok(validators_schedule),
            0 <= {i} <= self.map.entries().len(),
            forall|h: BlockHeader| #[trigger] count@.contains_key(h) ==> count@[h] as int == hvw(self.map.entries(), validators_schedule.vec@, h, {i} as int),
            forall|h: BlockHeader| !(#[trigger] count@.contains_key(h)) ==> hvw(self.map.entries(), validators_schedule.vec@, h, {i} as int) == 0,
""")},
         spec="""
    requires validators_schedule.wf(), self.shape_ok(validators_schedule),
    ensures r == self.spec_high_vote(validators_schedule),
            r.is_some() ==> self.is_high_vote(validators_schedule, r.unwrap()),
""")
    U.fn(F_RT, "impl TimeoutQC :: fn high_qc", wrap="impl TimeoutQC", ret="r",
         chains=[dict(recv="self.map", methods=["keys", "filter_map", "max_by_key"],
                      closures={1: dict(ty="&ReplicaTimeout", ret="o: Option<&CommitQC>", spec="ensures opt_same(o, {p}.high_qc)"),
                                2: dict(ty="&&CommitQC", ret="v: ViewNumber", spec="ensures v == {p}.message.view.number")},
                      template="tmpl_map_keys_filter_map_max_by_key(&self.map, {a1}, {a2})")],
         spec="    ensures self.is_high_qc(r),\n")
    U.raw(IMPLIED_SPEC, label="spec get_implied_block")
    U.fn(F_LP, "impl ProposalJustification :: fn get_implied_block", wrap="impl ProposalJustification", ret="r",
         header_subs=[("validator::Schedule", "Schedule")],
         spec="""
    requires validators_schedule.wf(),
             self matches ProposalJustification::Timeout(qc) ==> qc.shape_ok(validators_schedule),
             // A7: numbers carried by certificates are below 2^64-1
             self matches ProposalJustification::Commit(qc) ==> qc.message.proposal.number.0 < u64::MAX,
             self matches ProposalJustification::Timeout(qc) ==> forall|j: int| 0 <= j < qc.map.entries().len()
                 && (#[trigger] qc.map.entries()[j]).0.high_qc.is_some() ==> qc.map.entries()[j].0.high_qc.unwrap().message.proposal.number.0 < u64::MAX,
    ensures is_implied(*self, validators_schedule, fork_first_block, r),
""")
    U.raw(SUBQUORUM, label="sub-quorum lemma", canary=True)
    U.assume("A1: std HashMap entry API / into_iter / filter / collect and BTreeMap keys / filter_map / max_by_key behave as documented "
             "(3 pipeline templates; the closures passed to them are the repository's and are verified)")
    U.assume("A7: block numbers carried by certificates are < 2^64-1 (BlockNumber::next would panic otherwise)")
    U.assume("H-ind: the one-step sub-quorum lemma is not chained over arbitrarily many views (no history induction)")
