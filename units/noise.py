"""U-noise (C13): noise::bytes::Buffer and the read/write paths of noise::Stream."""
from vx.unit import Unit
from units import common

F_B = "node/components/network/src/noise/bytes.rs"
F_S = "node/components/network/src/noise/stream.rs"

STD_SLICE = r"""
// ---------------- R-std wrappers: mutable range indexing of Box<[u8]> (vstd has no IndexMut<Range> spec); A1, written from the std docs.
// Each wrapper's body is the std expression it replaces; the range checks std would panic on are preconditions.
#[verifier::external_body]
pub fn verif_copy_into(s: &mut Box<[u8]>, a: usize, b: usize, src: &[u8])
    requires a <= b <= old(s)@.len(), src@.len() == b - a,
    ensures final(s)@ == old(s)@.subrange(0, a as int) + src@ + old(s)@.subrange(b as int, old(s)@.len() as int),
{ s[a..b].copy_from_slice(src) }
#[verifier::external_body]
pub fn verif_tail_mut(s: &mut Box<[u8]>, a: usize) -> (r: &mut [u8])
    requires a <= old(s)@.len(),
    ensures r@ == old(s)@.subrange(a as int, old(s)@.len() as int), final(r)@.len() == r@.len(),
            final(s)@ == old(s)@.subrange(0, a as int) + final(r)@,
{ &mut s[a..] }
#[verifier::external_body]
pub fn verif_to_array<const N: usize>(s: &Box<[u8]>, a: usize, b: usize) -> (r: [u8; N])
    requires a <= b <= s@.len(), b - a == N,
    ensures r@ == s@.subrange(a as int, b as int),
{ s[a..b].try_into().unwrap() }
#[verifier::external_body]
pub fn verif_set_array<const N: usize>(s: &mut Box<[u8]>, a: usize, b: usize, p: [u8; N])
    requires a <= b <= old(s)@.len(), b - a == N,
    ensures final(s)@ == old(s)@.subrange(0, a as int) + p@ + old(s)@.subrange(b as int, old(s)@.len() as int),
{ *<&mut [u8; N]>::try_from(&mut s[a..b]).unwrap() = p; }
#[verifier::external_body]
pub fn verif_copy_within(s: &mut Box<[u8]>, a: usize, b: usize, dest: usize)
    requires a <= b <= old(s)@.len(), dest + (b - a) <= old(s)@.len(),
    ensures final(s)@ == old(s)@.subrange(0, dest as int) + old(s)@.subrange(a as int, b as int)
                         + old(s)@.subrange(dest + (b - a), old(s)@.len() as int),
{ s.copy_within(a..b, dest) }
"""

SPEC_BUF = r"""
// ---------------- specification of bytes::Buffer (C13): a window [begin, end) into a fixed allocation ----------------
impl Buffer {
    pub open spec fn wf(&self) -> bool { self.begin <= self.end <= self.inner@.len() <= usize::MAX }
    pub open spec fn content(&self) -> Seq<u8> { self.inner@.subrange(self.begin as int, self.end as int) }
    pub open spec fn cap(&self) -> int { self.inner@.len() - self.end }
    pub open spec fn total(&self) -> int { self.inner@.len() as int }
}
"""


def add_buffer(U):
    U.raw(common.STD_MIN + common.STD_BOXED_SLICE + STD_SLICE, label="prelude std")
    U.item(F_B, "struct Buffer")
    U.raw(SPEC_BUF, label="spec buffer")
    W = "impl Buffer"
    U.fn(F_B, "impl Buffer :: fn new", wrap=W, ret="r", spec="""
    ensures r.wf(), r.begin == 0, r.end == 0, r.total() == capacity,
""")
    U.fn(F_B, "impl Buffer :: fn len", wrap=W, ret="r", spec="""
    requires self.wf(),
    ensures r == self.content().len(), r == self.end - self.begin,
""")
    U.fn(F_B, "impl Buffer :: fn capacity", wrap=W, ret="r", spec="""
    requires self.wf(),
    ensures r == self.cap(),
""")
    U.fn(F_B, "impl Buffer :: fn push", wrap=W, ret="n", subs=[("std::cmp::min(", "verif_min_usize("),
               ("self.inner[$A..$B].copy_from_slice($S);", "verif_copy_into(&mut self.inner, $A, $B, $S);   // R-std")], spec="""
    requires old(self).wf(),
    ensures final(self).wf(), final(self).begin == old(self).begin, final(self).total() == old(self).total(),
            n as int == (if old(self).cap() <= buf@.len() { old(self).cap() } else { buf@.len() as int }),
            // appends exactly the first n bytes of buf, nothing else changes
            final(self).content() == old(self).content() + buf@.subrange(0, n as int),
""")
    U.fn(F_B, "impl Buffer :: fn as_mut_capacity", wrap=W, ret="r",
         subs=[("&mut self.inner[$A..]", "verif_tail_mut(&mut self.inner, $A)   /* R-std */")], spec="""
    requires old(self).wf(),
    ensures r@.len() == old(self).cap(), r@ == old(self).inner@.subrange(old(self).end as int, old(self).inner@.len() as int),
            // writing through the returned slice changes only the bytes past `end`
            final(self).begin == old(self).begin, final(self).end == old(self).end, final(self).inner@.len() == old(self).inner@.len(),
            final(self).inner@ == old(self).inner@.subrange(0, old(self).end as int) + final(r)@,
""")
    U.fn(F_B, "impl Buffer :: fn extend", wrap=W, subs=[("debug_assert!(self.end + n <= self.inner.len());", "assert(self.end + n <= self.inner@.len());   // R-dbg")], spec="""
    requires old(self).wf(), n <= old(self).cap(),
    ensures final(self).wf(), final(self).begin == old(self).begin, final(self).end == old(self).end + n, final(self).inner == old(self).inner,
""")
    U.fn(F_B, "impl Buffer :: fn as_slice", wrap=W, ret="r", spec="""
    requires self.wf(),
    ensures r@ == self.content(),
""")
    U.fn(F_B, "impl Buffer :: fn take", wrap=W, subs=[("debug_assert!(self.begin + n <= self.end);", "assert(self.begin + n <= self.end);   // R-dbg")], spec="""
    requires old(self).wf(), n <= old(self).end - old(self).begin,
    ensures final(self).wf(), final(self).end == old(self).end, final(self).inner == old(self).inner, final(self).begin == old(self).begin + n,
            final(self).content() == old(self).content().subrange(n as int, old(self).content().len() as int),
""")
    U.fn(F_B, "impl Buffer :: fn prefix", wrap=W, ret="r",
         subs=[("debug_assert!(self.begin + N <= self.end);", "assert(self.begin + N <= self.end);   // R-dbg"),
               ("self.inner[$A..$B].try_into().unwrap()", "verif_to_array::<N>(&self.inner, $A, $B)   /* R-std */")], spec="""
    requires self.wf(), N <= self.end - self.begin,
    ensures r@ == self.content().subrange(0, N as int),
""")
    U.fn(F_B, "impl Buffer :: fn set_prefix", wrap=W,
         subs=[("*<&mut [u8; N]>::try_from(&mut self.inner[$A..$B]).unwrap() = prefix;",
                "verif_set_array::<N>(&mut self.inner, $A, $B, prefix);   // R-std")], spec="""
    requires old(self).wf(), N <= old(self).cap(),
    ensures final(self).begin == old(self).begin, final(self).end == old(self).end, final(self).inner@.len() == old(self).inner@.len(),
            // writes the N bytes right after `end`; the content window is untouched
            final(self).inner@.subrange(0, old(self).end as int) == old(self).inner@.subrange(0, old(self).end as int),
            final(self).inner@.subrange(old(self).end as int, old(self).end + N) == prefix@,
            final(self).inner@.subrange(old(self).end + N, old(self).inner@.len() as int) == old(self).inner@.subrange(old(self).end + N, old(self).inner@.len() as int),
""")
    U.fn(F_B, "impl Buffer :: fn shift", wrap=W,
         subs=[("self.inner.copy_within($A..$B, 0);", "verif_copy_within(&mut self.inner, $A, $B, 0);   // R-std")], spec="""
    requires old(self).wf(),
    ensures final(self).wf(), final(self).begin == 0, final(self).total() == old(self).total(),
            final(self).content() == old(self).content(),          // keeps the bytes ...
            final(self).cap() == old(self).cap() + old(self).begin, // ... and regains the consumed space
""")
    U.fn(F_B, "impl Buffer :: fn reset", wrap=W, spec="""
    ensures final(self).begin == 0, final(self).end == 0, final(self).inner == old(self).inner,
""")


PRELUDE_STREAM = r"""
// ---------------- prelude for noise::Stream (R-type: transport, cipher and task context are opaque handles) ----------------
#[verifier::external_type_specification] #[verifier::accept_recursive_types(T)]
pub struct ExPoll<T>(std::task::Poll<T>);
pub assume_specification<T, E, F: From<E>>                                              // A1: `?` inside a Poll<Result<..>> function
    [<std::task::Poll<Result<T, F>> as std::ops::FromResidual<Result<std::convert::Infallible, E>>>::from_residual]
    (x: Result<std::convert::Infallible, E>) -> (r: std::task::Poll<Result<T, F>>)
    ensures r matches std::task::Poll::Ready(Err(_));
#[verifier::external_body] pub struct IoError { _p: u8 }
#[verifier::external_body] pub struct NoiseError { _p: u8 }
#[verifier::external_body] pub fn io_error() -> IoError { unimplemented!() }
#[verifier::external_body] pub struct Cx { _p: u8 }                                      // std::task::Context
#[verifier::external_body] pub struct Inner { _p: u8 }                                   // the underlying transport S (A4)
#[verifier::external_body] pub struct Noise { _p: u8 }                                   // snow::TransportState (A3)
#[verifier::external_body] pub struct ReadBuf { _p: u8 }                                 // tokio::io::ReadBuf (A4)
pub uninterp spec fn le16(x: u16) -> Seq<u8>;
#[verifier::external_body] pub fn verif_u16_from_le(b: [u8; 2]) -> (r: u16) ensures le16(r) == b@ { u16::from_le_bytes(b) }     // A1 (R-std)
#[verifier::external_body] pub fn verif_u16_to_le(x: u16) -> (r: [u8; 2]) ensures r@ == le16(x), r@.len() == 2 { x.to_le_bytes() }   // A1 (R-std)
// R-cast: `n as u16` must not truncate (the length prefix must equal the frame length)
pub fn verif_usize_to_u16(n: usize) -> (r: u16) requires n <= u16::MAX ensures r == n { n as u16 }
#[verifier::external_body]
pub fn verif_slice_tail_mut(s: &mut [u8], a: usize) -> (r: &mut [u8])                   // A1 (R-std): `&mut s[a..]`
    requires a <= old(s)@.len(),
    ensures r@ == old(s)@.subrange(a as int, old(s)@.len() as int), final(r)@.len() == r@.len(),
            final(s)@ == old(s)@.subrange(0, a as int) + final(r)@,
{ &mut s[a..] }
impl Inner {
    pub uninterp spec fn wire_out(&self) -> Seq<u8>;       // ghost: every byte handed to the transport so far, in order
    pub uninterp spec fn wire_in(&self) -> Seq<u8>;        // ghost: the bytes the transport has still to deliver, in order
    pub uninterp spec fn flushed(&self) -> nat;            // ghost: how many of the wire_out bytes the transport has been told to push out
    // A4 (tokio AsyncRead): Ready(Ok(n)) wrote n <= buf.len() bytes to the front of buf; n == 0 with a NON-EMPTY buf means EOF.
    // Polling with an empty buffer cannot distinguish EOF, hence the precondition ("no false end-of-stream").
    #[verifier::external_body]
    pub fn poll_read_into(&mut self, cx: &mut Cx, buf: &mut [u8]) -> (r: std::task::Poll<Result<usize, IoError>>)
        requires old(buf)@.len() > 0,
        ensures final(buf)@.len() == old(buf)@.len(), final(self).wire_out() == old(self).wire_out(),
                r matches std::task::Poll::Ready(Ok(n)) ==> n <= old(buf)@.len() && n <= old(self).wire_in().len()
                    // the transport delivers its byte stream in order, without loss or duplication (A4)
                    && final(buf)@.subrange(0, n as int) == old(self).wire_in().subrange(0, n as int)
                    && final(self).wire_in() == old(self).wire_in().subrange(n as int, old(self).wire_in().len() as int),
                !(r matches std::task::Poll::Ready(Ok(_))) ==> final(self).wire_in() == old(self).wire_in(),
    { unimplemented!() }
    // A4 (tokio AsyncWrite): Ready(Ok(n)) accepted exactly the first n <= buf.len() bytes
    #[verifier::external_body]
    pub fn poll_write(&mut self, cx: &mut Cx, buf: &[u8]) -> (r: std::task::Poll<Result<usize, IoError>>)
        ensures r matches std::task::Poll::Ready(Ok(n)) ==> n <= buf@.len() && final(self).wire_out() == old(self).wire_out() + buf@.subrange(0, n as int),
                r matches std::task::Poll::Pending ==> final(self).wire_out() == old(self).wire_out(),
                final(self).wire_in() == old(self).wire_in(),
    { unimplemented!() }
    // A4 (tokio AsyncWrite::poll_flush): Ready(Ok) means everything written so far has been pushed out of the transport's own buffer
    #[verifier::external_body]
    pub fn poll_flush(&mut self, cx: &mut Cx) -> (r: std::task::Poll<Result<(), IoError>>)
        ensures final(self).wire_out() == old(self).wire_out(), final(self).wire_in() == old(self).wire_in(),
                r matches std::task::Poll::Ready(Ok(_)) ==> final(self).flushed() == final(self).wire_out().len(),
    { unimplemented!() }
    #[verifier::external_body]
    pub fn poll_shutdown(&mut self, cx: &mut Cx) -> (r: std::task::Poll<Result<(), IoError>>)
        ensures final(self).wire_out() == old(self).wire_out(), final(self).wire_in() == old(self).wire_in() { unimplemented!() }
}
pub uninterp spec fn seal(n: Noise, plain: Seq<u8>) -> Seq<u8>;
pub uninterp spec fn opened(n: Noise, cipher: Seq<u8>) -> Seq<u8>;                         // A3: the plaintext snow returns for a ciphertext, opaque                           // A3: the AEAD ciphertext, opaque
impl Noise {
    // A3 (snow): Ok(n) => n = |payload| + 16 bytes written to the front of out; fails (no panic) if out is too small
    #[verifier::external_body]
    pub fn write_message(&mut self, payload: &[u8], out: &mut [u8]) -> (r: Result<usize, NoiseError>)
        ensures final(out)@.len() == old(out)@.len(),
                r matches Ok(n) ==> n == payload@.len() + AUTHDATA_LEN && n <= old(out)@.len()
                    && final(out)@.subrange(0, n as int) == seal(*old(self), payload@),
    { unimplemented!() }
    // A3 (snow): Ok(m) => m = |ciphertext| - 16 bytes written to the front of out
    #[verifier::external_body]
    pub fn read_message(&mut self, msg: &[u8], out: &mut [u8]) -> (r: Result<usize, NoiseError>)
        ensures final(out)@.len() == old(out)@.len(),
                r matches Ok(m) ==> m + AUTHDATA_LEN == msg@.len() && m <= old(out)@.len()
                    && final(out)@.subrange(0, m as int) == opened(*old(self), msg@),
    { unimplemented!() }
}
impl ReadBuf {
    pub uninterp spec fn rem(&self) -> nat;
    pub uninterp spec fn filled(&self) -> Seq<u8>;
    #[verifier::external_body] pub fn remaining(&self) -> (r: usize) ensures r == self.rem() { unimplemented!() }
    // tokio: put_slice panics if buf.len() > remaining
    #[verifier::external_body]
    pub fn put_slice(&mut self, buf: &[u8]) requires buf@.len() <= old(self).rem()
        ensures final(self).filled() == old(self).filled() + buf@, final(self).rem() == old(self).rem() - buf@.len() { unimplemented!() }
}
// pin_project's projection of Stream<S> (R-type): the fields the read/write paths use
pub struct StreamProject<'a> {
    pub inner: &'a mut Inner,
    pub noise: &'a mut Noise,
    pub read_buf: &'a mut Box<StreamBuffer>,
    pub write_buf: &'a mut Box<StreamBuffer>,
}
impl StreamBuffer {
    pub open spec fn wf(&self) -> bool {
        self.payload.wf() && self.frame.wf() && self.payload.total() == MAX_PAYLOAD_LEN && self.frame.total() == MAX_FRAME_LEN
    }
}
impl<'a> StreamProject<'a> {
    pub open spec fn wf(&self) -> bool {
        &&& self.read_buf.wf() && self.write_buf.wf()
        // consumed frames are shifted out, so an incomplete frame always leaves room to read into
        &&& self.read_buf.frame.begin == 0
        // the plaintext write buffer is only ever filled from the front (push) and emptied completely (reset)
        &&& self.write_buf.payload.begin == 0
        // a pending (encrypted, not yet sent) frame never exceeds the protocol limit
        &&& self.write_buf.frame.content().len() <= MAX_FRAME_LEN
    }
}
impl<'a> StreamProject<'a> {
    // the input not yet decrypted: what sits in the frame buffer followed by what the transport has still to deliver
    pub open spec fn pending_in(&self) -> Seq<u8> { self.read_buf.frame.content() + self.inner.wire_in() }
}
// one frame (length prefix n, then n bytes of ciphertext) leaves the front of the undecoded input and `plain` is what it decrypts to
pub open spec fn frame_consumed(pin_old: Seq<u8>, pin_new: Seq<u8>, noise_old: Noise, plain: Seq<u8>, n: int) -> bool {
    &&& 0 <= n <= u16::MAX && pin_old.len() >= 2 + n && le16(n as u16) == pin_old.subrange(0, 2)
    &&& plain == opened(noise_old, pin_old.subrange(2, 2 + n))
    &&& pin_new == pin_old.subrange(2 + n, pin_old.len() as int)
}
// what poll_read_payload achieves: `p` is the plaintext available afterwards
pub open spec fn payload_ready(pl_old: Seq<u8>, pin_old: Seq<u8>, noise_old: Noise, p: Seq<u8>, pin_new: Seq<u8>) -> bool {
    if pl_old.len() > 0 { p == pl_old && pin_new == pin_old }                       // undelivered plaintext is never overwritten
    else {
        ||| p.len() == 0 && pin_new == pin_old                                      // end of stream: nothing consumed
        ||| exists|n: int| frame_consumed(pin_old, pin_new, noise_old, p, n)        // exactly one frame decoded
    }
}
// the frame that poll_flush_payload builds for a payload: 2-byte little-endian length, then the sealed payload
pub open spec fn frame_of(n: Noise, plain: Seq<u8>) -> Seq<u8> { le16((plain.len() + AUTHDATA_LEN) as u16) + seal(n, plain) }
"""

LEMMA_FRAME = r"""
// ---------------- C13, one frame end to end: what the writer framed is what the reader hands out ----------------
// A1: u16::to_le_bytes is injective and yields 2 bytes.  A3 (snow AEAD): a ciphertext is 16 bytes longer than its plaintext, and a
// reader state paired with the writer state (same key, same nonce) opens a sealed payload to that payload.
pub axiom fn le16_props(a: u16, b: u16) ensures le16(a).len() == 2, le16(a) == le16(b) ==> a == b;
pub uninterp spec fn paired(w: Noise, r: Noise) -> bool;
pub axiom fn seal_props(w: Noise, r: Noise, p: Seq<u8>)
    ensures seal(w, p).len() == p.len() + AUTHDATA_LEN, paired(w, r) ==> opened(r, seal(w, p)) == p;
pub proof fn lemma_frame_roundtrip(w: Noise, rn: Noise, p: Seq<u8>, rest: Seq<u8>, pin_new: Seq<u8>, plain: Seq<u8>, n: int)
    requires paired(w, rn), p.len() + AUTHDATA_LEN <= u16::MAX,
             // the reader's undecoded input starts with the frame the writer built for p ...
             frame_consumed(frame_of(w, p) + rest, pin_new, rn, plain, n),
    // ... then the frame the reader consumes is exactly that one, it decrypts to p, and the following input is untouched
    ensures plain == p, pin_new == rest, n == p.len() + AUTHDATA_LEN,
{
    let len = (p.len() + AUTHDATA_LEN) as u16;
    let f = frame_of(w, p);
    let pin = f + rest;
    le16_props(len, n as u16);
    seal_props(w, rn, p);
    assert(pin.subrange(0, 2) =~= le16(len));
    assert(n as u16 == len);
    assert(pin.subrange(2, 2 + n) =~= seal(w, p));
    assert(pin.subrange(2 + n, pin.len() as int) =~= rest);
}

// ---------------- C13, a whole stream of frames: induction over the one-frame lemma ----------------
// the bytes the writer puts on the wire for payloads ps[i..] (frame i sealed in writer state ws[i])
pub open spec fn wire_from(ws: Seq<Noise>, ps: Seq<Seq<u8>>, i: int) -> Seq<u8>
    decreases ps.len() - i
{
    if i < 0 || i >= ps.len() { Seq::empty() } else { frame_of(ws[i], ps[i]) + wire_from(ws, ps, i + 1) }
}
// ANY k successive reader steps (each satisfying the postcondition of poll_read_payload: exactly one frame leaves the front of the
// undecoded input) on the wire image of ps hand out ps[0], .., ps[k-1] -- in order, nothing lost, duplicated or altered -- and leave exactly
// the wire image of the remaining payloads (followed by whatever came after). A3: reader state i is paired with writer state i.
pub proof fn lemma_stream_roundtrip(ws: Seq<Noise>, rs: Seq<Noise>, ps: Seq<Seq<u8>>, rest: Seq<u8>,
                                    pins: Seq<Seq<u8>>, plains: Seq<Seq<u8>>, ns: Seq<int>, k: int)
    requires
        ws.len() == ps.len(), rs.len() == ps.len(), 0 <= k <= ps.len(), pins.len() >= k + 1, plains.len() >= k, ns.len() >= k,
        forall|i: int| 0 <= i < ps.len() ==> paired(#[trigger] ws[i], rs[i]) && ps[i].len() + AUTHDATA_LEN <= u16::MAX,
        pins[0] == wire_from(ws, ps, 0) + rest,
        forall|i: int| 0 <= i < k ==> frame_consumed(#[trigger] pins[i], pins[i + 1], rs[i], plains[i], ns[i]),
    ensures
        forall|i: int| 0 <= i < k ==> #[trigger] plains[i] == ps[i],
        pins[k] == wire_from(ws, ps, k) + rest,
    decreases k
{
    if k > 0 {
        lemma_stream_roundtrip(ws, rs, ps, rest, pins, plains, ns, k - 1);
        let tail = wire_from(ws, ps, k) + rest;
        assert(wire_from(ws, ps, k - 1) == frame_of(ws[k - 1], ps[k - 1]) + wire_from(ws, ps, k));
        assert(pins[k - 1] =~= frame_of(ws[k - 1], ps[k - 1]) + tail);
        assert(paired(ws[k - 1], rs[k - 1]));
        assert(frame_consumed(pins[k - 1], pins[k], rs[k - 1], plains[k - 1], ns[k - 1]));
        lemma_frame_roundtrip(ws[k - 1], rs[k - 1], ps[k - 1], tail, pins[k], plains[k - 1], ns[k - 1]);
    }
}
"""

HS = [("this: &mut StreamProject<'_, S>", "this: &mut StreamProject<'_>"), ("cx: &mut Context<'_>", "cx: &mut Cx")]
SELF = [("Self::poll_read_frame", "poll_read_frame", None), ("Self::poll_read_payload", "poll_read_payload", None),
        ("Self::poll_flush_frame", "poll_flush_frame", None), ("Self::poll_flush_payload", "poll_flush_payload", None)]
IMPL = "impl<S> Stream<S> where S: io::AsyncRead + io::AsyncWrite + Unpin,"


def add_stream(U):
    for c in ("MAX_TRANSPORT_MSG_LEN", "AUTHDATA_LEN", "MAX_PAYLOAD_LEN", "MAX_FRAME_LEN"):
        U.item(F_S, "const " + c)
    U.item(F_S, "const LENGTH_FIELD_LEN", subs=[("size_of::<u16>()", "2   /* R-std: size_of::<u16>() */")])
    U.item(F_S, "struct Buffer", subs=[("struct Buffer", "struct StreamBuffer"), ("bytes::Buffer", "Buffer", None)])
    U.raw(PRELUDE_STREAM, label="prelude stream")
    U.fn(F_S, IMPL + " :: fn poll_read_frame", ret="r",
         header_subs=HS + [("Poll<io::Result<Option<usize>>>", "Poll<Result<Option<usize>, IoError>>")],
         subs=[("u16::from_le_bytes(this.read_buf.frame.prefix())", "verif_u16_from_le(this.read_buf.frame.prefix())   /* R-std */"),
               ("""{
                let mut frame = io::ReadBuf::new(this.read_buf.frame.as_mut_capacity());
                ready!(Pin::new(&mut this.inner).poll_read(cx, &mut frame))?;
                frame.filled().len()
            }""", "ready!(this.inner.poll_read_into(cx, this.read_buf.frame.as_mut_capacity()))?   /* R-stub: tokio ReadBuf plumbing */")],
         attrs="#[verifier::exec_allows_no_decreases_clause]",
         loops={0: dict(prefix="loop", inv="""
            this.wf(),
            this.write_buf == old(this).write_buf, this.inner.wire_out() == old(this).inner.wire_out(),
            this.read_buf.payload == old(this).read_buf.payload, this.noise == old(this).noise,
            this.pending_in() == old(this).pending_in(),
""")},
         post_subs=[("let n = ready!(this.inner.poll_read_into(", "let ghost verif_f0 = *this.read_buf; let ghost verif_w0 = this.inner.wire_in();   /* W-ghost */\n            let n = ready!(this.inner.poll_read_into("),
                    ("this.read_buf.frame.extend(n);", """this.read_buf.frame.extend(n);
            proof {
                let e = verif_f0.frame.end as int;
                assert(this.read_buf.frame.content() =~= verif_f0.frame.content() + verif_w0.subrange(0, n as int)) by {
                    assert(this.read_buf.frame.inner@.subrange(0, e) == verif_f0.frame.inner@.subrange(0, e));
                    assert forall|i: int| 0 <= i < n implies this.read_buf.frame.inner@[e + i] == verif_w0[i] by {
                        assert(this.read_buf.frame.inner@.subrange(e, this.read_buf.frame.inner@.len() as int).subrange(0, n as int)[i] == verif_w0.subrange(0, n as int)[i]);
                    }
                }
                assert(this.pending_in() =~= verif_f0.frame.content() + verif_w0);
            }""")],
         spec="""
    requires old(this).wf(),
    ensures final(this).wf(), final(this).write_buf == old(this).write_buf, final(this).inner.wire_out() == old(this).inner.wire_out(),
            final(this).read_buf.payload == old(this).read_buf.payload, final(this).noise == old(this).noise,
            // bytes only move from the transport to the end of the frame buffer: the undecoded input is conserved, in order
            final(this).pending_in() == old(this).pending_in(),
            // a complete frame: its length prefix and n bytes of ciphertext are in the buffer
            r matches Poll::Ready(Ok(Some(n))) ==> final(this).read_buf.frame.content().len() >= LENGTH_FIELD_LEN + n
                && le16(n as u16) == final(this).read_buf.frame.content().subrange(0, 2) && n <= u16::MAX,
""")
    U.fn(F_S, IMPL + " :: fn poll_read_payload", ret="r",
         header_subs=HS + [("Poll<io::Result<()>>", "Poll<Result<(), IoError>>")],
         subs=SELF + [("io::Error::new(io::ErrorKind::InvalidData, e)", "io_error()   /* R-errmsg */")],
         post_subs=[("this.read_buf.payload.reset();", "this.read_buf.payload.reset();\n        let ghost verif_s1 = *this.read_buf; let ghost verif_w1 = this.inner.wire_in(); let ghost verif_n1 = *this.noise;   /* W-ghost */"),
                    ("this.read_buf.payload.extend(m);", """this.read_buf.payload.extend(m);
        proof {
            let pin0 = verif_s1.frame.content() + verif_w1;
            let fc = verif_s1.frame.content();
            assert(pin0 == old(this).pending_in());
            assert(pin0.subrange(0, 2) =~= fc.subrange(0, 2));
            assert(pin0.subrange(2, 2 + n) =~= fc.subrange(2, 2 + n));
            assert(this.pending_in() =~= pin0.subrange(2 + n, pin0.len() as int));
            assert(this.read_buf.payload.content() =~= opened(verif_n1, pin0.subrange(2, 2 + n)));
            assert(frame_consumed(old(this).pending_in(), this.pending_in(), *old(this).noise, this.read_buf.payload.content(), n as int));
        }""")],
         spec="""
    requires old(this).wf(),
    ensures final(this).wf(), final(this).write_buf == old(this).write_buf, final(this).inner.wire_out() == old(this).inner.wire_out(),
            // undelivered plaintext is never overwritten; otherwise end of stream (nothing consumed) or EXACTLY ONE frame leaves the
            // front of the undecoded input and the plaintext buffer holds what it decrypts to
            (r matches Poll::Ready(Ok(_))) ==> payload_ready(old(this).read_buf.payload.content(), old(this).pending_in(), *old(this).noise,
                                                             final(this).read_buf.payload.content(), final(this).pending_in()),
            // a failed or pending read consumes nothing
            !(r matches Poll::Ready(Ok(_))) ==> final(this).pending_in() == old(this).pending_in(),
""")
    U.fn(F_S, "impl<S> io::AsyncRead for Stream<S> where S: io::AsyncRead + io::AsyncWrite + Unpin, :: fn poll_read", ret="r",
         header_subs=[("self: Pin<&mut Self>", "this: &mut StreamProject<'_>   /* R-pin: self.project() */"), ("cx: &mut Context<'_>", "cx: &mut Cx"),
                      ("buf: &mut io::ReadBuf<'_>", "buf: &mut ReadBuf"), ("Poll<io::Result<()>>", "Poll<Result<(), IoError>>")],
         subs=SELF + [("let mut this = self.project();", ""), ("(&mut this, cx)", "(this, cx)"),
                      ("std::cmp::min(", "verif_min_usize(")],
         post_subs=[("let n = verif_min_usize(", "let ghost verif_p = this.read_buf.payload.content(); let ghost verif_pin = this.pending_in();   /* W-ghost */\n        let n = verif_min_usize("),
                    ("this.read_buf.payload.take(n);", """this.read_buf.payload.take(n);
        proof {
            assert(this.pending_in() == verif_pin);
            assert(payload_ready(old(this).read_buf.payload.content(), old(this).pending_in(), *old(this).noise, verif_p, this.pending_in()));
            assert(buf.filled() == old(buf).filled() + verif_p.subrange(0, n as int));
            assert(this.read_buf.payload.content() == verif_p.subrange(n as int, verif_p.len() as int));
        }""")],
         spec="""
    requires old(this).wf(),
    ensures final(this).wf(), final(this).write_buf == old(this).write_buf,
            // hands out exactly the next min(remaining, available) plaintext bytes, in order
            r matches Poll::Ready(Ok(_)) ==> final(buf).filled().len() <= old(buf).filled().len() + old(buf).rem()
                && old(buf).filled().is_prefix_of(final(buf).filled()),
            // no loss, duplication or reordering on the way to the caller: with p the plaintext available after (at most) one frame was
            // decoded, the caller gets p's first k = min(remaining, |p|) bytes appended and the rest of p stays buffered
            r matches Poll::Ready(Ok(_)) ==> exists|p: Seq<u8>| #[trigger] payload_ready(old(this).read_buf.payload.content(), old(this).pending_in(), *old(this).noise, p, final(this).pending_in())
                && ({ let k = if old(buf).rem() <= p.len() { old(buf).rem() as int } else { p.len() as int };
                      final(buf).filled() == old(buf).filled() + p.subrange(0, k) && final(this).read_buf.payload.content() == p.subrange(k, p.len() as int) }),
            !(r matches Poll::Ready(Ok(_))) ==> final(this).pending_in() == old(this).pending_in() && final(buf).filled() == old(buf).filled(),
""")
    U.raw(LEMMA_FRAME, label="lemma one frame end to end", canary=True)
    U.fn(F_S, IMPL + " :: fn poll_flush_frame", ret="r",
         header_subs=HS + [("Poll<io::Result<()>>", "Poll<Result<(), IoError>>")],
         subs=[("Pin::new(&mut this.inner)", "this.inner   /* R-pin */"), ("io::ErrorKind::WriteZero.into()", "io_error()   /* R-errmsg */")],
         loops={0: dict(prefix="while this.write_buf.frame.len() > 0", inv="""
            this.wf(), this.read_buf == old(this).read_buf, this.write_buf.payload == old(this).write_buf.payload, this.noise == old(this).noise,
            // nothing is lost or reordered: what is on the wire plus what is still pending is what there was
            this.inner.wire_out() + this.write_buf.frame.content() == old(this).inner.wire_out() + old(this).write_buf.frame.content(),
""", decreases="this.write_buf.frame.content().len()")},
         spec="""
    requires old(this).wf(),
    ensures final(this).wf(), final(this).read_buf == old(this).read_buf, final(this).write_buf.payload == old(this).write_buf.payload,
            final(this).noise == old(this).noise,
            !(r matches Poll::Ready(Err(_))) ==>
                final(this).inner.wire_out() + final(this).write_buf.frame.content() == old(this).inner.wire_out() + old(this).write_buf.frame.content(),
            // Ready(Ok): the pending frame has been handed to the transport COMPLETELY
            r matches Poll::Ready(Ok(_)) ==> final(this).write_buf.frame.content().len() == 0,
""")
    U.fn(F_S, IMPL + " :: fn poll_flush_payload", ret="r",
         header_subs=HS + [("Poll<io::Result<()>>", "Poll<Result<(), IoError>>")],
         subs=SELF + [("&mut this.write_buf.frame.as_mut_capacity()[LENGTH_FIELD_LEN..]",
                       "verif_slice_tail_mut(this.write_buf.frame.as_mut_capacity(), LENGTH_FIELD_LEN)   /* R-std */"),
                      (".map_err(io::Error::other)", ".map_err(|verif_e| io_error())   /* R-errmsg */"),
                      ("(n as u16).to_le_bytes()", "verif_u16_to_le(verif_usize_to_u16(n))   /* R-std, R-cast */")],
         post_subs=[("this.write_buf.payload.take(this.write_buf.payload.len());", """proof {
            let f = this.write_buf.frame;
            let pl = old(this).write_buf.payload.content();
            assert(f.content().subrange(0, 2) == le16(n as u16));
            assert(f.inner@.subrange(2, 2 + n) =~= seal(*old(this).noise, pl));
            assert(f.content().subrange(2, 2 + n) =~= seal(*old(this).noise, pl));
            assert(f.content() =~= f.content().subrange(0, 2) + f.content().subrange(2, 2 + n));
        }
        this.write_buf.payload.take(this.write_buf.payload.len());""")],
         spec="""
    requires old(this).wf(),
    ensures final(this).wf(), final(this).read_buf == old(this).read_buf,
            r matches Poll::Ready(Ok(_)) ==> final(this).write_buf.payload.content().len() == 0
                && (old(this).write_buf.payload.content().len() == 0 ==> final(this).write_buf.frame == old(this).write_buf.frame
                        && final(this).inner.wire_out() == old(this).inner.wire_out())
                // the previous frame went out completely before the new one replaced it; the new frame is <= 65537 bytes
                && (old(this).write_buf.payload.content().len() > 0 ==>
                        final(this).inner.wire_out() == old(this).inner.wire_out() + old(this).write_buf.frame.content()
                        && final(this).write_buf.frame.content() == frame_of(*old(this).noise, old(this).write_buf.payload.content())
                        && final(this).write_buf.frame.content().len() == LENGTH_FIELD_LEN + old(this).write_buf.payload.content().len() + AUTHDATA_LEN),
""")
    WH = [("self: Pin<&mut Self>", "this: &mut StreamProject<'_>   /* R-pin: self.project() */"), ("cx: &mut Context<'_>", "cx: &mut Cx")]
    WS = SELF + [("let mut this = self.project();", ""), ("(&mut this, cx)", "(this, cx)", None)]
    IMPLW = "impl<S> io::AsyncWrite for Stream<S> where S: io::AsyncRead + io::AsyncWrite + Unpin,"
    U.fn(F_S, IMPLW + " :: fn poll_write", ret="r",
         header_subs=WH + [("Poll<io::Result<usize>>", "Poll<Result<usize, IoError>>")],
         subs=WS + [("debug_assert!(n > 0);", "assert(n > 0);   // R-dbg")],
         spec="""
    requires old(this).wf(),
    ensures final(this).wf(), final(this).read_buf == old(this).read_buf,
            r matches Poll::Ready(Ok(n)) ==> n <= buf@.len() && (buf@.len() > 0 ==> n > 0)
                // the accepted bytes are appended to the plaintext buffer, in order
                && (buf@.len() > 0 ==> final(this).write_buf.payload.content().len() >= n
                    && final(this).write_buf.payload.content().subrange(final(this).write_buf.payload.content().len() - n, final(this).write_buf.payload.content().len() as int) == buf@.subrange(0, n as int)),
""")
    for f in ("poll_flush", "poll_shutdown"):
        U.fn(F_S, IMPLW + " :: fn " + f, ret="r",
             header_subs=WH + [("Poll<io::Result<()>>", "Poll<Result<(), IoError>>")],
             subs=WS,
             spec="""
    requires old(this).wf(),
    ensures final(this).wf(), final(this).read_buf == old(this).read_buf,
            // "the reader obtains exactly the byte sequence the writer wrote AND FLUSHED": success means nothing is left behind --
            // the buffered plaintext was sealed into a frame and that frame (after any older pending frame) is on the wire
            r matches Poll::Ready(Ok(_)) ==> final(this).write_buf.payload.content().len() == 0 && final(this).write_buf.frame.content().len() == 0
                && final(this).inner.wire_out() == old(this).inner.wire_out() + old(this).write_buf.frame.content()
                    + (if old(this).write_buf.payload.content().len() > 0 { frame_of(*old(this).noise, old(this).write_buf.payload.content()) } else { Seq::<u8>::empty() }),
""" + ("""            // flushing the encrypted stream flushes the transport underneath: nothing written and flushed stays in a buffer on the way
            r matches Poll::Ready(Ok(_)) ==> final(this).inner.flushed() == final(this).inner.wire_out().len(),
""" if f == "poll_flush" else ""))


PRELUDE_HS = r"""
// ---------------- prelude for Stream::handshake (A3: snow HandshakeState; A4: io helpers) ----------------
#[verifier::external_body] pub struct Ctx { _p: u8 }
#[verifier::external_body] pub struct Canceled { _p: u8 }
#[verifier::external_body] pub struct AnyhowError { _p: u8 }
#[verifier::external_body] pub struct CtxError { _p: u8 }
#[verifier::external_body] pub struct HandshakeState { _p: u8 }          // snow::HandshakeState
#[verifier::external_body] pub struct Transport { _p: u8 }               // the underlying stream S
#[verifier::external_body] pub struct NoiseStream { _p: u8 }             // Stream<S> (constructed at the end of the handshake)
impl From<Canceled> for CtxError { #[verifier::external_body] fn from(e: Canceled) -> (r: CtxError) { unimplemented!() } }
impl From<AnyhowError> for CtxError { #[verifier::external_body] fn from(e: AnyhowError) -> (r: CtxError) { unimplemented!() } }
pub trait VerifContext<T> { fn context(self, c: ()) -> Result<T, AnyhowError>; }
impl<T> VerifContext<T> for Result<T, IoError> {        // anyhow::Context keeps Ok-ness and the value (A1)
    #[verifier::external_body] fn context(self, c: ()) -> (r: Result<T, AnyhowError>)
        ensures r.is_ok() == self.is_ok(), self.is_ok() ==> r == Result::<T, AnyhowError>::Ok(self->Ok_0) { unimplemented!() }
}
impl<T> VerifContext<T> for Result<T, NoiseError> {
    #[verifier::external_body] fn context(self, c: ()) -> (r: Result<T, AnyhowError>)
        ensures r.is_ok() == self.is_ok(), self.is_ok() ==> r == Result::<T, AnyhowError>::Ok(self->Ok_0) { unimplemented!() }
}
impl HandshakeState {
    #[verifier::external_body] pub fn is_handshake_finished(&self) -> bool { unimplemented!() }
    #[verifier::external_body] pub fn is_my_turn(&self) -> bool { unimplemented!() }
    // A3 (snow): a handshake message is at most 65535 bytes and fits the output buffer, otherwise an error (no panic)
    #[verifier::external_body]
    pub fn write_message(&mut self, payload: &[u8], out: &mut [u8]) -> (r: Result<usize, NoiseError>)
        ensures final(out)@.len() == old(out)@.len(), r matches Ok(n) ==> n <= old(out)@.len() && n <= 65535 { unimplemented!() }
    // A3 (snow): rejects (no panic) messages it cannot parse, whatever their length
    #[verifier::external_body]
    pub fn read_message(&mut self, msg: &[u8], payload: &mut Vec<u8>) -> (r: Result<usize, NoiseError>) { unimplemented!() }
}
#[verifier::external_body] pub async fn io_write_all(ctx: &Ctx, s: &mut Transport, buf: &[u8]) -> (r: Result<Result<(), IoError>, Canceled>) { unimplemented!() }
#[verifier::external_body] pub async fn io_flush(ctx: &Ctx, s: &mut Transport) -> (r: Result<Result<(), IoError>, Canceled>) { unimplemented!() }
#[verifier::external_body] pub async fn io_read_exact(ctx: &Ctx, s: &mut Transport, buf: &mut [u8]) -> (r: Result<Result<(), IoError>, Canceled>)
    ensures final(buf)@.len() == old(buf)@.len() { unimplemented!() }
#[verifier::external_body] pub async fn io_read_exact_2(ctx: &Ctx, s: &mut Transport, buf: &mut [u8; 2]) -> (r: Result<Result<(), IoError>, Canceled>) { unimplemented!() }
// R-stub: the final `Self { id: ByteFmt::decode(hs.get_handshake_hash()).unwrap(), inner, noise: hs.into_transport_mode()?, read_buf, write_buf }`
#[verifier::external_body] pub fn finish_handshake(stream: Transport, hs: HandshakeState) -> (r: Result<NoiseStream, AnyhowError>) { unimplemented!() }
#[verifier::external_body] pub fn verif_vec_zeroed(n: usize) -> (r: Vec<u8>) ensures r@.len() == n { vec![0; n] }          // A1 (R-std: vec![0; n])
#[verifier::external_body] pub fn verif_vec_prefix(v: &Vec<u8>, n: usize) -> (r: &[u8]) requires n <= v@.len() ensures r@ == v@.subrange(0, n as int) { &v[..n] }     // A1 (R-std)
#[verifier::external_body] pub fn verif_vec_prefix_mut(v: &mut Vec<u8>, n: usize) -> (r: &mut [u8]) requires n <= old(v)@.len()
    ensures r@.len() == n, final(v)@.len() == old(v)@.len() { &mut v[..n] }                                                 // A1 (R-std)
#[verifier::external_body] pub fn verif_vec_mut(v: &mut Vec<u8>) -> (r: &mut [u8]) ensures r@.len() == old(v)@.len(), final(v)@.len() == old(v)@.len() { &mut v[..] }
"""


def add_handshake(U):
    U.raw(PRELUDE_HS, label="prelude noise handshake")
    U.fn(F_S, IMPL + " :: fn handshake", ret="r", props=["C10", "C13"],
         attrs="#[verifier::exec_allows_no_decreases_clause]",
         header_subs=[("ctx::Ctx", "Ctx"), ("mut stream: S", "stream: Transport"), ("mut hs: snow::HandshakeState", "hs: HandshakeState"),
                      ("ctx::Result<Self>", "Result<NoiseStream, CtxError>")],
         proof_at_start="let mut stream = stream; let mut hs = hs;   /* R-mutparam */",
         subs=[("let mut buf = vec![0; $N];", "let mut buf = verif_vec_zeroed($N);   /* R-std */"),
               ("let mut payload = vec![];", "let mut payload: Vec<u8> = Vec::new();   /* R-std */"),
               ("""return Ok(Self {
                    // Unwrap is ok, because handshake hash has a constant length.
                    id: ByteFmt::decode(hs.get_handshake_hash()).unwrap(),
                    inner: stream,
                    noise: hs.into_transport_mode().context(())?,
                    read_buf: Box::default(),
                    write_buf: Box::default(),
                });""" if False else "return Ok(Self { $B });", "return Ok(finish_handshake(stream, hs)?);   /* R-stub: struct construction from snow/pin types */"),
               ("hs\n                    .write_message(&payload, &mut buf)", "hs\n                    .write_message(payload.as_slice(), verif_vec_mut(&mut buf))   /* R-std */"),
               ("io::write_all(ctx, &mut stream, &u16::to_le_bytes(n as u16))", "io_write_all(ctx, &mut stream, verif_u16_to_le(verif_usize_to_u16(n)).as_slice())   /* R-std, R-cast */"),
               ("io::write_all(ctx, &mut stream, &buf[..n])", "io_write_all(ctx, &mut stream, verif_vec_prefix(&buf, n))   /* R-std */"),
               ("io::flush(ctx, &mut stream)", "io_flush(ctx, &mut stream)"),
               ("io::read_exact(ctx, &mut stream, &mut msg_size)", "io_read_exact_2(ctx, &mut stream, &mut msg_size)"),
               ("u16::from_le_bytes(msg_size)", "verif_u16_from_le(msg_size)   /* R-std */"),
               ("io::read_exact(ctx, &mut stream, &mut buf[..n])", "io_read_exact(ctx, &mut stream, verif_vec_prefix_mut(&mut buf, n))   /* R-std */"),
               ("hs.read_message(&buf[..n], &mut payload)", "hs.read_message(verif_vec_prefix(&buf, n), &mut payload)   /* R-std */")],
         loops={0: dict(prefix="loop", inv="buf@.len() > 65535,      // any 16-bit length the peer announces fits the buffer")},
         spec="""
    // for EVERY byte string the peer sends during the handshake: no index out of range (the 16-bit length always fits the buffer),
    // no truncated length prefix, no panic -- it ends with a session or an error
    ensures true,
""")


def build(repo):
    U = Unit("noise", ["C13", "C10"], desc="noise transport", uses="use std::task::Poll;\nuse std::task::ready;", crate_attrs="#![feature(allocator_api)]")
    U.repo = repo
    add_buffer(U)
    add_stream(U)
    add_handshake(U)
    return U
