"""U-qc (C04): certificates are accepted exactly when genuinely backed by a quorum."""
from vx.unit import Unit
from units import roles_types as T

V2 = T.V2
F_CONS2 = V2 + "consensus.rs"
F_RC = V2 + "replica_commit.rs"
F_RT = V2 + "replica_timeout.rs"
F_LP = V2 + "leader_proposal.rs"
F_NV = V2 + "replica_new_view.rs"
F_BLK = V2 + "block.rs"

SPEC_SIGNERS = r"""
// ---------------- specification (C04), written from the property statement ----------------
// weight of the members whose bit is set
pub open spec fn sw(bits: Seq<bool>, vec: Seq<ValidatorInfo>, k: int) -> int
    decreases k
{ if k <= 0 { 0 } else { sw(bits, vec, k - 1) + (if bits[k - 1] { vec[k - 1].weight as int } else { 0 }) } }

pub proof fn lemma_sw_le_total(bits: Seq<bool>, vec: Seq<ValidatorInfo>, k: int)
    requires 0 <= k <= vec.len(), bits.len() == vec.len(),
    ensures 0 <= sw(bits, vec, k) <= total(vec, k),
    decreases k
{ if k > 0 { lemma_sw_le_total(bits, vec, k - 1); } }

// the (message, key) pairs an aggregate signature must cover: one per set bit, in committee order
pub open spec fn sel_pairs<V>(msg: V, bits: Seq<bool>, vec: Seq<ValidatorInfo>, k: int) -> Seq<(V, PublicKey)>
    decreases k
{ if k <= 0 { Seq::empty() } else if bits[k - 1] { sel_pairs(msg, bits, vec, k - 1).push((msg, vec[k - 1].key)) }
  else { sel_pairs(msg, bits, vec, k - 1) } }

// generic selection over closures' ghost meaning (R-chain templates)
pub open spec fn sel_sum(gp: spec_fn(int) -> bool, gm: spec_fn(int) -> u64, k: int) -> int
    decreases k
{ if k <= 0 { 0 } else { sel_sum(gp, gm, k - 1) + (if gp(k - 1) { gm(k - 1) as int } else { 0 }) } }
pub open spec fn sel_seq<V>(gp: spec_fn(int) -> bool, gm: spec_fn(int) -> (V, PublicKey), k: int) -> Seq<(V, PublicKey)>
    decreases k
{ if k <= 0 { Seq::empty() } else if gp(k - 1) { sel_seq(gp, gm, k - 1).push(gm(k - 1)) } else { sel_seq(gp, gm, k - 1) } }

pub open spec fn means_sum(gp: spec_fn(int) -> bool, gm: spec_fn(int) -> u64, bits: Seq<bool>, vec: Seq<ValidatorInfo>) -> bool {
    forall|i: int| 0 <= i < vec.len() ==> gp(i) == #[trigger] bits[i] && gm(i) == vec[i].weight
}
pub proof fn lemma_sel_sum_sw_rec(gp: spec_fn(int) -> bool, gm: spec_fn(int) -> u64, bits: Seq<bool>, vec: Seq<ValidatorInfo>, k: int)
    requires 0 <= k <= vec.len(), bits.len() == vec.len(), means_sum(gp, gm, bits, vec),
    ensures sel_sum(gp, gm, k) == sw(bits, vec, k),
    decreases k
{ if k > 0 { lemma_sel_sum_sw_rec(gp, gm, bits, vec, k - 1); assert(gp(k - 1) == bits[k - 1] && gm(k - 1) == vec[k - 1].weight); } }
pub proof fn lemma_sel_sum_sw(gp: spec_fn(int) -> bool, gm: spec_fn(int) -> u64, bits: Seq<bool>, vec: Seq<ValidatorInfo>, k: int)
    requires 0 <= k <= vec.len(), bits.len() == vec.len(),
             forall|i: int| 0 <= i < vec.len() ==> gp(i) == #[trigger] bits[i] && gm(i) == vec[i].weight,
    ensures sel_sum(gp, gm, k) == sw(bits, vec, k),
{
    assert forall|i: int| 0 <= i < vec.len() implies gp(i) == #[trigger] bits[i] && gm(i) == vec[i].weight by {
        assert(gp(i) == bits[i]); assert(gm(i) == vec[i].weight);
    }
    assert(means_sum(gp, gm, bits, vec));
    lemma_sel_sum_sw_rec(gp, gm, bits, vec, k);
}
pub open spec fn means_pairs<V>(gp: spec_fn(int) -> bool, gm: spec_fn(int) -> (V, PublicKey), msg: V, bits: Seq<bool>, vec: Seq<ValidatorInfo>) -> bool {
    forall|i: int| 0 <= i < vec.len() ==> gp(i) == #[trigger] bits[i] && gm(i) == (msg, vec[i].key)
}
pub proof fn lemma_sel_seq_pairs_rec<V>(gp: spec_fn(int) -> bool, gm: spec_fn(int) -> (V, PublicKey), msg: V, bits: Seq<bool>, vec: Seq<ValidatorInfo>, k: int)
    requires 0 <= k <= vec.len(), bits.len() == vec.len(), means_pairs(gp, gm, msg, bits, vec),
    ensures sel_seq(gp, gm, k) == sel_pairs(msg, bits, vec, k),
    decreases k
{ if k > 0 { lemma_sel_seq_pairs_rec(gp, gm, msg, bits, vec, k - 1); assert(gp(k - 1) == bits[k - 1] && gm(k - 1) == (msg, vec[k - 1].key)); } }
pub proof fn lemma_sel_seq_pairs<V>(gp: spec_fn(int) -> bool, gm: spec_fn(int) -> (V, PublicKey), msg: V, bits: Seq<bool>, vec: Seq<ValidatorInfo>, k: int)
    requires 0 <= k <= vec.len(), bits.len() == vec.len(),
             forall|i: int| 0 <= i < vec.len() ==> gp(i) == #[trigger] bits[i] && gm(i) == (msg, vec[i].key),
    ensures sel_seq(gp, gm, k) == sel_pairs(msg, bits, vec, k),
{
    assert forall|i: int| 0 <= i < vec.len() implies gp(i) == #[trigger] bits[i] && gm(i) == (msg, vec[i].key) by {
        // (each conjunct stated on its own: the trigger term must be relevant to the solver before the hypothesis is instantiated)
        assert(gp(i) == bits[i]); assert(gm(i) == (msg, vec[i].key));
    }
    assert(means_pairs(gp, gm, msg, bits, vec));
    lemma_sel_seq_pairs_rec(gp, gm, msg, bits, vec, k);
}

// ---- R-chain templates (A1: documented semantics of Iterator::{enumerate, filter, map, sum}) ----
// schedule.iter().enumerate().filter(P).map(M).sum::<u64>()      (Schedule::iter() is `self.vec.iter()`)
#[verifier::external_body]
pub fn tmpl_schedule_iter_enumerate_filter_map_sum<'a,
    P: FnMut(&(usize, &'a ValidatorInfo)) -> bool, M: FnMut((usize, &'a ValidatorInfo)) -> u64>(
    s: &'a Schedule, p: P, m: M, Ghost(gp): Ghost<spec_fn(int) -> bool>, Ghost(gm): Ghost<spec_fn(int) -> u64>) -> (r: u64)
    requires
        forall|i: usize| i < s.vec@.len() ==> p.requires((&(i, #[trigger] &s.vec@[i as int]),)),
        forall|i: usize, b: bool| i < s.vec@.len() && #[trigger] p.ensures((&(i, &s.vec@[i as int]),), b) ==> b == gp(i as int),
        forall|i: usize| i < s.vec@.len() ==> m.requires(((i, #[trigger] &s.vec@[i as int]),)),
        forall|i: usize, x: u64| i < s.vec@.len() && #[trigger] m.ensures(((i, &s.vec@[i as int]),), x) ==> x == gm(i as int),
        sel_sum(gp, gm, s.vec@.len() as int) <= u64::MAX,        // `sum` panics on overflow (debug) -- must be excluded
    ensures r == sel_sum(gp, gm, s.vec@.len() as int),
{ unimplemented!() }
// schedule.keys().enumerate().filter(P).map(M)  ->  lazily evaluated pairs     (Schedule::keys() is `self.vec.iter().map(|v| &v.key)`)
#[verifier::external_body]
pub fn tmpl_schedule_keys_enumerate_filter_map<'a, V,
    P: FnMut(&(usize, &'a PublicKey)) -> bool, M: FnMut((usize, &'a PublicKey)) -> (V, &'a PublicKey)>(
    s: &'a Schedule, p: P, m: M, Ghost(gp): Ghost<spec_fn(int) -> bool>, Ghost(gm): Ghost<spec_fn(int) -> (V, PublicKey)>) -> (r: MsgKeys<V>)
    requires
        forall|i: usize| i < s.vec@.len() ==> p.requires((&(i, #[trigger] &s.vec@[i as int].key),)),
        forall|i: usize, b: bool| i < s.vec@.len() && #[trigger] p.ensures((&(i, &s.vec@[i as int].key),), b) ==> b == gp(i as int),
        forall|i: usize| i < s.vec@.len() ==> m.requires(((i, #[trigger] &s.vec@[i as int].key),)),
        forall|i: usize, x: (V, &'a PublicKey)| i < s.vec@.len() && #[trigger] m.ensures(((i, &s.vec@[i as int].key),), x) ==> (x.0, *x.1) == gm(i as int),
    ensures r.pairs() == sel_seq(gp, gm, s.vec@.len() as int),
{ unimplemented!() }

"""

SPEC_QC = r"""
impl View {
    pub open spec fn ok(&self, g: GenesisHash, e: EpochNumber) -> bool { self.genesis == g && self.epoch == e }
}
impl CommitQC {
    // "accepted iff it belongs to this chain and epoch, its signer set is a set of distinct committee members whose
    //  weight reaches the quorum n-f, and the aggregate signature is exactly the aggregate of those members'
    //  signatures over the stated vote"
    pub open spec fn valid(&self, g: GenesisHash, e: EpochNumber, s: &Schedule) -> bool {
        &&& self.message.view.ok(g, e)
        &&& self.signers.0@.len() == s.vec@.len()
        &&& sw(self.signers.0@, s.vec@, s.vec@.len() as int) >= spec_quorum(s.total_weight as nat)
        &&& agg_ok(self.signature, sel_pairs(self.message, self.signers.0@, s.vec@, s.vec@.len() as int))
    }
}
"""


def signers_weight_chain():
    return dict(
        recv="schedule", methods=["iter", "enumerate", "filter", "map", "sum"],
        closures={
            2: dict(ty="&(usize, &ValidatorInfo)", ret="b: bool",
                    spec="requires {p}.0 < self.0@.len() ensures b == self.0@[{p}.0 as int]"),
            3: dict(ty="(usize, &ValidatorInfo)", ret="w: u64", spec="ensures w == {p}.1.weight"),
        },
        template="{{ proof {{ lemma_sw_le_total(self.0@, schedule.vec@, schedule.vec@.len() as int); "
                 "lemma_sel_sum_sw(|i: int| self.0@[i], |i: int| schedule.vec@[i].weight, self.0@, schedule.vec@, schedule.vec@.len() as int); }} "
                 "tmpl_schedule_iter_enumerate_filter_map_sum(schedule, {a2}, {a3}, "
                 "Ghost(|i: int| self.0@[i]), Ghost(|i: int| schedule.vec@[i].weight)) }}")


def key_selection_chain(sched, bits, msg, msgty):
    """validators_schedule.keys().enumerate().filter(|(i, _)| BITS[*i]).map(|(_, pk)| (MSG.clone(), pk))"""
    return dict(
        recv=sched, methods=["keys", "enumerate", "filter", "map"],
        closures={
            2: dict(ty="&(usize, &PublicKey)", ret="b: bool",
                    spec="requires {p}.0 < %s@.len() ensures b == %s@[{p}.0 as int]" % (bits, bits)),
            3: dict(ty="(usize, &PublicKey)", ret="x: (%s, &PublicKey)" % msgty,
                    spec="ensures x.0 == %s && x.1 == {p}.1" % msg),
        },
        template="{{ proof {{ lemma_sel_seq_pairs::<%(ty)s>(|i: int| %(bits)s@[i], |i: int| (%(msg)s, %(s)s.vec@[i].key), %(msg)s, %(bits)s@, "
                 "%(s)s.vec@, %(s)s.vec@.len() as int); }} "
                 "tmpl_schedule_keys_enumerate_filter_map(%(s)s, {a2}, {a3}, Ghost(|i: int| %(bits)s@[i]), "
                 "Ghost(|i: int| (%(msg)s, %(s)s.vec@[i].key))) }}" % dict(s=sched, bits=bits, msg=msg, ty=msgty))


ERR_SUBS = [("anyhow::Error", "AnyhowError", None), ("validator::PublicKey", "PublicKey", None)]


def add_signers(U):
    U.item(F_CONS2, "struct Signers")
    U.raw(T.clone_impl("Signers"), label="clone Signers")
    U.raw(SPEC_SIGNERS, label="spec signers", canary=False)
    U.fn(F_CONS2, "impl Signers :: fn new", wrap="impl Signers", ret="r", spec="""
    ensures r.0@.len() == n, forall|i: int| 0 <= i < n ==> !r.0@[i],
""")
    U.raw("""
pub open spec fn bit_count(bits: Seq<bool>, k: int) -> int decreases k
{ if k <= 0 { 0 } else { bit_count(bits, k - 1) + (if bits[k - 1] { 1int } else { 0 }) } }
impl Signers {
    // `self.0.iter().filter(|b| *b).count()` -- BitVec iterator, not extracted: assumed contract (A2)
    #[verifier::external_body]
    pub fn count(&self) -> (r: usize) ensures r == bit_count(self.0@, self.0@.len() as int) { unimplemented!() }
}
""", label="Signers::count stub")
    U.fn(F_CONS2, "impl Signers :: fn len", wrap="impl Signers", ret="r", spec="    ensures r == self.0@.len(),\n")
    U.fn(F_CONS2, "impl Signers :: fn is_empty", wrap="impl Signers", ret="r",
         spec="    ensures r == (forall|i: int| 0 <= i < self.0@.len() ==> !self.0@[i]),\n")
    U.fn(F_CONS2, "impl Signers :: fn weight", wrap="impl Signers", ret="r",
         subs=[("assert_eq!(self.len(), schedule.len());",
                "let verif_a = self.len(); let verif_b = schedule.len(); assert(verif_a == verif_b);   // R-dbg: assert_eq! as proof obligation"),
               ("self.0[*i]", "self.0.get_bit(*i)")],
         chains=[signers_weight_chain()],
         spec="""
    requires schedule.wf(), self.0@.len() == schedule.vec@.len(),
    ensures r as int == sw(self.0@, schedule.vec@, schedule.vec@.len() as int),
""")
    # operator impls, called explicitly (R-op): `a |= b` -> a.bitor_assign(b)
    U.fn(F_CONS2, "impl std::ops::BitOrAssign<&Self> for Signers :: fn bitor_assign", wrap="impl Signers",
         spec="""
    requires old(self).0@.len() == other.0@.len(),
    ensures final(self).0@.len() == other.0@.len(),
            forall|i: int| 0 <= i < other.0@.len() ==> #[trigger] final(self).0@[i] == (old(self).0@[i] || other.0@[i]),
""")
    U.fn(F_CONS2, "impl std::ops::BitAndAssign<&Self> for Signers :: fn bitand_assign", wrap="impl Signers",
         spec="""
    requires old(self).0@.len() == other.0@.len(),
    ensures final(self).0@.len() == other.0@.len(),
            forall|i: int| 0 <= i < other.0@.len() ==> #[trigger] final(self).0@[i] == (old(self).0@[i] && other.0@[i]),
""")
    U.fn(F_CONS2, "impl std::ops::BitAnd for &Signers :: fn bitand", wrap="impl Signers", ret="r",
         header_subs=[("(self, other: Self) -> Signers", "(&self, other: &Signers) -> Signers")],
         subs=[("this &= other;", "this.bitand_assign(other);   // R-op")],
         spec="""
    requires self.0@.len() == other.0@.len(),
    ensures r.0@.len() == other.0@.len(),
            forall|i: int| #![trigger r.0@[i]] #![trigger self.0@[i]] 0 <= i < other.0@.len() ==> r.0@[i] == (self.0@[i] && other.0@[i]),
""")


def add_commit(U):
    U.item(F_RC, "struct ReplicaCommit", attrs=T.D_CLONE_EQ)
    U.raw(T.clone_impl("ReplicaCommit"), label="clone ReplicaCommit")
    U.item(F_RC, "enum ReplicaCommitVerifyError", subs=ERR_SUBS)
    U.item(F_RC, "struct CommitQC", subs=[("validator::AggregateSignature", "AggregateSignature")])
    U.raw(T.clone_impl("CommitQC"), label="clone CommitQC")
    U.item(F_RC, "enum CommitQCAddError", subs=ERR_SUBS)
    U.item(F_RC, "enum CommitQCVerifyError", subs=ERR_SUBS)
    U.raw(SPEC_QC, label="spec qc")
    U.fn(F_CONS2, "impl View :: fn verify", wrap="impl View", ret="r",
         header_subs=[("anyhow::Result<()>", "Result<(), AnyhowError>")],
         spec="    ensures r.is_ok() <==> self.ok(genesis_hash, epoch_number),\n")
    U.fn(F_RC, "impl ReplicaCommit :: fn verify", wrap="impl ReplicaCommit", ret="r",
         spec="    ensures r.is_ok() <==> self.view.ok(genesis_hash, epoch),\n")
    U.fn(F_RC, "impl CommitQC :: fn header", wrap="impl CommitQC", ret="r", spec="    ensures *r == self.message.proposal,\n")
    U.fn(F_RC, "impl CommitQC :: fn view", wrap="impl CommitQC", ret="r", spec="    ensures *r == self.message.view,\n")
    U.fn(F_RC, "impl CommitQC :: fn new", wrap="impl CommitQC", ret="r",
         header_subs=[("validator::Schedule", "Schedule")],
         subs=[("validator::AggregateSignature::default()", "AggregateSignature::default()")],
         spec="""
    ensures r.message == message, r.signature == agg_empty(),
            r.signers.0@.len() == validators_schedule.vec@.len(),
            forall|i: int| 0 <= i < r.signers.0@.len() ==> !r.signers.0@[i],
""")
    U.fn(F_RC, "impl CommitQC :: fn add", wrap="impl CommitQC", ret="r",
         header_subs=[("validator::Schedule", "Schedule")],
         subs=[("self.signers.0[i]", "self.signers.0.get_bit(i)")],
         spec="""
    requires validators_schedule.wf(), old(self).signers.0@.len() == validators_schedule.vec@.len(),
    ensures
        // refused votes leave the certificate untouched
        r.is_err() ==> *final(self) == *old(self),
        // an accepted vote: member of the committee, not yet counted, valid signature, same vote, right chain/epoch
        r.is_ok() ==> exists|i: int| 0 <= i < validators_schedule.vec@.len()
            && validators_schedule.vec@[i].key == msg.key
            && !old(self).signers.0@[i]
            && sig_ok(msg.msg, msg.key, msg.sig)
            && msg.msg == old(self).message
            && msg.msg.view.ok(genesis_hash, epoch)
            && #[trigger] final(self).signers.0@ == old(self).signers.0@.update(i, true)
            && final(self).signature == agg_add(old(self).signature, msg.sig)
            && final(self).message == old(self).message,
        // completeness: a vote satisfying all of the above is never refused
        (exists|i: int| 0 <= i < validators_schedule.vec@.len() && #[trigger] validators_schedule.vec@[i].key == msg.key
            && !old(self).signers.0@[i])
          && sig_ok(msg.msg, msg.key, msg.sig) && msg.msg == old(self).message && msg.msg.view.ok(genesis_hash, epoch)
          ==> r.is_ok(),
""")
    U.fn(F_RC, "impl CommitQC :: fn verify", wrap="impl CommitQC", ret="r",
         header_subs=[("validator::Schedule", "Schedule")],
         subs=[("self.signers.0[*i]", "self.signers.0.get_bit(*i)")],
         chains=[key_selection_chain("validators_schedule", "self.signers.0", "self.message", "ReplicaCommit")],
         spec="""
    requires validators_schedule.wf(),
    ensures r.is_ok() <==> self.valid(genesis_hash, epoch, validators_schedule),
""")


PRELUDE_TQC = r"""
// ---------------- R-type: BTreeMap<ReplicaTimeout, Signers> (A1: an ordered map with pairwise distinct keys) ----------------
#[verifier::external_body]
pub struct TqcMap { _p: u8 }
impl Clone for TqcMap { #[verifier::external_body] fn clone(&self) -> (r: Self) ensures r == *self { unimplemented!() } }
pub broadcast axiom fn tqcmap_keys_distinct(m: TqcMap, i: int, j: int)
    requires 0 <= i < j < m.entries().len(),
    ensures #[trigger] m.entries()[i].0 != #[trigger] m.entries()[j].0;
impl TqcMap {
    pub uninterp spec fn entries(&self) -> Seq<(ReplicaTimeout, Signers)>;     // in key order
    #[verifier::external_body]
    pub fn new() -> (r: Self) ensures r.entries().len() == 0 { unimplemented!() }
    #[verifier::external_body]
    pub fn len(&self) -> (r: usize) ensures r == self.entries().len() { unimplemented!() }
    // R-forindex: the i-th (key, value) pair of the iteration order
    #[verifier::external_body]
    pub fn entry_at(&self, i: usize) -> (r: (&ReplicaTimeout, &Signers))
        requires i < self.entries().len()
        ensures *r.0 == self.entries()[i as int].0, *r.1 == self.entries()[i as int].1 { unimplemented!() }
    // A1: BTreeMap::get / contains_key (offered so that a lookup by key is decided rather than rejected)
    #[verifier::external_body]
    pub fn get(&self, k: &ReplicaTimeout) -> (r: Option<&Signers>)
        ensures r.is_some() == self.has(*k), r matches Some(v) ==> *v == self.entries()[self.find(*k)].1 { unimplemented!() }
    #[verifier::external_body]
    pub fn contains_key(&self, k: &ReplicaTimeout) -> (r: bool) ensures r == self.has(*k) { unimplemented!() }
    pub open spec fn find(&self, k: ReplicaTimeout) -> int {
        choose|j: int| 0 <= j < self.entries().len() && self.entries()[j].0 == k
    }
    pub open spec fn has(&self, k: ReplicaTimeout) -> bool {
        exists|j: int| 0 <= j < self.entries().len() && self.entries()[j].0 == k
    }
}
pub open spec fn holds(gp: spec_fn(int) -> bool, j: int) -> bool { gp(j) }
pub uninterp spec fn tqc_ins_pos(m: TqcMap, k: ReplicaTimeout) -> int;     // where the order puts a new key
// map.values().any(P)
#[verifier::external_body]
pub fn tmpl_map_values_any<P: FnMut(&Signers) -> bool>(m: &TqcMap, p: P, Ghost(gp): Ghost<spec_fn(int) -> bool>) -> (r: bool)
    requires
        forall|j: int| 0 <= j < m.entries().len() ==> p.requires((&(#[trigger] m.entries()[j]).1,)),
        forall|j: int, b: bool| 0 <= j < m.entries().len() && #[trigger] p.ensures((&m.entries()[j].1,), b) ==> b == gp(j),
    ensures r == (exists|j: int| 0 <= j < m.entries().len() && #[trigger] holds(gp, j)),
{ unimplemented!() }
// map.entry(K).or_insert_with(F)  ->  &mut V
#[verifier::external_body]
pub fn tmpl_map_entry_or_insert_with<'a, F: FnOnce() -> Signers>(m: &'a mut TqcMap, k: ReplicaTimeout, f: F) -> (e: &'a mut Signers)
    requires !old(m).has(k) ==> f.requires(()),
    ensures
        old(m).has(k) ==> *e == old(m).entries()[old(m).find(k)].1
            && final(m).entries() == old(m).entries().update(old(m).find(k), (k, *final(e))),
        !old(m).has(k) ==> f.ensures((), *e) && 0 <= tqc_ins_pos(*old(m), k) <= old(m).entries().len()
            && final(m).entries() == old(m).entries().insert(tqc_ins_pos(*old(m), k), (k, *final(e))),
{ unimplemented!() }
pub open spec fn map_sum(gm: spec_fn(int) -> u64, k: int) -> int
    decreases k
{ if k <= 0 { 0 } else { map_sum(gm, k - 1) + gm(k - 1) as int } }
// map.values().map(M).sum::<u64>()
#[verifier::external_body]
pub fn tmpl_map_values_map_sum<M: FnMut(&Signers) -> u64>(m: &TqcMap, f: M, Ghost(gm): Ghost<spec_fn(int) -> u64>) -> (r: u64)
    requires
        forall|j: int| 0 <= j < m.entries().len() ==> f.requires((&#[trigger] m.entries()[j].1,)),
        forall|j: int, x: u64| 0 <= j < m.entries().len() && #[trigger] f.ensures((&m.entries()[j].1,), x) ==> x == gm(j),
        map_sum(gm, m.entries().len() as int) <= u64::MAX,
    ensures r == map_sum(gm, m.entries().len() as int),
{ unimplemented!() }
"""

SPEC_TQC = r"""
impl ReplicaTimeout {
    pub open spec fn valid(&self, g: GenesisHash, e: EpochNumber, s: &Schedule) -> bool {
        &&& self.view.ok(g, e)
        &&& self.high_vote.is_some() ==> self.high_vote.unwrap().view.ok(g, e)
        &&& self.high_qc.is_some() ==> self.high_qc.unwrap().valid(g, e, s)
    }
}
// union of the first k signer bitmaps
pub open spec fn ubits(en: Seq<(ReplicaTimeout, Signers)>, n: int, k: int) -> Seq<bool> {
    Seq::new(n as nat, |i: int| exists|j: int| 0 <= j < k && en[j].1.0@[i])
}
// all (message, key) pairs of a timeout certificate, entry by entry in key order
pub open spec fn all_pairs(en: Seq<(ReplicaTimeout, Signers)>, vec: Seq<ValidatorInfo>, k: int) -> Seq<(ReplicaTimeout, PublicKey)>
    decreases k
{ if k <= 0 { Seq::empty() } else { all_pairs(en, vec, k - 1) + sel_pairs(en[k - 1].0, en[k - 1].1.0@, vec, vec.len() as int) } }
impl TimeoutQC {
    pub open spec fn entry_ok(&self, j: int, g: GenesisHash, e: EpochNumber, s: &Schedule) -> bool {
        let en = self.map.entries();
        &&& en[j].0.view == self.view
        &&& en[j].1.0@.len() == s.vec@.len()
        &&& exists|i: int| 0 <= i < s.vec@.len() && en[j].1.0@[i]            // at least one signer
        &&& en[j].0.valid(g, e, s)
    }
    pub open spec fn disjoint(&self, k: int) -> bool { en_disjoint(self.map.entries(), k) }
    // "signer set is a set of distinct committee members whose weight reaches the quorum ... aggregate of those
    //  members' signatures over the stated votes"
    pub open spec fn valid(&self, g: GenesisHash, e: EpochNumber, s: &Schedule) -> bool {
        let en = self.map.entries();
        &&& self.view.ok(g, e)
        &&& forall|j: int| 0 <= j < en.len() ==> self.entry_ok(j, g, e, s)
        &&& self.disjoint(en.len() as int)
        &&& sw(ubits(en, s.vec@.len() as int, en.len() as int), s.vec@, s.vec@.len() as int) >= spec_quorum(s.total_weight as nat)
        &&& agg_ok(self.signature, all_pairs(en, s.vec@, en.len() as int))
    }
}
// effect of a successful TimeoutQC::add on the map: exactly the entry for `m` gains bit i; everything else is unchanged
pub open spec fn tqc_added(old_en: Seq<(ReplicaTimeout, Signers)>, new_en: Seq<(ReplicaTimeout, Signers)>, m: ReplicaTimeout,
                           i: int, n: int, had: bool, p: int) -> bool {
    if had {
        &&& 0 <= p < old_en.len() && old_en[p].0 == m
        &&& new_en.len() == old_en.len()
        &&& forall|j: int| 0 <= j < old_en.len() && j != p ==> #[trigger] new_en[j] == old_en[j]
        &&& new_en[p].0 == m && new_en[p].1.0@ == old_en[p].1.0@.update(i, true)
    } else {
        &&& 0 <= p <= old_en.len()
        &&& new_en.len() == old_en.len() + 1
        &&& forall|j: int| 0 <= j < p ==> #[trigger] new_en[j] == old_en[j]
        &&& forall|j: int| p < j < new_en.len() ==> #[trigger] new_en[j] == old_en[j - 1]
        &&& new_en[p].0 == m && new_en[p].1.0@.len() == n
        &&& forall|q: int| 0 <= q < n ==> #[trigger] new_en[p].1.0@[q] == (q == i)
    }
}
pub proof fn lemma_sw_disjoint_or(a: Seq<bool>, b: Seq<bool>, c: Seq<bool>, vec: Seq<ValidatorInfo>, k: int)
    requires 0 <= k <= vec.len(), a.len() == vec.len(), b.len() == vec.len(), c.len() == vec.len(),
             forall|i: int| 0 <= i < vec.len() ==> c[i] == (a[i] || b[i]),
             forall|i: int| 0 <= i < vec.len() ==> !(a[i] && b[i]),
    ensures sw(c, vec, k) == sw(a, vec, k) + sw(b, vec, k),
    decreases k
{ if k > 0 { lemma_sw_disjoint_or(a, b, c, vec, k - 1); } }
pub open spec fn en_lens(en: Seq<(ReplicaTimeout, Signers)>, n: int) -> bool {
    forall|j: int| 0 <= j < en.len() ==> (#[trigger] en[j]).1.0@.len() == n
}
pub open spec fn en_disjoint(en: Seq<(ReplicaTimeout, Signers)>, k: int) -> bool {
    forall|j1: int, j2: int, i: int| 0 <= j1 < j2 < k && 0 <= i < en[j1].1.0@.len() && 0 <= i < en[j2].1.0@.len()
        ==> !(#[trigger] en[j1].1.0@[i] && #[trigger] en[j2].1.0@[i])
}
// the total weight of a timeout certificate = weight of the union of its (disjoint) signer sets <= committee weight
pub proof fn lemma_tqc_weight(en: Seq<(ReplicaTimeout, Signers)>, vec: Seq<ValidatorInfo>, k: int)
    requires 0 <= k <= en.len(), en_lens(en, vec.len() as int), en_disjoint(en, k), total(vec, vec.len() as int) <= u64::MAX,
    ensures map_sum(|j: int| sw(en[j].1.0@, vec, vec.len() as int) as u64, k) == sw(ubits(en, vec.len() as int, k), vec, vec.len() as int),
            0 <= sw(ubits(en, vec.len() as int, k), vec, vec.len() as int) <= total(vec, vec.len() as int),
    decreases k
{
    let n = vec.len() as int;
    lemma_sw_le_total(ubits(en, n, k), vec, n);
    if k > 0 {
        lemma_tqc_weight(en, vec, k - 1);
        let a = ubits(en, n, k - 1);
        let b = en[k - 1].1.0@;
        let c = ubits(en, n, k);
        assert forall|i: int| 0 <= i < n implies c[i] == (a[i] || b[i]) by {
            if a[i] { let j = choose|j: int| 0 <= j < k - 1 && en[j].1.0@[i]; assert(0 <= j < k && en[j].1.0@[i]); }
            if b[i] { assert(0 <= k - 1 < k && en[k - 1].1.0@[i]); }
        }
        assert forall|i: int| 0 <= i < n implies !(a[i] && b[i]) by {
            if a[i] && b[i] { let j = choose|j: int| 0 <= j < k - 1 && en[j].1.0@[i]; assert(en[j].1.0@[i] && en[k - 1].1.0@[i]); }
        }
        lemma_sw_disjoint_or(a, b, c, vec, n);
        lemma_sw_le_total(b, vec, n);
        let gm = |j: int| sw(en[j].1.0@, vec, vec.len() as int) as u64;
        assert(map_sum(gm, k) == map_sum(gm, k - 1) + gm(k - 1) as int);
        assert(gm(k - 1) as int == sw(b, vec, n));
    } else {
        lemma_sw_none(ubits(en, n, 0), vec, n);
    }
}
pub proof fn lemma_sw_none(a: Seq<bool>, vec: Seq<ValidatorInfo>, k: int)
    requires 0 <= k <= vec.len(), a.len() == vec.len(), forall|i: int| 0 <= i < vec.len() ==> !a[i],
    ensures sw(a, vec, k) == 0,
    decreases k
{ if k > 0 { lemma_sw_none(a, vec, k - 1); } }
pub open spec fn deref_pairs(s: Seq<(ReplicaTimeout, &PublicKey)>) -> Seq<(ReplicaTimeout, PublicKey)> {
    s.map_values(|x: (ReplicaTimeout, &PublicKey)| (x.0, *x.1))
}
// schedule.keys().enumerate().filter(P).map(M).collect::<Vec<_>>()     (A1)
#[verifier::external_body]
pub fn tmpl_schedule_keys_enumerate_filter_map_collect<'a,
    P: FnMut(&(usize, &'a PublicKey)) -> bool, M: FnMut((usize, &'a PublicKey)) -> (ReplicaTimeout, &'a PublicKey)>(
    s: &'a Schedule, p: P, m: M, Ghost(gp): Ghost<spec_fn(int) -> bool>, Ghost(gm): Ghost<spec_fn(int) -> (ReplicaTimeout, PublicKey)>)
    -> (r: Vec<(ReplicaTimeout, &'a PublicKey)>)
    requires
        forall|i: usize| i < s.vec@.len() ==> p.requires((&(i, #[trigger] &s.vec@[i as int].key),)),
        forall|i: usize, b: bool| i < s.vec@.len() && #[trigger] p.ensures((&(i, &s.vec@[i as int].key),), b) ==> b == gp(i as int),
        forall|i: usize| i < s.vec@.len() ==> m.requires(((i, #[trigger] &s.vec@[i as int].key),)),
        forall|i: usize, x: (ReplicaTimeout, &'a PublicKey)| i < s.vec@.len() && #[trigger] m.ensures(((i, &s.vec@[i as int].key),), x) ==> (x.0, *x.1) == gm(i as int),
    ensures deref_pairs(r@) == sel_seq(gp, gm, s.vec@.len() as int),
{ unimplemented!() }
// map.clone().into_iter().flat_map(F)     (A1: entries in key order, results concatenated in order)
#[verifier::external_body]
pub fn tmpl_map_clone_into_iter_flat_map<'a, F: FnMut((ReplicaTimeout, Signers)) -> Vec<(ReplicaTimeout, &'a PublicKey)>>(
    m: &TqcMap, f: F, Ghost(vec): Ghost<Seq<ValidatorInfo>>) -> (r: MsgKeys<ReplicaTimeout>)
    requires
        forall|j: int| 0 <= j < m.entries().len() ==> f.requires((#[trigger] m.entries()[j],)),
        forall|j: int, v: Vec<(ReplicaTimeout, &'a PublicKey)>| 0 <= j < m.entries().len() && #[trigger] f.ensures((m.entries()[j],), v)
            ==> deref_pairs(v@) == sel_pairs(m.entries()[j].0, m.entries()[j].1.0@, vec, vec.len() as int),
    ensures r.pairs() == all_pairs(m.entries(), vec, m.entries().len() as int),
{ unimplemented!() }
"""


def add_timeout(U):
    U.item(F_RT, "struct ReplicaTimeout")
    U.raw(T.clone_impl("ReplicaTimeout"), label="clone ReplicaTimeout")
    U.item(F_RT, "enum ReplicaTimeoutVerifyError", subs=ERR_SUBS)
    U.raw(PRELUDE_TQC, label="prelude TqcMap")
    U.item(F_RT, "struct TimeoutQC", subs=[("BTreeMap<ReplicaTimeout, Signers>", "TqcMap"),
                                            ("validator::AggregateSignature", "AggregateSignature")])
    U.raw(T.clone_impl("TimeoutQC"), label="clone TimeoutQC")
    U.item(F_RT, "enum TimeoutQCAddError", subs=ERR_SUBS)
    U.item(F_RT, "enum TimeoutQCVerifyError", subs=ERR_SUBS)
    U.raw(SPEC_TQC, label="spec tqc")
    U.fn(F_RT, "impl ReplicaTimeout :: fn verify", wrap="impl ReplicaTimeout", ret="r",
         header_subs=[("validator::Schedule", "Schedule")],
         spec="""
    requires validators_schedule.wf(),
    ensures r.is_ok() <==> self.valid(genesis_hash, epoch, validators_schedule),
""")
    U.fn(F_RT, "impl TimeoutQC :: fn new", wrap="impl TimeoutQC", ret="r",
         subs=[("BTreeMap::new()", "TqcMap::new()"), ("validator::AggregateSignature::default()", "AggregateSignature::default()")],
         spec="    ensures r.view == view, r.map.entries().len() == 0, r.signature == agg_empty(),\n")
    U.fn(F_RT, "impl TimeoutQC :: fn add", wrap="impl TimeoutQC", ret="r",
         header_subs=[("validator::Schedule", "Schedule")],
         subs=[("s.0[i]", "s.0.get_bit(i)", None)],
         chains=[dict(recv="self.map", methods=["values", "any"], optional=True,
                      closures={1: dict(ty="&Signers", ret="b: bool",
                                        spec="requires i < {p}.0@.len() ensures b == {p}.0@[i as int]")},
                      template="tmpl_map_values_any(&self.map, {a1}, Ghost(|j: int| self.map.entries()[j].1.0@[i as int]))"),
                 dict(recv="self.map", methods=["entry", "or_insert_with"],
                      closures={1: dict(ty=[], ret="r: Signers",
                                        spec="ensures r.0@.len() == validators_schedule.vec@.len(), forall|q: int| 0 <= q < r.0@.len() ==> !r.0@[q]")},
                      template="tmpl_map_entry_or_insert_with(&mut self.map, {a0}, {a1})")],
         post_subs=[("Ok(())", """proof {
            let gp = |j: int| old(self).map.entries()[j].1.0@[i as int];
            assert forall|j: int| 0 <= j < old(self).map.entries().len() implies !(#[trigger] old(self).map.entries()[j]).1.0@[i as int] by {
                if old(self).map.entries()[j].1.0@[i as int] { assert(holds(gp, j)); }
            }
        }
        Ok(())""")],
         spec="""
    requires validators_schedule.wf(),
             forall|j: int| 0 <= j < old(self).map.entries().len() ==> (#[trigger] old(self).map.entries()[j]).1.0@.len() == validators_schedule.vec@.len(),
    ensures
        r.is_err() ==> *final(self) == *old(self),
        r.is_ok() ==> exists|i: int| 0 <= i < validators_schedule.vec@.len()
            && #[trigger] validators_schedule.vec@[i].key == msg.key
            // the signer is not yet counted under ANY vote of this certificate
            && (forall|j: int| 0 <= j < old(self).map.entries().len() ==> !(#[trigger] old(self).map.entries()[j]).1.0@[i])
            && sig_ok(msg.msg, msg.key, msg.sig)
            && msg.msg.view == old(self).view
            && msg.msg.valid(genesis_hash, epoch, validators_schedule)
            && final(self).view == old(self).view
            && final(self).signature == agg_add(old(self).signature, msg.sig)
            // exactly the entry for this vote gains bit i; every other entry is unchanged
            && tqc_added(old(self).map.entries(), final(self).map.entries(), msg.msg, i, validators_schedule.vec@.len() as int,
                         old(self).map.has(msg.msg), if old(self).map.has(msg.msg) { old(self).map.find(msg.msg) } else { tqc_ins_pos(old(self).map, msg.msg) }),
        (exists|i: int| 0 <= i < validators_schedule.vec@.len() && #[trigger] validators_schedule.vec@[i].key == msg.key
            && (forall|j: int| 0 <= j < old(self).map.entries().len() ==> !(#[trigger] old(self).map.entries()[j]).1.0@[i]))
          && sig_ok(msg.msg, msg.key, msg.sig) && msg.msg.view == old(self).view
          && msg.msg.valid(genesis_hash, epoch, validators_schedule)
          ==> r.is_ok(),
""")
    U.fn(F_RT, "impl TimeoutQC :: fn verify", wrap="impl TimeoutQC", ret="r",
         header_subs=[("validator::Schedule", "Schedule")],
         subs=[("if !(&sum & signers).is_empty()", "if !sum.bitand(signers).is_empty()   /* R-op */"),
               ("sum |= signers;", "sum.bitor_assign(signers);   // R-op"),
               ("signers.0[*i]", "signers.0.get_bit(*i)")],
         chains=[
             # inner pipeline (inside the flat_map closure): one entry's (vote, key) pairs
             dict(recv="validators_schedule", methods=["keys", "enumerate", "filter", "map", "collect"],
                  closures={2: dict(ty="&(usize, &PublicKey)", ret="b: bool",
                                    spec="requires {p}.0 < signers.0@.len() ensures b == signers.0@[{p}.0 as int]"),
                            3: dict(ty="(usize, &PublicKey)", ret="x: (ReplicaTimeout, &PublicKey)",
                                    spec="ensures x.0 == msg && x.1 == {p}.1")},
                  template="{{ proof {{ lemma_sel_seq_pairs::<ReplicaTimeout>(|i: int| signers.0@[i], |i: int| (msg, validators_schedule.vec@[i].key), msg, signers.0@, "
                           "validators_schedule.vec@, validators_schedule.vec@.len() as int); }} "
                           "tmpl_schedule_keys_enumerate_filter_map_collect(validators_schedule, {a2}, {a3}, Ghost(|i: int| signers.0@[i]), "
                           "Ghost(|i: int| (msg, validators_schedule.vec@[i].key))) }}"),
             # outer pipeline: all entries
             dict(recv="self.map", methods=["clone", "into_iter", "flat_map"],
                  closures={2: dict(ty="(ReplicaTimeout, Signers)", ret="v: Vec<(ReplicaTimeout, &PublicKey)>",
                                    spec="requires {p}.1.0@.len() == validators_schedule.vec@.len() "
                                         "ensures deref_pairs(v@) == sel_pairs({p}.0, {p}.1.0@, validators_schedule.vec@, validators_schedule.vec@.len() as int)")},
                  template="tmpl_map_clone_into_iter_flat_map(&self.map, {a2}, Ghost(validators_schedule.vec@))"),
         ],
         index_loops={0: dict(prefix="for (i, (msg, signers)) in self.map.iter().enumerate()",
                              len="self.map.len()", spec_len="self.map.entries().len()", at="self.map.entry_at({i})", pat="(msg, signers)", idx="i",
                              inv="""
            validators_schedule.wf(), self.view.ok(genesis_hash, epoch),
            0 <= {i} <= self.map.entries().len(),
            sum.0@.len() == validators_schedule.vec@.len(),
            sum.0@ == ubits(self.map.entries(), validators_schedule.vec@.len() as int, {i} as int),
            forall|j: int| 0 <= j < {i} ==> self.entry_ok(j, genesis_hash, epoch, validators_schedule),
            self.disjoint({i} as int),
""")},
         post_subs=[
             ("return Err(TimeoutQCVerifyError::InconsistentView(i));",
              "proof { assert(!self.entry_ok(i as int, genesis_hash, epoch, validators_schedule)); } return Err(TimeoutQCVerifyError::InconsistentView(i));"),
             ("return Err(TimeoutQCVerifyError::WrongSignersLength(i));",
              "proof { assert(!self.entry_ok(i as int, genesis_hash, epoch, validators_schedule)); } return Err(TimeoutQCVerifyError::WrongSignersLength(i));"),
             ("return Err(TimeoutQCVerifyError::NoSignersAssigned(i));",
              "proof { assert(!self.entry_ok(i as int, genesis_hash, epoch, validators_schedule)); } return Err(TimeoutQCVerifyError::NoSignersAssigned(i));"),
             ("return Err(TimeoutQCVerifyError::OverlappingSignatureSet(i));", """proof {
                    let n = validators_schedule.vec@.len() as int;
                    let en = self.map.entries();
                    assert(exists|q: int| 0 <= q < n && #[trigger] sum.0@[q] && signers.0@[q]);
                    let q = choose|q: int| 0 <= q < n && #[trigger] sum.0@[q] && signers.0@[q];
                    let j = choose|j: int| 0 <= j < i && en[j].1.0@[q];
                    assert(self.entry_ok(j, genesis_hash, epoch, validators_schedule));
                    assert(en[j].1.0@[q] && en[i as int].1.0@[q]);
                    assert(en[j].1.0@.len() == n && en[i as int].1.0@.len() == n);
                    assert(0 <= j < i < en.len());
                    assert(!self.disjoint(en.len() as int));
                }
                return Err(TimeoutQCVerifyError::OverlappingSignatureSet(i));"""),
             ("msg.verify(genesis_hash, epoch, validators_schedule)",
              "proof { assert(self.entry_ok(i as int, genesis_hash, epoch, validators_schedule) ==> msg.valid(genesis_hash, epoch, validators_schedule)); } msg.verify(genesis_hash, epoch, validators_schedule)"),
             ("let messages_and_keys =", """proof {
            assert forall|j: int| 0 <= j < self.map.entries().len() implies (#[trigger] self.map.entries()[j]).1.0@.len() == validators_schedule.vec@.len() by {
                assert(self.entry_ok(j, %s));
            }
        }
        let messages_and_keys =""" % "genesis_hash, epoch, validators_schedule"),
             ("sum.bitor_assign(signers);", """let ghost sum0 = sum.0@;
            sum.bitor_assign(signers);
            proof {
                let n = validators_schedule.vec@.len() as int;
                let en = self.map.entries();
                assert(self.entry_ok(i as int, genesis_hash, epoch, validators_schedule));
                assert(sum.0@ =~= ubits(en, n, verif_i0 as int)) by {
                    assert forall|q: int| 0 <= q < n implies sum.0@[q] == ubits(en, n, verif_i0 as int)[q] by {
                        if sum0[q] { let j = choose|j: int| 0 <= j < i && en[j].1.0@[q]; assert(0 <= j < verif_i0 && en[j].1.0@[q]); }
                        if signers.0@[q] { assert(en[i as int].1.0@[q]); }
                    }
                }
                assert(self.disjoint(verif_i0 as int)) by {
                    assert forall|j1: int, j2: int, q: int| 0 <= j1 < j2 < verif_i0 && 0 <= q < en[j1].1.0@.len() && 0 <= q < en[j2].1.0@.len()
                        implies !(#[trigger] en[j1].1.0@[q] && #[trigger] en[j2].1.0@[q]) by {
                        if j2 == i && en[j1].1.0@[q] && en[j2].1.0@[q] {
                            assert(self.entry_ok(j1, genesis_hash, epoch, validators_schedule));
                            assert(sum0[q]);
                        }
                    }
                }
            }"""),
         ],
         spec="""
    requires validators_schedule.wf(),
    ensures r.is_ok() <==> self.valid(genesis_hash, epoch, validators_schedule),
""")
    U.fn(F_RT, "impl TimeoutQC :: fn weight", wrap="impl TimeoutQC", ret="r",
         header_subs=[("validator::Schedule", "Schedule")],
         chains=[dict(recv="self.map", methods=["values", "map", "sum"],
                      closures={1: dict(ty="&Signers", ret="w: u64",
                                        spec="requires validators_schedule.wf(), {p}.0@.len() == validators_schedule.vec@.len() "
                                             "ensures w as int == sw({p}.0@, validators_schedule.vec@, validators_schedule.vec@.len() as int)")},
                      template="{{ proof {{ lemma_tqc_weight(self.map.entries(), validators_schedule.vec@, self.map.entries().len() as int); "
                               "assert forall|j: int| 0 <= j < self.map.entries().len() implies 0 <= #[trigger] sw(self.map.entries()[j].1.0@, validators_schedule.vec@, validators_schedule.vec@.len() as int) <= u64::MAX by {{ lemma_sw_le_total(self.map.entries()[j].1.0@, validators_schedule.vec@, validators_schedule.vec@.len() as int); }} }} "
                               "tmpl_map_values_map_sum(&self.map, {a1}, Ghost(|j: int| sw(self.map.entries()[j].1.0@, "
                               "validators_schedule.vec@, validators_schedule.vec@.len() as int) as u64)) }}")],
         spec="""
    requires validators_schedule.wf(),
             forall|j: int| 0 <= j < self.map.entries().len() ==> (#[trigger] self.map.entries()[j]).1.0@.len() == validators_schedule.vec@.len(),
             // the bitmaps are pairwise disjoint (what verify() checks, and what add() maintains), so the sum fits
             self.disjoint(self.map.entries().len() as int),
    ensures r as int == sw(ubits(self.map.entries(), validators_schedule.vec@.len() as int, self.map.entries().len() as int),
                           validators_schedule.vec@, validators_schedule.vec@.len() as int),
""")


SPEC_REST = r"""
impl ProposalJustification {
    pub open spec fn valid(&self, g: GenesisHash, e: EpochNumber, s: &Schedule) -> bool {
        match self {
            ProposalJustification::Commit(qc) => qc.valid(g, e, s),
            ProposalJustification::Timeout(qc) => qc.valid(g, e, s),
        }
    }
}
"""


def add_rest(U):
    U.item(F_LP, "enum ProposalJustification")
    U.raw(T.clone_impl("ProposalJustification"), label="clone PJ")
    U.item(F_LP, "enum ProposalJustificationVerifyError")
    U.item(F_LP, "struct LeaderProposal")
    U.item(F_LP, "enum LeaderProposalVerifyError")
    U.item(F_NV, "struct ReplicaNewView")
    U.item(F_NV, "enum ReplicaNewViewVerifyError")
    U.item(F_BLK, "struct FinalBlock")
    U.item(F_BLK, "enum BlockValidationError")
    U.raw(SPEC_REST, label="spec rest")
    HS = [("validator::Schedule", "Schedule")]
    U.fn(F_LP, "impl ProposalJustification :: fn verify", wrap="impl ProposalJustification", ret="r", header_subs=HS, spec="""
    requires validators_schedule.wf(),
    ensures r.is_ok() <==> self.valid(genesis, epoch, validators_schedule),
""")
    U.fn(F_LP, "impl LeaderProposal :: fn verify", wrap="impl LeaderProposal", ret="r", header_subs=HS, spec="""
    requires validators_schedule.wf(),
    ensures r.is_ok() <==> self.justification.valid(genesis, epoch, validators_schedule),
""")
    U.fn(F_NV, "impl ReplicaNewView :: fn verify", wrap="impl ReplicaNewView", ret="r", header_subs=HS, spec="""
    requires validators_schedule.wf(),
    ensures r.is_ok() <==> self.justification.valid(genesis, epoch, validators_schedule),
""")
    U.fn(T.F_BLOCK, "impl Payload :: fn hash", wrap="impl Payload", ret="r",
         subs=[("Keccak256::new(&self.0)", "Keccak256::new(self.0.as_slice())")],
         spec="    ensures r == PayloadHash(keccak(self.0@)),\n")
    U.fn(F_BLK, "impl FinalBlock :: fn header", wrap="impl FinalBlock", ret="r", spec="    ensures *r == self.justification.message.proposal,\n")
    U.fn(F_BLK, "impl FinalBlock :: fn number", wrap="impl FinalBlock", ret="r", spec="    ensures r == self.justification.message.proposal.number,\n")
    U.fn(F_BLK, "impl FinalBlock :: fn epoch", wrap="impl FinalBlock", ret="r", spec="    ensures r == self.justification.message.view.epoch,\n")
    U.fn(F_BLK, "impl FinalBlock :: fn verify", wrap="impl FinalBlock", ret="r", header_subs=HS, spec="""
    requires validators_schedule.wf(),
    // "(for blocks) the payload hashes to the certified header"
    ensures r.is_ok() <==> (PayloadHash(keccak(self.payload.0@)) == self.justification.message.proposal.payload
                            && self.justification.valid(genesis, epoch, validators_schedule)),
""")


def build(repo):
    U = Unit("qc", ["C04", "C10"], desc="quorum certificates", uses=T.USES)
    U.repo = repo
    T.add_base_types(U)
    add_signers(U)
    add_commit(U)
    add_timeout(U)
    add_rest(U)
    return U
