"""U-prune (C16): the pruning step of sync::prunable_mpsc::Sender::send."""
from vx.unit import Unit

F = "node/libs/concurrency/src/sync/prunable_mpsc/mod.rs"
SEND = "impl<T> Sender<T> :: fn send"

PRELUDE = r"""
// ---------------- prelude: the boxed predicate / selection function are deterministic functions (A1) ----------------
#[verifier::external_body] #[verifier::reject_recursive_types(T)]
pub struct Sender<T> { _p: core::marker::PhantomData<T> }          // R-type: Sender<T> { shared, filter_predicate: Box<dyn Fn>, selection_function: Box<dyn Fn> }
impl<T> Sender<T> {
    pub uninterp spec fn sel_spec(&self, old_v: T, new_v: T) -> SelectionFunctionResult;
    pub uninterp spec fn filter_spec(&self, v: T) -> bool;
    #[verifier::external_body]
    pub fn select(&self, a: &T, b: &T) -> (r: SelectionFunctionResult) ensures r == self.sel_spec(*a, *b) { unimplemented!() }
    #[verifier::external_body]
    pub fn filter(&self, a: &T) -> (r: bool) ensures r == self.filter_spec(*a) { unimplemented!() }
}
#[verifier::external_body] pub fn verif_send_modify<T>(this: &Sender<T>, value: T) requires this.filter_spec(value) { unimplemented!() }
// survivors of the pending queue when `value` arrives: every entry the selection function does not discard, in arrival order
pub open spec fn keepf<T>(q: Seq<T>, p: spec_fn(T) -> bool) -> Seq<T>
    decreases q.len()
{
    if q.len() == 0 { Seq::empty() } else {
        let r = keepf(q.drop_last(), p);
        if p(q.last()) { r.push(q.last()) } else { r }
    }
}
pub open spec fn survivors<T>(s: &Sender<T>, q: Seq<T>, value: T) -> Seq<T> {
    keepf(q, |x: T| s.sel_spec(x, value) != SelectionFunctionResult::DiscardOld)
}
pub open spec fn dominated<T>(s: &Sender<T>, q: Seq<T>, value: T) -> bool {
    exists|i: int| 0 <= i < q.len() && s.sel_spec(#[trigger] q[i], value) == SelectionFunctionResult::DiscardNew
}
// R-chain template for `buf.retain(<closure lifted to retain_pred>)`.
// A1 (VecDeque::retain): visits every element exactly once, in order, and keeps exactly those for which the closure returned true.
// The closure's own effect (verified as `retain_pred`) is: retain iff not DiscardOld; clear the captured flag iff DiscardNew.
#[verifier::external_body]
pub fn tmpl_retain_pred<T>(buf: &mut VecDeque<T>, value: &T, keep: &mut bool, this: &Sender<T>)
    ensures final(buf)@ == survivors(this, old(buf)@, *value),
            *final(keep) == (*old(keep) && !dominated(this, old(buf)@, *value)),
{ unimplemented!() }
"""

LEMMA = r"""
// ---------------- C16: with the consensus selection function the queue keeps at most one message per (sender, kind) ----------------
// `cls` = (sender, kind) class of a message, `vw` = its view. The hypotheses on sel_spec are exactly the postcondition of
// bft::inbound_selection_function (proved in unit replica).
pub open spec fn sel_is_consensus<T>(s: &Sender<T>, cls: spec_fn(T) -> int, vw: spec_fn(T) -> int) -> bool {
    forall|a: T, b: T| #[trigger] s.sel_spec(a, b) == (if cls(a) != cls(b) { SelectionFunctionResult::Keep }
        else if vw(a) < vw(b) { SelectionFunctionResult::DiscardOld } else { SelectionFunctionResult::DiscardNew })
}
pub open spec fn one_per_class<T>(q: Seq<T>, cls: spec_fn(T) -> int) -> bool {
    forall|i: int, j: int| 0 <= i < j < q.len() ==> cls(#[trigger] q[i]) != cls(#[trigger] q[j])
}
pub open spec fn after_send<T>(s: &Sender<T>, q: Seq<T>, value: T) -> Seq<T> {
    if dominated(s, q, value) { survivors(s, q, value) } else { survivors(s, q, value).push(value) }
}
// keepf keeps exactly the elements satisfying p, in their original order
pub proof fn lemma_keepf<T>(q: Seq<T>, p: spec_fn(T) -> bool)
    ensures
        keepf(q, p).len() <= q.len(),
        forall|i: int| 0 <= i < keepf(q, p).len() ==> p(#[trigger] keepf(q, p)[i]) && q.contains(keepf(q, p)[i]),
        forall|i: int| 0 <= i < q.len() && p(#[trigger] q[i]) ==> keepf(q, p).contains(q[i]),
        forall|i: int, j: int| 0 <= i < j < keepf(q, p).len() ==>
            exists|a: int, b: int| 0 <= a < b < q.len() && q[a] == #[trigger] keepf(q, p)[i] && q[b] == #[trigger] keepf(q, p)[j],
    decreases q.len()
{
    if q.len() > 0 {
        let front = q.drop_last();
        let last = q.last();
        lemma_keepf(front, p);
        let kf = keepf(front, p);
        let k = keepf(q, p);
        assert forall|i: int| 0 <= i < k.len() implies p(#[trigger] k[i]) && q.contains(k[i]) by {
            if i < kf.len() {
                assert(k[i] == kf[i]);
                let a = choose|a: int| 0 <= a < front.len() && front[a] == kf[i];
                assert(q[a] == k[i]);
            } else {
                assert(k[i] == last && q[q.len() - 1] == last);
            }
        }
        assert forall|i: int| 0 <= i < q.len() && p(#[trigger] q[i]) implies k.contains(q[i]) by {
            if i < front.len() {
                assert(front[i] == q[i]);
                let c = choose|c: int| 0 <= c < kf.len() && kf[c] == front[i];
                assert(k[c] == q[i]);
            } else {
                assert(k[k.len() - 1] == q[i]);
            }
        }
        assert forall|i: int, j: int| 0 <= i < j < k.len() implies
            exists|a: int, b: int| 0 <= a < b < q.len() && q[a] == #[trigger] k[i] && q[b] == #[trigger] k[j] by {
            if j < kf.len() {
                assert(k[i] == kf[i] && k[j] == kf[j]);
                let (a, b) = choose|a: int, b: int| 0 <= a < b < front.len() && front[a] == kf[i] && front[b] == kf[j];
                assert(q[a] == k[i] && q[b] == k[j]);
            } else {
                assert(k[j] == last && k[i] == kf[i]);
                let a = choose|a: int| 0 <= a < front.len() && front[a] == kf[i];
                assert(q[a] == k[i] && q[q.len() - 1] == k[j]);
            }
        }
    }
}
pub proof fn lemma_prune_step<T>(s: &Sender<T>, q: Seq<T>, value: T, cls: spec_fn(T) -> int, vw: spec_fn(T) -> int)
    requires sel_is_consensus(s, cls, vw), one_per_class(q, cls),
    ensures
        // bounded: still at most one pending message per sender and kind
        one_per_class(after_send(s, q, value), cls),
        // a pending message is dropped only if the new one has the same class and a strictly higher view ...
        forall|i: int| 0 <= i < q.len() && !survivors(s, q, value).contains(#[trigger] q[i]) ==> cls(q[i]) == cls(value) && vw(q[i]) < vw(value),
        // ... and the new one is dropped only if a pending one of its class has an equal or higher view
        dominated(s, q, value) ==> exists|i: int| 0 <= i < q.len() && cls(#[trigger] q[i]) == cls(value) && vw(q[i]) >= vw(value),
{
    let p = |x: T| s.sel_spec(x, value) != SelectionFunctionResult::DiscardOld;
    let f = survivors(s, q, value);
    lemma_keepf(q, p);
    assert forall|i: int, j: int| 0 <= i < j < f.len() implies cls(#[trigger] f[i]) != cls(#[trigger] f[j]) by {
        let (a, b) = choose|a: int, b: int| 0 <= a < b < q.len() && q[a] == f[i] && q[b] == f[j];
        assert(cls(q[a]) != cls(q[b]));
    }
    if !dominated(s, q, value) {
        assert forall|i: int| 0 <= i < f.len() implies cls(#[trigger] f[i]) != cls(value) by {
            let k = choose|k: int| 0 <= k < q.len() && q[k] == f[i];
            assert(s.sel_spec(q[k], value) != SelectionFunctionResult::DiscardNew);
            assert(p(f[i]));
        }
        let g = f.push(value);
        assert forall|i: int, j: int| 0 <= i < j < g.len() implies cls(#[trigger] g[i]) != cls(#[trigger] g[j]) by {
            if j < f.len() { assert(g[i] == f[i] && g[j] == f[j]); } else { assert(g[i] == f[i] && g[j] == value); }
        }
    }
    if dominated(s, q, value) {
        let i = choose|i: int| 0 <= i < q.len() && s.sel_spec(#[trigger] q[i], value) == SelectionFunctionResult::DiscardNew;
        assert(cls(q[i]) == cls(value) && vw(q[i]) >= vw(value));
    }
}
"""


def build(repo):
    U = Unit("prune", ["C16"], desc="prunable channel", uses="use std::collections::VecDeque;", crate_attrs="#![feature(allocator_api)]")
    U.repo = repo
    U.item(F, "enum SelectionFunctionResult", attrs="#[derive(PartialEq, Eq, Structural)]")
    U.raw(PRELUDE, label="prelude prune")
    # the retain closure (it assigns to the captured flag `keep`): lifted with the capture made an explicit &mut parameter
    U.lift_closure(F, SEND, "|x| match", "retain_pred", "<T>(x: &T, value: &T, keep: &mut bool, this: &Sender<T>) -> (r: bool)",
                   subs=[("(self.selection_function)(x, &value)", "this.select(x, value)   /* R-type: boxed closure call */"),
                         ("keep = false;", "*keep = false;   /* R-capture: the captured flag is an explicit &mut parameter */")],
                   spec="""
    ensures r == (this.sel_spec(*x, *value) != SelectionFunctionResult::DiscardOld),
            *final(keep) == (*old(keep) && this.sel_spec(*x, *value) != SelectionFunctionResult::DiscardNew),
""")
    # the closure handed to send_modify
    U.lift_closure(F, SEND, "|buf|", "prune_step", "<T>(buf: &mut VecDeque<T>, value: T, this: &Sender<T>)",
                   subs=[("buf.retain($C);", "tmpl_retain_pred(buf, &value, &mut keep, this);   /* R-chain: closure verified as retain_pred */"),
                         ("(self.filter_predicate)(&value)", "this.filter(&value)   /* R-type */", None)],
                   spec="""
    ensures
        // the queue after a send: the survivors in arrival order, then the new message unless a pending one dominates it
        final(buf)@ == after_send(this, old(buf)@, value),
""")
    U.raw(LEMMA, label="lemma prune", canary=True)
    U.fn(F, SEND, wrap="impl<T> Sender<T>",
         subs=[("(self.filter_predicate)(&value)", "self.filter(&value)   /* R-type */"),
               ("self.shared.send.send_modify($C);", "verif_send_modify(self, value);   /* R-stub: closure verified as prune_step */")],
         spec="    ensures true,\n")

    # ---- Receiver::recv: delivery in arrival order, and the unwrap cannot fail
    U.raw(r"""
// ---------------- Receiver::recv ----------------
pub assume_specification<T, A: core::alloc::Allocator> [VecDeque::<T, A>::is_empty] (d: &VecDeque<T, A>) -> (r: bool)   // A1
    ensures r == (d@.len() == 0);
#[verifier::external_body] pub struct Ctx { _p: u8 }
pub struct Canceled;
#[verifier::external_body] #[verifier::reject_recursive_types(T)]
pub struct Receiver<T> { _p: core::marker::PhantomData<T> }          // R-type: Receiver<T> { shared: Arc<Shared<T>>, recv: watch::Receiver<VecDeque<T>> }
// sync::wait_for(ctx, &mut self.recv, pred): Ok only after the predicate returned true on the channel's value (A4)
#[verifier::external_body]
pub async fn wait_for_buf<T, F: Fn(&VecDeque<T>) -> bool>(ctx: &Ctx, r: &mut Receiver<T>, f: F) -> (res: Result<(), Canceled>)
    requires forall|b: &VecDeque<T>| #[trigger] f.requires((b,)),
             // the predicate that ends the wait must imply a non-empty buffer
             forall|b: &VecDeque<T>| #[trigger] f.ensures((b,), true) ==> b@.len() > 0,
{ unimplemented!() }
// R-stub: `self.shared.send.send_modify(<recv_pop_closure>)`. Rely (A4, single receiver): the wait ended on a non-empty buffer, since then
// only senders ran, and a send never empties a queue (lemma_send_nonempty), so the closure (verified below) finds a front element.
#[verifier::external_body]
pub fn verif_recv_pop<T>(r: &mut Receiver<T>, value: &mut Option<T>)
    ensures final(value).is_some()
{ unimplemented!() }
// a send never empties the queue: either the new message is appended or a pending message that dominates it survives
pub proof fn lemma_send_nonempty<T>(s: &Sender<T>, q: Seq<T>, value: T)
    ensures after_send(s, q, value).len() > 0
{
    let p = |x: T| s.sel_spec(x, value) != SelectionFunctionResult::DiscardOld;
    lemma_keepf(q, p);
    if dominated(s, q, value) {
        let i = choose|i: int| 0 <= i < q.len() && s.sel_spec(#[trigger] q[i], value) == SelectionFunctionResult::DiscardNew;
        assert(p(q[i]));
        assert(keepf(q, p).contains(q[i]));
    }
}
""", label="prelude recv", canary=True)
    RECV = "impl<T> Receiver<T> :: fn recv"
    U.lift_closure(F, RECV, "|buf| value", "recv_pop_closure", "<T>(buf: &mut VecDeque<T>, value: &mut Option<T>)",
                   subs=[("value = buf.", "*value = buf.   /* R-capture: captured by mutable reference */")],
                   spec="""
    ensures
        // the OLDEST retained message is delivered and only it leaves the queue: retained messages are received in arrival order
        old(buf)@.len() > 0 ==> *final(value) == Some(old(buf)@[0]) && final(buf)@ == old(buf)@.subrange(1, old(buf)@.len() as int),
        old(buf)@.len() == 0 ==> final(value).is_none() && final(buf)@ == old(buf)@,
""")
    U.fn(F, RECV, wrap="impl<T> Receiver<T>", ret="r",
         header_subs=[("ctx::Ctx", "Ctx"), ("ctx::OrCanceled<T>", "Result<T, Canceled>")],
         subs=[("sync::wait_for(ctx, &mut self.recv, |buf| $E).await?;",
                "wait_for_buf(ctx, self, |buf: &VecDeque<T>| -> (b: bool) ensures b ==> buf@.len() > 0 { $E }).await?;   /* W-closure */"),
               ("self.shared.send.send_modify($C);", "verif_recv_pop(self, &mut value);   /* R-stub: closure verified as recv_pop_closure */")],
         spec="    ensures true,      // panic-freedom: the `unwrap()` of the popped value is a proof obligation\n")
    U.assume("A1: VecDeque::retain visits each element once in order and keeps those for which the closure returns true; "
             "the boxed selection function / filter predicate are deterministic functions")
    U.assume("A4: send_modify runs the closure atomically under the watch channel's lock; concurrent senders are serialised by it")
    return U
