"""U-addrs (C18): the validator address book."""
from vx.unit import Unit
from units import common

F_VA = "node/components/network/src/gossip/validator_addrs.rs"
F_DISC = "node/libs/roles/src/validator/messages/discovery.rs"

PRELUDE = r"""
// ---------------- prelude (assumed contracts) ----------------
#[verifier::external_body] pub struct PublicKey { _p: u8 }                      // A3
impl Clone for PublicKey { #[verifier::external_body] fn clone(&self) -> (r: Self) ensures r == *self { unimplemented!() } }
#[verifier::external_body] pub struct Signature { _p: u8 }                      // A3
#[verifier::external_body] pub struct SocketAddr { _p: u8 }
#[verifier::external_body] pub struct Utc { _p: u8 }                            // time::Utc
impl PartialEq for SocketAddr { #[verifier::external_body] fn eq(&self, o: &Self) -> (r: bool) { unimplemented!() } }      // A1: std SocketAddr equality
impl PartialEqSpecImpl for SocketAddr {
    open spec fn obeys_eq_spec() -> bool { true }
    open spec fn eq_spec(&self, o: &Self) -> bool { *self == *o }
}
#[verifier::external_body] pub struct AnyhowError { _p: u8 }
#[verifier::external_body] pub fn anyhow_error() -> AnyhowError { unimplemented!() }
pub struct Signed<V> { pub msg: V, pub key: PublicKey, pub sig: Signature }      // roles::validator::Signed (fields only)
pub uninterp spec fn sig_ok<V>(msg: V, key: PublicKey, sig: Signature) -> bool;  // A3
impl<V> Signed<V> {
    #[verifier::external_body]
    pub fn verify(&self) -> (r: Result<(), AnyhowError>) ensures r.is_ok() == sig_ok(self.msg, self.key, self.sig) { unimplemented!() }
}
// the committee: Schedule::contains (proved in unit leader / assumed invariant of Schedule::new)
#[verifier::external_body] pub struct Schedule { _p: u8 }
impl Schedule {
    pub uninterp spec fn member(&self, k: PublicKey) -> bool;
    #[verifier::external_body] pub fn contains(&self, validator: &PublicKey) -> (r: bool) ensures r == self.member(*validator) { unimplemented!() }
}
// (version, timestamp) lexicographic order: `NetAddress::is_newer` is `(v, t) > (v', t')` on a tuple, which Verus cannot take;
// its contract is ASSUMED here and checked on the real function by the Kani harness `is_newer_strict_total_order` (loop-free, complete)
pub uninterp spec fn utc_lt(a: Utc, b: Utc) -> bool;
pub broadcast axiom fn utc_lt_irrefl(a: Utc) ensures !#[trigger] utc_lt(a, a);        // strict order (checked by the Kani harness)
pub open spec fn newer(a: NetAddress, b: NetAddress) -> bool { a.version > b.version || (a.version == b.version && utc_lt(b.timestamp, a.timestamp)) }
impl NetAddress {
    #[verifier::external_body]
    pub fn is_newer(&self, b: &Self) -> (r: bool) ensures r == newer(*self, *b) { unimplemented!() }
}
// R-type: im::HashMap<PublicKey, Arc<Signed<NetAddress>>> (A2) and the local HashSet<PublicKey> (A1)
#[verifier::external_body] pub struct AddrMap { _p: u8 }
impl Clone for AddrMap { #[verifier::external_body] fn clone(&self) -> (r: Self) ensures r == *self { unimplemented!() } }
impl AddrMap {
    pub uninterp spec fn view(&self) -> Map<PublicKey, Signed<NetAddress>>;
    #[verifier::external_body]
    pub fn get(&self, k: &PublicKey) -> (r: Option<&Arc<Signed<NetAddress>>>)
        ensures r.is_some() == self@.contains_key(*k), r.is_some() ==> **r.unwrap() == self@[*k] { unimplemented!() }
    #[verifier::external_body]
    pub fn insert(&mut self, k: PublicKey, v: Arc<Signed<NetAddress>>) -> (r: Option<Arc<Signed<NetAddress>>>)
        ensures final(self)@ == old(self)@.insert(k, *v), r.is_some() == old(self)@.contains_key(k), r matches Some(p) ==> *p == old(self)@[k] { unimplemented!() }
}
#[verifier::external_body] pub struct KeySet { _p: u8 }
impl KeySet {
    pub uninterp spec fn view(&self) -> Set<PublicKey>;
    #[verifier::external_body] pub fn new() -> (r: Self) ensures r@ == Set::<PublicKey>::empty() { unimplemented!() }
    #[verifier::external_body] pub fn contains(&self, k: &PublicKey) -> (r: bool) ensures r == self@.contains(*k) { unimplemented!() }
    #[verifier::external_body] pub fn insert(&mut self, k: PublicKey) -> (r: bool) ensures final(self)@ == old(self)@.insert(k) { unimplemented!() }
}
"""

SPEC = r"""
// ---------------- specification (C18), written from the property statement ----------------
// entry i of the batch is one the node must store: by a committee member and strictly newer than what is held
pub open spec fn wanted(old_m: Map<PublicKey, Signed<NetAddress>>, s: &Schedule, d: Signed<NetAddress>) -> bool {
    s.member(d.key) && (old_m.contains_key(d.key) ==> newer(d.msg, old_m[d.key].msg))
}
// the book after the first j entries of a batch have been applied to old_m (entries have pairwise distinct keys)
pub open spec fn applied(old_m: Map<PublicKey, Signed<NetAddress>>, new_m: Map<PublicKey, Signed<NetAddress>>, s: &Schedule,
                         data: Seq<Arc<Signed<NetAddress>>>, j: int) -> bool {
    &&& forall|a: int, b: int| 0 <= a < b < j ==> (#[trigger] data[a]).key != (#[trigger] data[b]).key
    &&& forall|k: PublicKey| #[trigger] new_m.contains_key(k) <==> (old_m.contains_key(k) || exists|i: int| 0 <= i < j && (#[trigger] data[i]).key == k && wanted(old_m, s, *data[i]))
    &&& forall|i: int| 0 <= i < j && wanted(old_m, s, *(#[trigger] data[i])) ==>
            // "a forged announcement is never stored": what is stored passed the signature check
            sig_ok(data[i].msg, data[i].key, data[i].sig) && new_m.contains_key(data[i].key) && new_m[data[i].key] == *data[i]
    // keys the batch does not touch (or touches only with entries that are not wanted) keep their entry
    &&& forall|k: PublicKey| #[trigger] old_m.contains_key(k) && !(exists|i: int| 0 <= i < j && (#[trigger] data[i]).key == k && wanted(old_m, s, *data[i]))
            ==> new_m.contains_key(k) && new_m[k] == old_m[k]
}
"""


def build(repo):
    U = Unit("addrs", ["C18"], desc="validator address book", uses="use std::sync::Arc;\nuse vstd::std_specs::cmp::*;")
    U.repo = repo
    U.raw(common.STD_COMBINATORS + PRELUDE, label="prelude addrs")
    U.item(F_DISC, "struct NetAddress", subs=[("net::SocketAddr", "SocketAddr"), ("time::Utc", "Utc")])
    U.item(F_VA, "struct ValidatorAddrs",
           subs=[("im::HashMap<validator::PublicKey, Arc<validator::Signed<validator::NetAddress>>>", "AddrMap")])
    U.raw(SPEC, label="spec addrs")
    U.fn(F_VA, "impl ValidatorAddrs :: fn update", wrap="impl ValidatorAddrs", ret="r",
         header_subs=[("validator::Schedule", "Schedule"), ("&[Arc<validator::Signed<validator::NetAddress>>]", "&[Arc<Signed<NetAddress>>]"),
                      ("anyhow::Result<bool>", "Result<bool, AnyhowError>")],
         subs=[("HashSet::new()", "KeySet::new()   /* R-type */"),
               # R-op: `x |= e` on bools (Verus has no non-short-circuit OR): e is evaluated first, as in the original
               ("changed |= $E;", "changed = { let verif_rhs: bool = $E; changed || verif_rhs };   /* R-op */", None)],
         post_subs=[("Ok(changed)", """proof {
            broadcast use utc_lt_irrefl;
            if changed {
                let i = choose|i: int| 0 <= i < data@.len() && wanted(old(self).0@, validators, *(#[trigger] data@[i]));
                assert(self.0@[data@[i].key] == *data@[i]);
                assert(self.0@ != old(self).0@);
            } else {
                assert(self.0@ =~= old(self).0@);
            }
        }
        Ok(changed)""")],
         index_loops={0: dict(prefix="for d in data", len="data.len()", spec_len="data@.len()", at="&data[{i}]", pat="d",
                              inv="""
            0 <= {i} <= data@.len(),
            forall|k: PublicKey| #[trigger] done@.contains(k) <==> exists|i: int| 0 <= i < {i} && (#[trigger] data@[i]).key == k,
            applied(old(self).0@, self.0@, validators, data@, {i} as int),
            changed <==> exists|i: int| 0 <= i < {i} && wanted(old(self).0@, validators, *(#[trigger] data@[i])),
""")},
         spec="""
    ensures
        // whatever happens (also when the batch is rejected half-way), every entry of the book is either the one held before or an
        // announcement from the batch that is by a committee member, passed the signature check and is strictly newer than the one it replaced
        forall|k: PublicKey| #[trigger] final(self).0@.contains_key(k) ==>
            (old(self).0@.contains_key(k) && final(self).0@[k] == old(self).0@[k])
            || exists|i: int| 0 <= i < data@.len() && (#[trigger] data@[i]).key == k && final(self).0@[k] == *data@[i]
                 && wanted(old(self).0@, validators, *data@[i]) && sig_ok(data@[i].msg, data@[i].key, data@[i].sig),
        // an accepted batch has pairwise distinct keys and is applied completely; the flag says whether anything changed
        r matches Ok(c) ==> applied(old(self).0@, final(self).0@, validators, data@, data@.len() as int) && (c <==> final(self).0@ != old(self).0@),
        r matches Ok(c) ==> (c <==> exists|i: int| 0 <= i < data@.len() && wanted(old(self).0@, validators, *(#[trigger] data@[i]))),
""")
    U.raw("""
impl Clone for ValidatorAddrs { #[verifier::external_body] fn clone(&self) -> (r: Self) ensures r == *self { unimplemented!() } }   // A1
// R-type: crate::watch::Watch<ValidatorAddrs> behind its mutex (A4: the guard serialises writers)
#[verifier::external_body] pub struct AddrsWatch { _p: u8 }
#[verifier::external_body] pub struct AddrsGuard { _p: u8 }
impl AddrsWatch { #[verifier::external_body] pub async fn lock(&self) -> AddrsGuard { unimplemented!() } }
impl AddrsGuard {
    pub uninterp spec fn cur(&self) -> ValidatorAddrs;       // the published address book
    #[verifier::external_body] pub fn borrow(&self) -> (r: &ValidatorAddrs) ensures *r == self.cur() { unimplemented!() }
    // publishing is allowed only for the result of a COMPLETELY applied, accepted batch
    #[verifier::external_body]
    pub fn send_replace(&self, v: ValidatorAddrs, Ghost(s): Ghost<&Schedule>, Ghost(data): Ghost<Seq<Arc<Signed<NetAddress>>>>)
        requires applied(self.cur().0@, v.0@, s, data, data.len() as int) { unimplemented!() }
}
""", label="prelude watch")
    U.item(F_VA, "struct ValidatorAddrsWatch", subs=[("Watch<ValidatorAddrs>", "AddrsWatch")])
    U.fn(F_VA, "impl ValidatorAddrsWatch :: fn update", wrap="impl ValidatorAddrsWatch", ret="r",
         header_subs=[("validator::Schedule", "Schedule"), ("&[Arc<validator::Signed<validator::NetAddress>>]", "&[Arc<Signed<NetAddress>>]"),
                      ("anyhow::Result<()>", "Result<(), AnyhowError>")],
         subs=[("this.send_replace(validator_addrs);", "this.send_replace(validator_addrs, Ghost(validators), Ghost(data@));   /* W-ghost */")],
         spec="    ensures true,     // the obligation is the precondition of send_replace: a rejected batch is never published\n")
    U.raw("""
pub open spec fn spec_val<T>(x: &T) -> T { *x }
// the node's own validator key (A3): sign_msg produces a validly signed message under the matching public key
#[verifier::external_body] pub struct SecretKey { _p: u8 }
impl SecretKey {
    pub uninterp spec fn pk(&self) -> PublicKey;
    #[verifier::external_body] pub fn public(&self) -> (r: PublicKey) ensures r == self.pk() { unimplemented!() }
    #[verifier::external_body] pub fn sign_msg(&self, m: NetAddress) -> (r: Signed<NetAddress>)
        ensures r.msg == m, r.key == self.pk(), sig_ok(r.msg, r.key, r.sig) { unimplemented!() }
}
impl AddrsGuard {
    // publishing the node's own announcement: one entry changes, it is validly signed by its key, and it is STRICTLY NEWER than the
    // entry it replaces (the property's replacement rule applied to the local announcement)
    #[verifier::external_body]
    pub fn send_replace_announced(&self, v: ValidatorAddrs, Ghost(e): Ghost<Signed<NetAddress>>)
        requires v.0@ == self.cur().0@.insert(e.key, e), sig_ok(e.msg, e.key, e.sig),
                 self.cur().0@.contains_key(e.key) ==> newer(e.msg, self.cur().0@[e.key].msg),
    { unimplemented!() }
}
""", label="prelude announce")
    U.fn(F_VA, "impl ValidatorAddrs :: fn get", wrap="impl ValidatorAddrs", ret="r",
         header_subs=[("validator::PublicKey", "PublicKey"), ("validator::Signed", "Signed"), ("validator::NetAddress", "NetAddress")],
         spec="    ensures r.is_some() == self.0@.contains_key(*key), r.is_some() ==> **r.unwrap() == self.0@[*key],\n")
    U.fn(F_VA, "impl ValidatorAddrsWatch :: fn announce", wrap="impl ValidatorAddrsWatch",
         header_subs=[("validator::SecretKey", "SecretKey"), ("std::net::SocketAddr", "SocketAddr"), ("time::Utc", "Utc")],
         subs=[("validator::NetAddress {", "NetAddress {"),
               ("this.send_replace(validator_addrs);", "this.send_replace_announced(validator_addrs, Ghost(verif_d));   /* W-ghost */"),
               ("validator_addrs.0.insert(d.key.clone(), d);", "let ghost verif_d = spec_val(&*d); validator_addrs.0.insert(d.key.clone(), d);   /* W-ghost */")],
         closures=[dict(prefix="|x|", ty="&Arc<Signed<NetAddress>>", ret="verif_v: u64",
                        spec="requires {p}.msg.version < u64::MAX ensures verif_v > {p}.msg.version")],
         spec="""
    // A7-like: the node's own announcement counter has not reached 2^64-1 (it starts at 0 and is incremented by this function only)
    requires forall|g: AddrsGuard| g.cur().0@.contains_key(key.pk()) ==> #[trigger] g.cur().0@[key.pk()].msg.version < u64::MAX,
    ensures true,     // the obligation is the precondition of send_replace_announced
""")
    U.raw("""
// ---------------- C18: arrival-order independence for one validator ----------------
// the rule update() applies to one key (postcondition `applied`): an announcement replaces the held one iff it is strictly newer
pub open spec fn keep_newer(cur: Option<NetAddress>, x: NetAddress) -> Option<NetAddress> {
    match cur { None => Some(x), Some(c) => if newer(x, c) { Some(x) } else { cur } }
}
// the order on timestamps is a strict TOTAL order (time::Utc's derived Ord; discharged for NetAddress::is_newer on the real type by
// the Kani harness is_newer_strict_total_order)
pub axiom fn utc_lt_total_order(a: Utc, b: Utc, c: Utc)
    ensures !(utc_lt(a, b) && utc_lt(b, a)), utc_lt(a, b) && utc_lt(b, c) ==> utc_lt(a, c), a != b ==> utc_lt(a, b) || utc_lt(b, a);
// "for validators that never sign two announcements with the same (version, timestamp), all nodes that have seen the same
//  announcements hold the same address regardless of arrival order": two announcements commute
pub proof fn lemma_arrival_order(cur: Option<NetAddress>, a: NetAddress, b: NetAddress)
    requires (a.version, a.timestamp) != (b.version, b.timestamp) || a == b,
             cur matches Some(c) ==> ((c.version, c.timestamp) != (a.version, a.timestamp) || c == a)
                                  && ((c.version, c.timestamp) != (b.version, b.timestamp) || c == b),
    ensures keep_newer(keep_newer(cur, a), b) == keep_newer(keep_newer(cur, b), a),
{
    utc_lt_total_order(a.timestamp, b.timestamp, a.timestamp);
    utc_lt_total_order(b.timestamp, a.timestamp, b.timestamp);
    if cur is Some {
        let c = cur->Some_0;
        utc_lt_total_order(a.timestamp, b.timestamp, c.timestamp);
        utc_lt_total_order(b.timestamp, a.timestamp, c.timestamp);
        utc_lt_total_order(a.timestamp, c.timestamp, b.timestamp);
        utc_lt_total_order(b.timestamp, c.timestamp, a.timestamp);
        utc_lt_total_order(c.timestamp, a.timestamp, b.timestamp);
        utc_lt_total_order(c.timestamp, b.timestamp, a.timestamp);
    }
}
""", label="lemma arrival order", canary=True)
    U.assume("A3: signature verification is an uninterpreted predicate; A2: im::HashMap get/insert as a finite map; A1: HashSet")
    U.assume("NetAddress::is_newer == lexicographic (version, timestamp) is assumed here and checked on the real code by Kani (complete, loop-free)")
    return U
