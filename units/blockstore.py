"""U-blockstore (C08): BlockStore / BlockStoreState representation invariant and operations."""
from vx.unit import Unit
from units import roles_types as T
from units import qc as Q
from units import common

F_BS = "node/libs/engine/src/block_store.rs"
F_MGR = "node/libs/engine/src/manager.rs"
F_BLOCK = T.F_BLOCK

PRELUDE = r"""
#![verifier::loop_isolation(false)]
pub assume_specification<T, A: core::alloc::Allocator> [VecDeque::<T, A>::front] (d: &VecDeque<T, A>) -> (r: Option<&T>)   // A1
    ensures d@.len() == 0 ==> r.is_none(), d@.len() > 0 ==> r == Some(&d@[0]);
pub assume_specification<T, A: core::alloc::Allocator> [VecDeque::<T, A>::get] (d: &VecDeque<T, A>, i: usize) -> (r: Option<&T>)   // A1
    ensures i >= d@.len() ==> r.is_none(), i < d@.len() ==> r == Some(&d@[i as int]);
// Option<&Block>::cloned() with derive(Clone) = equal value (A1)
#[verifier::external_body]
pub fn opt_block_cloned(o: Option<&Block>) -> (r: Option<Block>)
    ensures o.is_none() ==> r.is_none(), o.is_some() ==> r == Some(*o.unwrap())
{ o.cloned() }
"""

SPEC = r"""
// ---------------- specification (C08) ----------------
impl Last {
    pub open spec fn num(&self) -> BlockNumber {
        match self { Last::PreGenesis(n) => *n, Last::FinalV2(qc) => qc.message.proposal.number }
    }
}
impl Block {
    pub open spec fn num(&self) -> BlockNumber {
        match self { Block::PreGenesis(b) => b.number, Block::FinalV2(b) => b.justification.message.proposal.number }
    }
    pub open spec fn as_last(&self) -> Last {
        match self { Block::PreGenesis(b) => Last::PreGenesis(b.number), Block::FinalV2(b) => Last::FinalV2(b.justification) }
    }
}
impl BlockStoreState {
    // number of the block that would come next
    pub open spec fn nxt(&self) -> int {
        match self.last { Some(l) => l.num().0 + 1, None => self.first.0 as int }
    }
    // A7: stored block numbers are below 2^64-1 (BlockNumber::next() panics otherwise)
    pub open spec fn bounded(&self) -> bool { self.last.is_some() ==> self.last.unwrap().num().0 < u64::MAX }
    // what BlockStoreState::verify() checks
    pub open spec fn valid(&self) -> bool { self.last.is_some() ==> self.first.0 <= self.last.unwrap().num().0 }
}
impl BlockStore {
    // representation invariant
    pub open spec fn wf(&self) -> bool {
        let c = self.cache@;
        &&& self.queued.bounded() && self.persisted.bounded()
        // I1 the cache holds consecutive block numbers
        &&& forall|i: int| 0 <= i < c.len() ==> (#[trigger] c[i]).num().0 == c[0].num().0 + i
        // I2 the cache ends exactly where the queue ends, and `queued.last` names that block
        &&& c.len() > 0 ==> c[c.len() - 1].num().0 + 1 == self.queued.nxt() && self.queued.last == Some(c[c.len() - 1].as_last())
        // I3 the durable head never overtakes the queue
        &&& self.persisted.nxt() <= self.queued.nxt()
        // I4 no gap between the durable head and the cache
        &&& c.len() > 0 ==> c[0].num().0 <= self.persisted.nxt()
        &&& c.len() == 0 ==> self.queued.nxt() == self.persisted.nxt()
    }
    // every queued-but-not-yet-durable block number is readable from the cache
    pub open spec fn readable(&self, n: int) -> bool {
        exists|i: int| 0 <= i < self.cache@.len() && (#[trigger] self.cache@[i]).num().0 == n
    }
}
pub proof fn lemma_available_is_readable(s: BlockStore, n: int)
    requires s.wf(), s.persisted.nxt() <= n < s.queued.nxt(),
    ensures s.readable(n),
{
    let c = s.cache@;
    assert(c.len() > 0);
    let i = n - c[0].num().0;
    assert(c[c.len() - 1].num().0 == c[0].num().0 + (c.len() - 1));
    assert(0 <= i < c.len());
    assert(c[i].num().0 == n);
}
"""


ENGINE_PRELUDE = r"""
// ---------------- prelude for EngineManager::{queue_block, get_block} (R-type: runtime handles are opaque) ----------------
pub struct Genesis { pub first_block: BlockNumber, pub hash_: GenesisHash }      // R-type: the two members of validator::Genesis used here
impl Genesis { pub fn hash(&self) -> (r: GenesisHash) ensures r == self.hash_ { self.hash_ } }
#[verifier::external_body] pub struct Ctx { _p: u8 }
#[verifier::external_body] pub struct EngineIf { _p: u8 }                        // Box<dyn EngineInterface> (A5)
#[verifier::external_body] pub struct EpochSchedules { _p: u8 }                  // watch::Sender<BTreeMap<EpochNumber, ScheduleWithLifetime>>
#[verifier::external_body] pub struct WatchBlockStore { _p: u8 }                 // watch::Sender<BlockStore>
#[verifier::external_body] pub struct OpaqueField { _p: u8 }
pub enum CtxError { Canceled, Internal(AnyhowError) }                            // ctx::Error
impl From<AnyhowError> for CtxError { #[verifier::external_body] fn from(e: AnyhowError) -> (r: CtxError) { unimplemented!() } }
pub trait VerifContext<T> { fn context(self, c: ()) -> Result<T, AnyhowError>; fn wrap(self, c: ()) -> Result<T, CtxError>; }
impl<T> VerifContext<T> for Result<T, AnyhowError> {      // anyhow::Context / error::Wrap keep Ok-ness (A1)
    #[verifier::external_body] fn context(self, c: ()) -> (r: Result<T, AnyhowError>) ensures r.is_ok() == self.is_ok(), self.is_ok() ==> r == Result::<T, AnyhowError>::Ok(self->Ok_0) { unimplemented!() }
    #[verifier::external_body] fn wrap(self, c: ()) -> (r: Result<T, CtxError>) ensures r.is_ok() == self.is_ok(), self.is_ok() ==> r == Result::<T, CtxError>::Ok(self->Ok_0) { unimplemented!() }
}
pub trait VerifContext2<T> { fn context(self, c: ()) -> Result<T, CtxError>; fn wrap(self, c: ()) -> Result<T, CtxError>; }
impl<T> VerifContext2<T> for Result<T, CtxError> {
    #[verifier::external_body] fn context(self, c: ()) -> (r: Result<T, CtxError>) ensures r.is_ok() == self.is_ok(), self.is_ok() ==> r == Result::<T, CtxError>::Ok(self->Ok_0) { unimplemented!() }
    #[verifier::external_body] fn wrap(self, c: ()) -> (r: Result<T, CtxError>) ensures r.is_ok() == self.is_ok(), self.is_ok() ==> r == Result::<T, CtxError>::Ok(self->Ok_0) { unimplemented!() }
}
#[verifier::external_body]
pub fn anyhow_into_ctx(e: AnyhowError) -> CtxError { unimplemented!() }
// A5: the execution layer's verdict on a pre-genesis block is an uninterpreted predicate
pub uninterp spec fn pregenesis_ok(i: &EngineIf, b: PreGenesisBlock) -> bool;
impl EngineIf {
    #[verifier::external_body]
    pub async fn verify_pregenesis_block(&self, ctx: &Ctx, block: &PreGenesisBlock) -> (r: Result<(), AnyhowError>)
        ensures r.is_ok() ==> pregenesis_ok(self, *block) { unimplemented!() }
    // A5: the persistent store returns the block with the number asked for (or an error, e.g. when it was pruned)
    #[verifier::external_body]
    pub async fn get_block(&self, ctx: &Ctx, number: BlockNumber) -> (r: Result<Block, CtxError>)
        ensures r matches Ok(b) ==> b.num() == number { unimplemented!() }
}
// the replica's durable voting state passes through the manager unchanged (C03 relies on it); the state itself is opaque here
#[verifier::external_body] pub struct ReplicaStateOpaque { _p: u8 }
impl EngineIf {
    pub uninterp spec fn stored(&self) -> ReplicaStateOpaque;            // A5: what the execution layer holds durably
    pub uninterp spec fn accepted(&self, s: ReplicaStateOpaque) -> bool;  // A5: set_state(s) returned Ok
    #[verifier::external_body]
    pub async fn get_state(&self, ctx: &Ctx) -> (r: Result<ReplicaStateOpaque, CtxError>) ensures r matches Ok(s) ==> s == self.stored() { unimplemented!() }
    #[verifier::external_body]
    pub async fn set_state(&self, ctx: &Ctx, state: &ReplicaStateOpaque) -> (r: Result<(), CtxError>) ensures r.is_ok() ==> self.accepted(*state) { unimplemented!() }
}
impl EpochSchedules { pub uninterp spec fn get(&self, e: EpochNumber) -> Option<ScheduleWithLifetime>; }
impl WatchBlockStore {
    // A4: the content of the watch channel; every writer closure preserves BlockStore::wf (proved: try_push, update_persisted)
    #[verifier::external_body]
    pub fn borrow(&self) -> (r: &BlockStore) ensures r.wf() { unimplemented!() }
}
// what must hold of a block before it may enter the store ("only blocks verified against the schedule of their epoch,
// or the external justification before genesis")
pub open spec fn block_verified(m: &EngineManager, b: Block) -> bool {
    match b {
        Block::PreGenesis(pb) => pb.number.0 < m.genesis.first_block.0 && pregenesis_ok(&m.interface, pb),
        Block::FinalV2(fb) => m.epoch_schedule.get(fb.justification.message.view.epoch).is_some()
            && PayloadHash(keccak(fb.payload.0@)) == fb.justification.message.proposal.payload
            && fb.justification.valid(m.genesis.hash_, fb.justification.message.view.epoch,
                                      &m.epoch_schedule.get(fb.justification.message.view.epoch).unwrap().schedule),
    }
}
// R-stub for the statement  `self.block_store.send_if_modified(|block_store| block_store.try_push(block));`
// (anchor-exact). Its precondition is the property: the block has been verified on this path.
#[verifier::external_body]
pub fn watch_send_if_modified_try_push(m: &EngineManager, block: Block)
    requires block_verified(m, block)
{ unimplemented!() }
// R-stub for  `sync::wait_for(ctx, &mut self.block_store.subscribe(), |bs| bs.queued.next() >= block.number()).await?`
#[verifier::external_body]
pub async fn wait_for_queued_next_ge(ctx: &Ctx, w: &WatchBlockStore, n: BlockNumber) -> (r: Result<(), CtxError>) { unimplemented!() }
// watch::Sender<BTreeMap<EpochNumber, ScheduleWithLifetime>>::borrow(): the map as it is now (A4); BTreeMap::get / Option::cloned (A1)
#[verifier::external_body] pub struct EpochMapRef { _p: u8 }
impl EpochSchedules {
    #[verifier::external_body]
    pub fn borrow(&self) -> (r: EpochMapRef) ensures forall|e: EpochNumber| #[trigger] r.at(e) == self.get(e) { unimplemented!() }
}
impl EpochMapRef {
    pub uninterp spec fn at(&self, e: EpochNumber) -> Option<ScheduleWithLifetime>;
    #[verifier::external_body]
    pub fn get(&self, e: &EpochNumber) -> (r: Option<&ScheduleWithLifetime>)
        ensures r.is_some() == self.at(*e).is_some(), r matches Some(v) ==> *v == self.at(*e).unwrap(),
                r matches Some(v) ==> v.schedule.wf()      // schedules only enter through Schedule::new
    { unimplemented!() }
    #[verifier::external_body]
    pub fn contains_key(&self, e: &EpochNumber) -> (r: bool) ensures r == self.at(*e).is_some() { unimplemented!() }
}
#[verifier::external_body]
pub fn opt_swl_cloned(o: Option<&ScheduleWithLifetime>) -> (r: Option<ScheduleWithLifetime>)      // Option<&T>::cloned with derive(Clone) (A1)
    ensures o.is_none() ==> r.is_none(), o.is_some() ==> r == Some(*o.unwrap()) { unimplemented!() }
"""


def add_engine(U):
    U.item(F_MGR, "struct ScheduleWithLifetime", subs=[("validator::Schedule", "Schedule"), ("validator::BlockNumber", "BlockNumber", None)])
    U.item(F_MGR, "struct EngineManager", subs=[
        ("Box<dyn EngineInterface>", "EngineIf"), ("validator::Genesis", "Genesis"),
        ("sync::watch::Sender<BlockStore>", "WatchBlockStore"),
        ("sync::watch::Sender<BTreeMap<validator::EpochNumber, ScheduleWithLifetime>>", "EpochSchedules"),
        ("time::Duration", "OpaqueField"), ("sync::broadcast::Sender<Transaction>", "OpaqueField")])
    U.raw(ENGINE_PRELUDE, label="prelude engine")
    U.fn(Q.F_BLK, "impl FinalBlock :: fn epoch", wrap="impl FinalBlock", ret="r", spec="    ensures r == self.justification.message.view.epoch,\n")
    U.fn(T.F_BLOCK, "impl Payload :: fn hash", wrap="impl Payload", ret="r",
         subs=[("Keccak256::new(&self.0)", "Keccak256::new(self.0.as_slice())")],
         spec="    ensures r == PayloadHash(keccak(self.0@)),\n")
    U.item(Q.F_BLK, "enum BlockValidationError")
    U.fn(Q.F_BLK, "impl FinalBlock :: fn verify", wrap="impl FinalBlock", ret="r", header_subs=[("validator::Schedule", "Schedule")], spec="""
    requires validators_schedule.wf(),
    ensures r.is_ok() <==> (PayloadHash(keccak(self.payload.0@)) == self.justification.message.proposal.payload
                            && self.justification.valid(genesis, epoch, validators_schedule)),
""")
    U.fn(F_MGR, "impl EngineManager :: fn validator_schedule", wrap="impl EngineManager", ret="r", props=U.props + ["C04"],
         header_subs=[("validator::EpochNumber", "EpochNumber")],
         subs=[("self.epoch_schedule.borrow().get(&epoch).cloned()", "opt_swl_cloned(self.epoch_schedule.borrow().get(&epoch))   /* R-std: .cloned() */", None),
               (".cloned()", "", None)],
         spec="""
    ensures
        // a block is verified against the committee of EXACTLY the epoch it states: no neighbouring epoch's schedule stands in
        r == self.epoch_schedule.get(epoch),
        r.is_some() ==> r.unwrap().schedule.wf(),
""")
    # ---- the fetcher's give-up signal (C19: "stays requested until it has been stored")
    U.raw("""
pub struct Canceled;                                                             // ctx::Canceled
impl WatchBlockStore { #[verifier::external_body] pub fn subscribe(&self) -> BlockStoreReceiver { unimplemented!() } }
// sync::wait_for(ctx, recv, pred): Ok(v) only with a value of the channel on which the predicate returned true (A4); every writer preserves wf
#[verifier::external_body]
pub async fn wait_for_store<'a, F: Fn(&BlockStore) -> bool>(ctx: &Ctx, recv: &'a mut BlockStoreReceiver, f: F) -> (r: Result<&'a BlockStore, Canceled>)
    requires forall|bs: &BlockStore| bs.wf() ==> #[trigger] f.requires((bs,)),
    ensures r matches Ok(bs) ==> bs.wf() && f.ensures((bs,), true),
{ unimplemented!() }
""", label="prelude wait_until_queued", props=["C19"])
    U.fn(F_MGR, "impl EngineManager :: fn wait_until_queued", wrap="impl EngineManager", ret="r", props=["C19"],
         header_subs=[("ctx::Ctx", "Ctx"), ("validator::BlockNumber", "BlockNumber"), ("ctx::OrCanceled<BlockStoreState>", "Result<BlockStoreState, Canceled>")],
         subs=[("sync::wait_for(ctx, &mut self.block_store.subscribe(), $F)", "wait_for_store(ctx, &mut verif_sub, $F)   /* R-let */")],
         closures=[dict(prefix="|block_store|", ty="&BlockStore", ret="verif_b: bool",
                        spec="requires {p}.wf() ensures verif_b ==> number.0 < {p}.queued.nxt()")],
         proof_at_start="let mut verif_sub = self.block_store.subscribe();   /* R-let */",
         rules_=("R-log", "R-errmsg", "R-underscore", "R-ctorfn"),
         spec="""
    ensures
        // the fetcher stops asking for block `number` only on this signal: it is given only once the block has been queued for storage
        r matches Ok(st) ==> number.0 < st.nxt(),
""")
    U.fn(F_MGR, "impl EngineManager :: fn get_block", wrap="impl EngineManager", ret="r",
         header_subs=[("ctx::Ctx", "Ctx"), ("validator::BlockNumber", "BlockNumber"), ("ctx::Result<Option<Block>>", "Result<Option<Block>, CtxError>")],
         subs=[("let t = metrics::$X;", "", 1), ("t.observe();", "", 1),
               ("let block_store = self.block_store.borrow();", "let block_store = self.block_store.borrow(); let ghost verif_bs = *block_store;   /* W-ghost */")],
         rules_=("R-log", "R-errmsg", "R-underscore", "R-ctorfn"),
         spec="""
    ensures
        // whatever is returned IS block `number` (never a different block for that number), from the cache or from durable storage
        r matches Ok(Some(b)) ==> b.num() == number,
""")
    SH = [("ctx::Ctx", "Ctx"), ("validator::ReplicaState", "ReplicaStateOpaque"), ("ctx::Result<ReplicaStateOpaque>", "Result<ReplicaStateOpaque, CtxError>"),
          ("ctx::Result<()>", "Result<(), CtxError>")]
    SH = [(a, b, None) for a, b in SH]
    MS = [("let t = metrics::$X;", "", 1), ("t.observe();", "", 1)]
    U.fn(F_MGR, "impl EngineManager :: fn get_state", wrap="impl EngineManager", ret="r", header_subs=SH, subs=MS, props=["C08", "C03"],
         rules_=("R-log", "R-errmsg", "R-underscore", "R-ctorfn"),
         spec="    ensures r matches Ok(s) ==> s == self.interface.stored(),      // what a restart reads is what the execution layer holds\n")
    U.fn(F_MGR, "impl EngineManager :: fn set_state", wrap="impl EngineManager", ret="r", header_subs=SH, subs=MS, props=["C08", "C03"],
         rules_=("R-log", "R-errmsg", "R-underscore", "R-ctorfn"),
         spec="    ensures r.is_ok() ==> self.interface.accepted(*state),        // Ok only if the execution layer accepted exactly this state\n")
    U.fn(F_MGR, "impl EngineManager :: fn queue_block", wrap="impl EngineManager", ret="r", props=U.props + ["C19", "C04"],
         header_subs=[("ctx::Ctx", "Ctx"), ("ctx::Result<()>", "Result<(), CtxError>")],
         subs=[("let t = metrics::$X;", "", 1), ("t.observe();", "", 1),
               ("anyhow_error()\n                    .into()", "anyhow_into_ctx(anyhow_error())", None),
               # (the arguments stay the repository's: a hole, so that a change of WHAT the block is verified against is decided, not a lost anchor)
               ("b.verify($A)\n                        .context(())?",
                "b.verify($A).map_err(|verif_e| anyhow_into_ctx(anyhow_error()))?   /* R-errmsg: .context()? on a non-anyhow error */"),
               ("""sync::wait_for(ctx, &mut self.block_store.subscribe(), |block_store| {
            block_store.queued.next() >= block.number()
        })""", "wait_for_queued_next_ge(ctx, &self.block_store, block.number())   /* R-stub */"),
               ("self.block_store\n            .send_if_modified(|block_store| block_store.try_push(block));",
                "watch_send_if_modified_try_push(self, block);   /* R-stub: precondition = the block was verified on this path */")],
         rules_=("R-log", "R-errmsg", "R-underscore", "R-ctorfn"),
         spec="""
    // no precondition on the block: queue_block is called with whatever peers or consensus hand over
    ensures true,
""")


def build(repo):
    U = Unit("blockstore", ["C04", "C08"], desc="block store", uses=T.USES + "\nuse std::collections::VecDeque;",
             crate_attrs="#![feature(allocator_api)]")
    U.repo = repo
    T.add_base_types(U)
    Q.add_signers(U)
    Q.add_commit(U)
    U.props = ["C08"]
    U.item(Q.F_BLK, "struct FinalBlock")
    U.item(F_BLOCK, "struct PreGenesisBlock", subs=[("Justification", "PreGenesisJustification", None)])
    U.raw("#[verifier::external_body] pub struct PreGenesisJustification { _p: u8 }   // opaque external justification\n"
          + T.clone_impl("FinalBlock") + T.clone_impl("PreGenesisBlock"), label="pregenesis justification")
    U.item(F_BLOCK, "enum Block", subs=[("v2::FinalBlock", "FinalBlock")])
    U.raw(T.clone_impl("Block"), label="clone Block")
    U.item(F_BS, "enum Last", subs=[("validator::BlockNumber", "BlockNumber"), ("validator::v2::CommitQC", "CommitQC")])
    U.raw(T.clone_impl("Last"), label="clone Last")
    U.item(F_BS, "struct BlockStoreState", subs=[("validator::BlockNumber", "BlockNumber")])
    U.raw(T.clone_impl("BlockStoreState"), label="clone BSS")
    U.item(F_BS, "struct BlockStore", subs=[("validator::Block", "Block")])
    U.raw(PRELUDE.replace("#![verifier::loop_isolation(false)]\n", ""), label="prelude blockstore")
    U.raw(SPEC, label="spec blockstore", canary=True)
    NB = [("validator::BlockNumber", "BlockNumber", None)]
    U.fn(F_BLOCK, "impl BlockNumber :: fn next", wrap="impl BlockNumber", ret="r", spec="""
    requires self.0 < u64::MAX,
    ensures r.0 == self.0 + 1,
""")
    U.fn(F_BLOCK, "impl BlockNumber :: fn prev", wrap="impl BlockNumber", ret="r", spec="""
    ensures self.0 == 0 ==> r.is_none(), self.0 > 0 ==> r == Some(BlockNumber((self.0 - 1) as u64)),
""")
    U.fn(Q.F_BLK, "impl FinalBlock :: fn header", wrap="impl FinalBlock", ret="r", spec="    ensures *r == self.justification.message.proposal,\n")
    U.fn(Q.F_BLK, "impl FinalBlock :: fn number", wrap="impl FinalBlock", ret="r", spec="    ensures r == self.justification.message.proposal.number,\n")
    U.fn(F_BLOCK, "impl Block :: fn number", wrap="impl Block", ret="r", spec="    ensures r == self.num(),\n")
    U.fn(F_BS, "impl Last :: fn number", wrap="impl Last", ret="r", header_subs=NB, spec="    ensures r == self.num(),\n")
    U.fn(F_BS, "impl From<&validator::Block> for Last :: fn from", wrap="impl Last", ret="r",
         header_subs=[("validator::Block", "Block")],
         subs=[("use validator::Block as B;", ""), ("B::", "Block::", None)],
         spec="    ensures r == b.as_last(),\n")
    U.fn(F_BS, "impl BlockStoreState :: fn contains", wrap="impl BlockStoreState", ret="r", header_subs=NB, props=U.props + ["C19"], spec="""
    ensures r == (self.last.is_some() && self.first.0 <= number.0 <= self.last.unwrap().num().0),
""")
    U.fn(F_BS, "impl BlockStoreState :: fn head", wrap="impl BlockStoreState", ret="r", header_subs=NB, subs=NB,
         closures=None, spec="""
    ensures self.last.is_some() ==> r == self.last.unwrap().num(),
""")
    U.fn(F_BS, "impl BlockStoreState :: fn next", wrap="impl BlockStoreState", ret="r", header_subs=NB, spec="""
    requires self.bounded(),
    ensures r.0 == self.nxt(),
""")
    U.fn(F_BS, "impl BlockStoreState :: fn verify", wrap="impl BlockStoreState", ret="r",
         header_subs=[("anyhow::Result<()>", "Result<(), AnyhowError>")], spec="""
    ensures r.is_ok() <==> self.valid(),
""")
    U.item(F_BS, "impl BlockStore :: const CACHE_CAPACITY", vis=False, label="const CACHE_CAPACITY")
    U.sections[-1].text = "impl BlockStore {\npub " + U.sections[-1].text.replace("pub(crate) ", "") + "}\n"
    U.fn(F_BS, "impl BlockStore :: fn block", wrap="impl BlockStore", ret="r", header_subs=[("validator::Block", "Block")] + NB,
         subs=[(".cloned()", "", 1), ("self.cache\n            .get(", "opt_block_cloned(self.cache\n            .get("),
               ("as usize)", "as usize))")],
         spec="""
    requires self.wf(),
    ensures
        // what is returned is block number n ...
        r.is_some() ==> r.unwrap().num() == n && self.readable(n.0 as int) && n.0 < u64::MAX,
        // ... and every number from the first cached block up to the end of the queue is returned
        (self.cache@.len() > 0 && self.cache@[0].num().0 <= n.0 && n.0 < self.queued.nxt()) ==> r.is_some(),
        self.readable(n.0 as int) ==> r.is_some(),
""")
    # the persistence loop of EngineManagerRunner::run picks the block it hands to durable storage with this closure
    U.raw("""
// R-std: Ord::max on BlockNumber (derive(Ord) on a u64 newtype, A1)
#[verifier::external_body]
pub fn bn_max(a: BlockNumber, b: BlockNumber) -> (r: BlockNumber) ensures r.0 == (if a.0 >= b.0 { a.0 } else { b.0 }) { unimplemented!() }
""", label="prelude persist loop")
    U.lift_closure(F_MGR, "impl EngineManagerRunner :: fn run", "|block_store|", "persist_pick",
                   "(block_store: &BlockStore, queue_next: BlockNumber) -> (r: Option<Block>)", nth=1, of=2,
                   subs=[("queue_next.max($A)", "bn_max(queue_next, $A)   /* R-std */")],
                   spec="""
    requires block_store.wf(),
    ensures
        // "each submitted block directly follows the previously submitted one (queue_next = its number + 1) or the current durable head"
        r matches Some(b) ==> b.num().0 == (if queue_next.0 >= block_store.persisted.nxt() { queue_next.0 as int } else { block_store.persisted.nxt() })
            && block_store.readable(b.num().0 as int),
        // and it is handed over as soon as it is available
        block_store.readable(if queue_next.0 >= block_store.persisted.nxt() { queue_next.0 as int } else { block_store.persisted.nxt() }) ==> r.is_some(),
""")
    # one iteration of that loop: wait for the picked block, remember what comes next, hand the block to durable storage (R-block)
    U.raw("""
#[verifier::external_body] pub struct BlockStoreReceiver { _p: u8 }              // sync::watch::Receiver<BlockStore>
pub uninterp spec fn observed_store(bs: BlockStore) -> bool;                     // a store content this subscription saw (A4)
pub uninterp spec fn submitted(n: BlockNumber) -> bool;                          // block n was handed to EngineInterface::queue_next_block
// sync::wait_for_some(ctx, recv, f): Ok(v) only if f returned Some(v) on a value the channel held (A4); every writer preserves wf (proved)
#[verifier::external_body]
pub async fn wait_for_some_block<F: Fn(&BlockStore) -> Option<Block>>(ctx: &Ctx, recv: &mut BlockStoreReceiver, f: F) -> (r: Result<Block, CtxError>)
    requires forall|bs: &BlockStore| bs.wf() ==> #[trigger] f.requires((bs,)),
    ensures r matches Ok(b) ==> exists|bs: &BlockStore| bs.wf() && observed_store(*bs) && #[trigger] f.ensures((bs,), Some(b)),
{ unimplemented!() }
pub open spec fn follows(n: BlockNumber, prev_next: BlockNumber, bs: &BlockStore) -> bool {
    n.0 == (if prev_next.0 >= bs.persisted.nxt() { prev_next.0 as int } else { bs.persisted.nxt() })
}
impl EngineIf {
    // "hands blocks to durable storage in increasing order without gaps - each submitted block directly follows the previously submitted
    //  one [prev_next = its number + 1] or the current durable head"
    #[verifier::external_body]
    pub async fn queue_next_block(&self, ctx: &Ctx, block: Block, Ghost(prev_next): Ghost<BlockNumber>) -> (r: Result<(), CtxError>)
        requires exists|bs: &BlockStore| bs.wf() && observed_store(*bs) && #[trigger] follows(block.num(), prev_next, bs),
        ensures r.is_ok() ==> submitted(block.num()),
    { unimplemented!() }
}
pub struct RunnerInner { pub interface: EngineIf }                              // R-type: the member of EngineManager used by this task
""", label="prelude persist iteration")
    U.lift_closure(F_MGR, "impl EngineManagerRunner :: fn run", "async {\n let block = sync::wait_for_some(", "persist_iteration",
                   "(this: &RunnerInner, ctx: &Ctx, block_store: &mut BlockStoreReceiver, queue_next: &mut BlockNumber) -> (r: Result<(), CtxError>)",
                   block=True, fn_kw="async fn", brace_at=1,
                   rules_=("R-log", "R-errmsg", "R-underscore", "R-ctorfn"),
                   proof_at_start="let verif_qn: BlockNumber = *queue_next;   /* R-let: the captured value */",
                   subs=[("self.0.", "this.", None),
                         (".instrument(tracing::trace_span!($X))", "   /* R-log */", None),
                         ("let t = metrics::$X;", "", 1), ("t.observe();", "", 1),
                         ("queue_next.max($A)", "bn_max(verif_qn, $A)   /* R-std */"),
                         ("sync::wait_for_some(ctx, block_store, |block_store| { $B })",
                          "wait_for_some_block(ctx, block_store, |block_store: &BlockStore| -> (verif_r: Option<Block>) requires block_store.wf() "
                          "ensures verif_r matches Some(b) ==> follows(b.num(), verif_qn, block_store) && b.num().0 < u64::MAX { $B })   /* W-closure */"),
                         ("queue_next = ", "*queue_next = "),
                         (".queue_next_block(ctx, block)", ".queue_next_block(ctx, block, Ghost(verif_qn))   /* W-ghost */"),
                         ("ctx::Ok(())", "Ok(())")],
                   spec="""
    ensures
        // after a successful iteration `queue_next` is the number right after the block that was just submitted, so the next
        // submission (precondition of queue_next_block) directly follows it or the durable head
        r.is_ok() ==> exists|b: BlockNumber| #[trigger] submitted(b) && final(queue_next).0 == b.0 + 1,
""")
    U.fn(F_BS, "impl BlockStore :: fn truncate_cache", wrap="impl BlockStore",
         loops={0: dict(prefix="while self.cache.len() > Self::CACHE_CAPACITY", inv="""
            self.wf(),
            self.queued == old(self).queued, self.persisted == old(self).persisted,
            self.cache@.len() <= old(self).cache@.len(),
            // only a prefix is dropped
            self.cache@ == old(self).cache@.subrange(old(self).cache@.len() - self.cache@.len(), old(self).cache@.len() as int),
            // every dropped block is already durable
            forall|i: int| 0 <= i < old(self).cache@.len() - self.cache@.len() ==> (#[trigger] old(self).cache@[i]).num().0 < self.persisted.nxt(),
""", decreases="self.cache@.len()")},
         spec="""
    requires old(self).wf(),
    ensures final(self).wf(),
            final(self).queued == old(self).queued, final(self).persisted == old(self).persisted,
            final(self).cache@.len() <= old(self).cache@.len(),
            final(self).cache@ == old(self).cache@.subrange(old(self).cache@.len() - final(self).cache@.len(), old(self).cache@.len() as int),
            // pruning removes only blocks that are already durable
            forall|i: int| 0 <= i < old(self).cache@.len() - final(self).cache@.len() ==> (#[trigger] old(self).cache@[i]).num().0 < final(self).persisted.nxt(),
""")
    U.fn(F_BS, "impl BlockStore :: fn try_push", wrap="impl BlockStore", ret="r", header_subs=[("validator::Block", "Block")],
         spec="""
    requires old(self).wf(), block.num().0 < u64::MAX,       // A7
    ensures
        // accepts exactly the next block number
        r == (block.num().0 == old(self).queued.nxt()),
        // a block for any other number (in particular one already accepted) changes nothing
        !r ==> *final(self) == *old(self),
        r ==> final(self).wf()
            && final(self).queued.nxt() == old(self).queued.nxt() + 1
            && final(self).queued.first == old(self).queued.first
            && final(self).persisted == old(self).persisted
            // the cache is the old cache plus the new block, minus a prefix of already durable blocks
            && final(self).cache@.len() <= old(self).cache@.len() + 1
            && final(self).cache@ == old(self).cache@.push(block).subrange(old(self).cache@.len() + 1 - final(self).cache@.len(), old(self).cache@.len() as int + 1)
            && forall|i: int| 0 <= i < old(self).cache@.len() + 1 - final(self).cache@.len() ==> (#[trigger] old(self).cache@.push(block)[i]).num().0 < final(self).persisted.nxt(),
""")
    U.fn(F_BS, "impl BlockStore :: fn update_persisted", wrap="impl BlockStore", ret="r",
         header_subs=[("anyhow::Result<()>", "Result<(), AnyhowError>")],
         post_subs=[("Ok(())", "proof { assert forall|n: int| self.persisted.nxt() <= n < self.queued.nxt() implies self.readable(n) by { lemma_available_is_readable(*self, n); } } Ok(())")],
         spec="""
    requires old(self).wf(), persisted.bounded(),
             persisted.valid(),     // A5: the persistence layer reports states that pass BlockStoreState::verify()
    ensures
        // the durable head may never move backwards; a report that does is refused and changes nothing
        r.is_err() <==> persisted.nxt() < old(self).persisted.nxt(),
        r.is_err() ==> *final(self) == *old(self),
        r.is_ok() ==> final(self).wf() && final(self).persisted == persisted
            && final(self).queued.nxt() >= old(self).queued.nxt()
            // every queued block that is not durable yet is still readable (no gap is ever created)
            && forall|n: int| final(self).persisted.nxt() <= n < final(self).queued.nxt() ==> final(self).readable(n),
""")
    add_engine(U)
    U.assume("A1: VecDeque::{front,get}, Option::cloned as documented")
    U.assume("A4: closures passed to watch::Sender::send_if_modified / try_send_modify run atomically; interleavings between tasks are not modelled")
    U.assume("A7: block numbers of stored blocks are < 2^64-1")
    return U
