"""property -> units, kani harness groups, level, prose. Kept in one place so MANIFEST/evidence agree."""

PROPS = {
    "C07": dict(
        units=["thresholds", "leader"],
        kani=["thresholds"],
        level="proof",
        level_text="Deductive proof (Verus) over the real text of max_faulty_weight / quorum_threshold / subquorum_threshold, "
                   "extracted from /repo on every run: each returns the stated function of n for every n >= 1, no u64 "
                   "overflow/underflow (Verus' own obligations), and the intersection inequalities of the statement are a "
                   "lemma over those contracts for every natural n. No bound on n. Thorough tier adds a loop-free full-domain "
                   "Kani harness on the real crate (complete, gives a concrete n on failure).",
        level_note="f is taken to be floor((n-1)/5) as defined in the statement of C01 and spec/informal-spec/types.rs. "
                   "Trusted: Verus/z3, vstd integer axioms. Precondition n >= 1 is Schedule::new's postcondition (see C11).",
        technique="contract-based deductive verification (Verus on extracted real functions) + Kani full-domain harness",
        design_ref="DESIGN.md §5 C07",
        assumptions=[],
    ),
    "C11": dict(
        units=["leader", "replica", "conv"],
        level="proof",
        level_text="Deductive proof (Verus) over the real text of Schedule::view_leader, Schedule::get and "
                   "LeaderSelection::leader_weighted_eligibility: for every well-formed schedule and every 64-bit view the function "
                   "terminates without panic (no division by zero, no index out of range, unwraps succeed, unreachable!() is dead), "
                   "returns the key of the unique leader-eligible validator in the slot the statement prescribes (round-robin: "
                   "(view/frequency) mod #eligible, frequency 0 => turn 0; weighted: the slot whose cumulative-weight interval "
                   "contains keccak(turn) mod leader_weight). Lemmas: slot uniqueness, frequency-0 never rotates, round-robin "
                   "rotation by one every `frequency` views, each eligible validator owns exactly weight-many residues. "
                   "Schedule::new: Ok => the well-formedness invariant (non-empty, positive weights, leaders = exactly the eligible indices in "
                   "increasing order, total/leader weight = the sums, no overflow, key index = inverse of the vector), sorted by key, same "
                   "multiset as the input. Schedule::contains/index/len/total_weight/leaders against that invariant.",
        level_note="Trusted: num_bigint::BigUint operations and keccak256 as documented (assumed contracts, listed in evidence); "
                   "uniform distribution of keccak is not assumed, so 'proportional share' is proved in its combinatorial form. "
                   "Schedule::wf() is PROVED to be established by Schedule::new (also under contract here): the validators are stored "
                   "sorted by key and are a permutation of the given listing, so the listing order is irrelevant; BTreeMap is modelled as a "
                   "key-ordered sequence (A1) over an uninterpreted strict order on keys (blst); `for v in validators` is taken over a Vec.",
        technique="contract-based deductive verification (Verus on extracted real functions, loop invariant + lemmas)",
        design_ref="DESIGN.md §5 C11",
        assumptions=[],
    ),
    "C04": dict(
        units=["qc", "leader", "blockstore"],
        level="proof",
        level_text="Deductive proof (Verus) over the real text of View::verify, ReplicaCommit::verify, ReplicaTimeout::verify, "
                   "CommitQC::{new,add,verify}, TimeoutQC::{new,add,verify,weight}, Signers::{new,len,is_empty,weight,&,&=,|=}, "
                   "ProposalJustification/LeaderProposal/ReplicaNewView/FinalBlock::verify, Payload::hash: each verify() returns Ok "
                   "IF AND ONLY IF the spec predicate `valid` written from the statement holds (chain+epoch, bitmap length = committee, "
                   "signer weight >= n-f, pairwise-disjoint non-empty signer sets for timeout certificates, nested certificates valid, "
                   "aggregate signature over exactly the selected (vote,key) pairs, payload hash = header); add() refuses non-members, "
                   "repeated signers, other votes, bad signatures and then leaves the certificate unchanged, accepts every vote that "
                   "satisfies those conditions (completeness of add), and changes exactly one bit. For all committee sizes and weights.",
        level_note="Trusted (listed per run in evidence): Unit blockstore also runs for C04 (EngineManager::queue_block: a block enters the store only after FinalBlock::verify against the "
                   "schedule EngineManager::validator_schedule returns for EXACTLY the block's epoch - that function is extracted, not assumed - or the pre-genesis check). "
                   "BLS via blst (Signed::verify, AggregateSignature::{add,verify_messages} are "
                   "uninterpreted predicates), keccak, bit_vec::BitVec, std iterator adapters behind 7 pipeline templates whose closures "
                   "are the repository's and are verified (including the nested flat_map key selection of TimeoutQC::verify), BTreeMap as "
                   "an ordered map with distinct keys, Schedule accessors (proved in unit leader). No statement of these functions is "
                   "abstracted. Only Ok-ness is specified, not which error variant. "
                   "The 'assembled certificate verifies' direction is proved per add() step; the aggregation axiom linking agg_add to "
                   "agg_ok is cryptographic and not assumed, so end-to-end completeness of verify after adds is not claimed.",
        technique="contract-based deductive verification (Verus on extracted real functions; iterator pipelines through assumed templates with verified closures)",
        design_ref="DESIGN.md §5 C04",
        assumptions=[],
    ),
    "C02": dict(
        units=["implied", "replica", "leader"],
        level="proof",
        level_text="Deductive proof (Verus), one-step form of the property. On the real text: TimeoutQC::high_vote returns exactly THE "
                   "header whose reporters' weight reaches n-3f (None if there is none or more than one), computed without overflow for "
                   "every certificate with disjoint signer sets; TimeoutQC::high_qc returns a carried certificate of maximal view (None "
                   "iff none is carried); ProposalJustification::get_implied_block equals the rule of the statement (commit cert for n "
                   "=> fresh block n+1; timeout cert => re-propose the sub-quorum high vote's payload iff it is for a higher number than "
                   "the highest carried certificate, else a fresh block after that certificate / the first block). Ghost lemma "
                   "`lemma_subquorum`: for every committee and every faulty set of weight <= f, if a quorum signed commit votes for h, every "
                   "timeout quorum of that view reports h with weight >= n-3f and anything else with weight < n-3f.",
        level_note="Not decided: chaining the one-step lemma over arbitrarily many later views (history induction H-ind), and the bridge "
                   "between `hvw` (sum over certificate entries) and the set-weight of the lemma is by definition, not a mechanised lemma. "
                   "Trusted: std HashMap entry/into_iter/filter/collect and BTreeMap keys/filter_map/max_by_key behind 3 templates "
                   "(closures verified), BLS/keccak/BitVec as in C04; A7: certified block numbers < 2^64-1. Replica-side consumers "
                   "(payload rule in on_proposal / create_proposal) are covered under C05 when unit replica is claimed.",
        technique="contract-based deductive verification (Verus on extracted real functions + ghost counting lemma)",
        design_ref="DESIGN.md §5 C02",
        assumptions=[],
    ),
    "C08": dict(
        units=["blockstore", "leader", "handlers"],
        level="proof",
        level_text="Deductive proof (Verus) over the real text of BlockStore::{block, try_push, update_persisted, truncate_cache}, "
                   "BlockStoreState::{contains, head, next, verify}, Last::{number, from}, Block::number, BlockNumber::{next, prev} and "
                   "EngineManager::queue_block: the representation invariant (cache holds consecutive numbers, ends where the queue ends, "
                   "durable head never overtakes the queue, no gap between durable head and cache) is preserved by every operation from "
                   "every state satisfying it; try_push accepts exactly the next number and otherwise changes nothing (no replacement of an "
                   "accepted number); pruning drops only already-durable blocks; every queued-not-yet-durable number stays readable; block(n) "
                   "returns block n; queue_block reaches the push only on paths where FinalBlock::verify (payload hash + valid certificate for "
                   "the block's epoch schedule) or the pre-genesis check + external verification succeeded; the closure with which the persistence "
                   "loop of EngineManagerRunner::run picks the block it hands to durable storage (lifted mechanically) returns exactly block "
                   "max(previously submitted + 1, durable head + 1) -- 'each submitted block directly follows the previously submitted one or "
                   "the current durable head' -- and returns it as soon as it is readable; EngineManager::get_block returns, from the cache or "
                   "from durable storage (A5: the store answers with the number asked for), only THE block with the requested number. "
                   "One whole iteration of that persistence loop (the nested async block, lifted mechanically as `persist_iteration`): the block handed to "
                   "EngineInterface::queue_next_block directly follows `queue_next` or the durable head of an observed store state (precondition of "
                   "the call), and after a successful iteration `queue_next` is exactly the submitted number + 1. Unit handlers: the get_block RPC "
                   "handler answers a request for n with block n or nothing.",
        level_note="Not decided: interleavings between tasks (each closure run under the watch channel's lock is taken as atomic, A4), durability of the EngineInterface (A5; incoming persisted states are assumed to pass BlockStoreState::verify). "
                   "Two statements of queue_block are abstracted by anchor-exact stubs (wait_for predicate; send_if_modified(|bs| bs.try_push(block))). "
                   "A7: stored block numbers < 2^64-1.",
        technique="contract-based deductive verification (Verus on extracted real functions; data-structure invariant + whole-view postconditions)",
        design_ref="DESIGN.md §5 C08",
        assumptions=[],
    ),
    "C13": dict(
        units=["noise"],
        kani=["noise_buffer"],
        level="proof",
        level_text="Deductive proof (Verus) over the real text of noise::bytes::Buffer (all 12 methods, against a Seq<u8> window view: "
                   "push appends exactly min(capacity,len) bytes, take drops a prefix, shift keeps the content and regains the consumed "
                   "space, prefix/set_prefix/extend/reset, every debug_assert as a proof obligation on every caller) and of the Stream "
                   "read/write paths poll_read_frame, poll_read_payload, poll_read, poll_flush_frame, poll_flush_payload, poll_write, "
                   "poll_flush, poll_shutdown: no index out of range, no arithmetic overflow, the transport is never polled with an empty "
                   "buffer (no false end-of-stream), a frame is handed to the transport completely and in order before the next payload is "
                   "sealed (wire_out ++ pending == old wire_out ++ old pending), every frame is LE16(n) ++ seal(payload) with n = |payload|+16 "
                   "and total length <= 65537, the length prefix is never truncated, and a successful flush/shutdown leaves nothing buffered: "
                   "wire_out == old wire_out ++ old pending frame ++ frame_of(buffered plaintext). Reader side (ghost wire_in = the bytes the "
                   "transport has still to deliver): poll_read_frame conserves frame buffer ++ wire_in (bytes only move from the transport to "
                   "the end of the frame buffer, in order); poll_read_payload never overwrites undelivered plaintext and otherwise consumes "
                   "nothing (end of stream / error / pending) or EXACTLY ONE frame LE16(n) ++ n bytes from the front of the undecoded input, "
                   "leaving opened(frame body) as the buffered plaintext; poll_read appends the first min(remaining, |p|) bytes of that "
                   "plaintext to the caller's buffer and keeps the rest. lemma_frame_roundtrip: if the undecoded input starts with the frame "
                   "the writer built for p (paired cipher states), the reader consumes exactly that frame, hands out p and leaves the "
                   "following input untouched. lemma_stream_roundtrip (induction over that step): ANY k successive reader steps on the wire "
                   "image of payloads p_0..p_m hand out p_0..p_{k-1} in order, nothing lost, duplicated or altered, and leave exactly the wire "
                   "image of the remaining payloads.",
        level_note="Trusted: snow (AEAD: tamper/replay => error is snow's property; write_message/read_message length contract), tokio "
                   "AsyncRead/AsyncWrite poll contracts, pin-projection (Pin::new on Unpin is the identity; self.project() is modelled by a "
                   "struct of &mut fields), std slice operations behind 7 one-line R-std wrappers whose bodies are the replaced std "
                   "expressions; A3 axioms seal_props (ciphertext = plaintext + 16 bytes; a paired reader state opens a sealed payload to "
                   "that payload) and A1 le16_props (to_le_bytes injective). Not decided: the evolution of the cipher state between frames "
                   "(the stream lemma assumes reader state i paired with writer state i), AEAD integrity (tampering => error).",
        technique="contract-based deductive verification (Verus on extracted real functions; ghost wire sequence on the transport stub)",
        design_ref="DESIGN.md §5 C13",
        assumptions=[],
    ),
    "C01": dict(
        units=["replica", "implied", "blockstore", "leader"],
        count_all=True,      # every obligation of these units is a premise of the agreement argument
        level="other",
        explanation="PREMISES ONLY. What is machine-checked (Verus, on the real handler text, for all inputs): every per-replica rule the "
                    "agreement argument uses -- vote at most once per view and only in phase Prepare (on_proposal), vote only for the block the "
                    "verified justification implies (vote_for/is_implied), no commit vote after a timeout vote of the same view (start_timeout "
                    "sets phase Timeout; start_new_view requires a strictly higher view), a block is built and queued only on a valid commit "
                    "certificate (save_block precondition; on_commit/on_timeout prove, through the vote-cache invariants commit_inv/timeout_inv, that the "
                    "certificate they consume is valid: weight >= quorum, distinct signers, every vote individually checked), certificates adopted only if strictly "
                    "newer, nothing signed leaves before the state recording it is durable, restart restores that state; plus the composition "
                    "lemmas: two quorums share a correct validator for every faulty set of weight <= f (lemma_two_quorums_share_correct), the "
                    "one-step sub-quorum lemma (lemma_subquorum), threshold arithmetic (C07), the store never replaces an accepted number (C08). "
                    "What is NOT machine-checked: hypothesis H-ind, the induction over all multi-view histories that chains these facts into "
                    "'no two correct nodes commit different payloads for one number'. It is printed as an assumption on every run.",
        level_text="other: machine-checked premises + composition lemmas of the agreement argument; the global history induction (H-ind) is a "
                   "stated, unverified hypothesis. A contract can say what one call does; agreement is a whole-history property, so this is the "
                   "honest level for this technique.",
        level_note="Schedule::new (unit leader) establishes the invariant all threshold rules rely on (total_weight = sum of ALL validators' weights). H-ind (history induction) unverified; A3 aggregation axioms (an aggregate built by adding individually valid signatures of "
                   "distinct members verifies over exactly those members: built_*/tbuilt_*); BLS, keccak, std containers (nested BTreeMaps as finite maps), "
                   "EngineInterface durability trusted; A7 (certified numbers/views < 2^64-1).",
        technique="contract-based deductive verification of the premises (Verus) + ghost composition lemmas; global induction not mechanised",
        design_ref="DESIGN.md §5 C01",
        assumptions=["H-ind: multi-view history induction NOT mechanised"],
    ),
    "C03": dict(
        units=["replica", "conv", "blockstore"],
        kani=["phase"],
        level="proof",
        level_text="Deductive proof (Verus) over the real text of on_proposal, on_new_view, on_commit, on_timeout, start_new_view, start_timeout, "
                   "process_commit_qc, process_timeout_qc, get_justification, backup_state, save_block, StateMachine::start. Vote-once: "
                   "on_proposal returns Ok only if the message view is above the current view or equal with phase Prepare, then view := msg "
                   "view, phase := Commit, high_vote := the vote, and exactly that one commit vote is emitted; a rejected proposal changes "
                   "nothing and emits nothing. start_timeout sets phase Timeout (so no commit vote can follow in that view); the view only "
                   "moves forward (start_new_view requires view > current; on_* ensure final view >= old). Persist-before-send: a ghost field "
                   "records the snapshot (view, phase, high vote, high certificates) at every successful backup_state; an assertion before "
                   "EVERY outbound send requires it to equal the current snapshot, and backup_state is proved to hand exactly that snapshot "
                   "to set_state. Restart: StateMachine::start restores exactly the stored snapshot (incl. phase) when the epoch matches; the stored state's "
                   "conversion to and from its protobuf message (ReplicaState, ChonkyV2State, Phase; unit conv) is lossless, so what was persisted "
                   "is what is restored; backup_state returns Ok only after the write succeeded (ghost flag at every Ok), and EngineManager::set_state / "
                   "get_state (unit blockstore) pass the state to / from the execution layer unchanged and report Ok only if it accepted exactly "
                   "that state. Thorough tier: Kani round-trip harnesses for Phase / View / ReplicaCommit on the real crate.",
        level_note="Not decided: durability/atomicity of EngineInterface::set_state itself (A5) and a crash INSIDE it; the wire encoding of the "
                   "stored state (C09). One task per replica (A4). The proposal-cache statements are abstracted (not voting state); the vote caches are verified (invariants commit_inv/timeout_inv).",
        technique="contract-based deductive verification (Verus on extracted real handlers; ghost persist-before-send monitor at every send site)",
        design_ref="DESIGN.md §5 C03",
        assumptions=[],
    ),
    "C05": dict(
        units=["replica", "leader"],
        level="proof",
        level_text="Deductive proof (Verus) over the real handler text: (monotone) view number, highest commit certificate view and highest "
                   "timeout certificate view never decrease in any handler, on success or error; certificates are adopted iff strictly newer "
                   "by VIEW, the commit certificate carried in a timeout certificate is processed unconditionally; (justified) "
                   "start_new_view requires a strictly higher view and a valid held certificate for the preceding view or later, and its three "
                   "call sites discharge that; on_commit/on_timeout change the view only to msg.view+1 after the certificate formed; "
                   "(self-justifying) get_justification returns the higher certificate, commit on a tie, and it is valid in isolation "
                   "(invariant certs_valid); new-view / timeout messages emitted equal new_view_msg()/timeout_msg() of the final state; "
                   "(spec conformance) Ok <=> accept predicates transcribed from spec/informal-spec/replica.rs for on_new_view (iff up to "
                   "internal errors) and => for on_proposal/on_commit/on_timeout; proposer attaches a payload iff no re-proposal is forced.",
        level_note="The duplicate-signer rule and QC assembly in on_commit/on_timeout are verified through cache templates (nested BTreeMap entry/retain/"
                   "remove as finite-map operations, A1) and the invariants commit_inv/timeout_inv; the consumed certificate is proved valid using the A3 "
                   "aggregation axioms. on_proposal/on_new_view additionally ensure that the justification's certificates are recorded (justification_recorded). "
                   "Timer handling and metrics are dropped. Accept predicates are ~40 lines of spec fn reviewed against the informal spec.",
        technique="contract-based deductive verification (Verus on extracted real handlers against spec functions written from the informal spec)",
        design_ref="DESIGN.md §5 C05",
        assumptions=[],
    ),
    "C14": dict(
        units=["mux"],
        kani=["mux_header"],
        level="proof",
        level_text="Deductive proof (Verus) over the real text of mux/header.rs (all functions), Mux::process_inbound_frames, "
                   "ReadStream::read_exact, WriteStream::write_all, WriteReusableStream::send_data, ReadReusableStream::recv_open, "
                   "Config::verify: the 16-bit header codec is a bijection on valid (frame kind, stream kind, id) triples (bit-vector lemmas) "
                   "and frame_kind() has FOUR values all of which the dispatcher handles; an inbound frame is delivered to exactly the "
                   "stream its header names on the side opposite to the sender's, or the run ends with a protocol error if the id is out of "
                   "range; every delivered frame owns 1 frame-count permit and a DATA frame owns as many buffer-size permits as it has bytes, and a receive "
                   "buffer is allocated (and filled from the transport) only for bytes whose size permits are already held (ghost count), "
                   "acquired before its buffer is allocated; DATA is split into pieces of min(remaining, read_frame_size) that exhaust the "
                   "announced length (no underflow); read_exact only appends, in order, exactly the bytes it removes from the frames and never "
                   "panics given what the dispatcher can deliver; a new transient stream starts from a clean state (no cached bytes, CLOSE "
                   "flag reset), and it hands out exactly the front of the stream's pending bytes (cached frame ++ what the FIFO channel still "
                   "holds before the next CLOSE) and leaves the rest pending -- no loss, duplication or reordering on the read path; write_all/send_data emit DATA frames of at most write_frame_size <= 65535 bytes, so the length prefix is exact, and "
                   "(ghost sequence of bytes handed to the writer task) a successful write_all appends every byte of its argument, in order, "
                   "to what was already sent or is still buffered; "
                   "Mux::verify accepts only configurations asking for at most 2^13 streams per direction, and spawn_streams -- whatever stream "
                   "counts the PEER announces in its handshake -- allocates ids that fit the 13-bit field (StreamId::new's assert!, the `as u16`) and creates per capability exactly "
                   "min(own limit, limit the peer announced, 0 if it announced none) reusable streams. The handshake itself: Mux::handshake announces for each "
                   "direction exactly this side's configured per-capability limits of THAT direction; mux::handshake::read_max_streams / Handshake::read "
                   "accept a peer's announcement iff every entry is complete and no capability is announced twice, take it over entry by entry, and do not "
                   "mix up the two directions (prost types generated from mux.proto).",
        level_note="Not decided: ReusableStream::run (three-way OPEN, lock hand-over between transient streams, CLOSE on drop) -- concurrent tasks "
                   "per stream id -- and therefore the count of simultaneously open transient streams; the "
                   "writer task's `as u16` (covered only through Config::verify's bound). read_frame_size > 0 is a precondition on the local "
                   "configuration. Channels/semaphores are opaque handles with documented behaviour (A4).",
        technique="contract-based deductive verification (Verus on extracted real functions; bit-vector lemmas; ghost permit accounting on the channel stub)",
        design_ref="DESIGN.md §5 C14",
        assumptions=[],
    ),
    "C16": dict(
        units=["replica", "prune", "leader"],
        level="proof",
        level_text="Channel half and vote-cache half, unbounded. Deductive proof (Verus) over the real text of bft::inbound_selection_function, "
                   "inbound_filter_predicate, ConsensusMsg/ChonkyMsg::view_number (unit replica) and of prunable_mpsc::Sender::send with its "
                   "two closures lifted mechanically (unit prune; the retain closure's captured flag becomes an explicit &mut parameter): "
                   "messages of different senders or kinds never displace each other; of two messages of one sender and kind exactly the one "
                   "with the higher view survives, a tie keeps the pending one; the queue after a send is the survivors in arrival order "
                   "followed by the new message unless a pending one dominates it; lemma_prune_step: with a selection function satisfying "
                   "the proved contract, a queue holding at most one message per (sender, kind) still does after any send, a message is "
                   "dropped only if a same-class message with a higher (new dropped: equal or higher) view is present, order is preserved; a "
                   "message is filtered only if its signature is invalid. For queues of any length. Vote caches (unit replica, real text of on_commit/"
                   "on_timeout): invariants commit_inv/timeout_inv hold initially (StateMachine::start) and are preserved by every handler: a validator "
                   "is counted in a cached certificate of view v only if its recorded latest view is >= v, a message whose view is not above the "
                   "sender's recorded view is rejected (DuplicateSigner), so each validator's weight counts once per view; certificates are cached "
                   "only for views that are the recorded latest view of some validator, so at most |committee| views are cached however many "
                   "future-view messages arrive.",
        level_note="NOT decided: interleavings of concurrent "
                   "senders (send_modify runs the closure under the watch lock, A4), Receiver::recv (pops the front; inspected). "
                   "VecDeque::retain's documented semantics is a template (A1). ConsensusMsg::label() is taken to identify the message kind.",
        technique="contract-based deductive verification (Verus on extracted real functions and mechanically lifted closures + inductive lemma)",
        design_ref="DESIGN.md §5 C16",
        assumptions=[],
    ),
    "C18": dict(
        units=["addrs", "handlers"],
        kani=["is_newer"],
        kani_quick=True,
        level="proof",
        level_text="Deductive proof (Verus) over the real text of ValidatorAddrs::update and ValidatorAddrsWatch::update: after the call (also "
                   "when the batch is rejected half-way) every entry is the one held before or an announcement from the batch that is by a "
                   "committee member, passed the signature check and is strictly newer in (version, timestamp) than what it replaced; "
                   "non-members are ignored; an accepted batch has pairwise distinct keys and is applied completely, the flag tells whether "
                   "anything changed; the published book is replaced only by the result of a completely applied accepted batch (a rejected "
                   "batch is never published); ValidatorAddrsWatch::announce publishes the old book with exactly one entry changed: the node's own "
                   "announcement, validly signed by its key and strictly newer than the entry it replaces. Thorough tier: Kani (loop-free, complete) proves NetAddress::is_newer on the real crate is the "
                   "strict lexicographic order on (version, timestamp) over all 64-bit versions; lemma_arrival_order: with that order total, "
                   "two announcements with different (version, timestamp) commute under the keep-the-newer rule that update() applies per key -- "
                   "arrival-order independence.",
        level_note="Trusted: signature check predicate, im::HashMap/HashSet as finite map/set, the Watch mutex serialises writers (A4). "
                   "is_newer's contract is assumed in the Verus unit and discharged by the Kani harness. announce() assumes the node's own version counter is below 2^64-1 (A7-like; it starts at 0 "
                   "and only this function increments it).",
        technique="contract-based deductive verification (Verus, loop invariant over the batch) + Kani complete harness for the order",
        design_ref="DESIGN.md §5 C18",
        assumptions=[],
    ),
    "C12": dict(
        units=["admission"],
        level="proof",
        level_text="Deductive proof (Verus) over the real text of the four handshake functions (gossip/consensus x inbound/outbound) and of the two "
                   "pool closures (PoolWatch::insert / remove, lifted mechanically): a handshake returns identity K only if a handshake message "
                   "was received ON THIS STREAM whose signed session id equals the id of this very noise session, whose genesis equals ours, "
                   "whose key is K (and, outbound, K is the dialled peer) and whose signature verifies -- and the handshake we send signs this "
                   "stream's id; pool: an identity is admitted iff it has no entry yet and is configured or the quota of non-configured peers "
                   "is not exhausted; the invariant extra_count == |connected \\ configured| <= quota is preserved by insert and remove (no "
                   "underflow); a refused insert changes nothing. Call sites (gossip::Network::run_inbound_stream / run_outbound_stream, "
                   "consensus::Network::run_inbound_stream / run_outbound_stream, real text with the RPC service loop as one abstracted "
                   "statement): a key is registered in a pool only after the handshake ON THE SAME STREAM authenticated it for our genesis "
                   "(precondition of insert), and remove() is reached only by the task whose insert() succeeded, for the same key (ghost flag). "
                   "Construction: PoolWatch::new starts from an empty, well-formed pool with exactly the given configured set and quota; "
                   "gossip::Network::new gives the inbound pool exactly static_inbound with quota dynamic_inbound_limit and the outbound pool "
                   "exactly the dialled peers with quota 0; consensus::Network::new gives both pools exactly the committee of the epoch with "
                   "quota 0 ('the validator network admits only members of the current committee').",
        level_note="Trusted: the noise handshake hash identifies the session and cannot be chosen by a peer (snow), signature predicates, "
                   "framing (send_proto/recv_proto stubs), im::HashMap/HashSet as finite map/set. Not decided: interleavings of concurrent "
                   "inserts (serialised by the Watch mutex, A4), the RPC service loop, preface::connect, DNS resolution, the signature schemes "
                   "themselves (ed25519 verify_strict, BLS: A3).",
        technique="contract-based deductive verification (Verus on extracted real functions and mechanically lifted closures)",
        design_ref="DESIGN.md §5 C12",
        assumptions=[],
    ),
    "C15": dict(
        units=["limiter", "streams"],
        level="proof",
        level_text="Limiter state machine. Deductive proof (Verus) over the real text of State::advance, duration_or_max, usize_or_max, "
                   "Limiter::acquire, Permit::drop and of the two closures that write the limiter state (lifted mechanically): the invariant "
                   "reserved <= permits <= burst is preserved by every state write; advance never moves the limiter clock backwards and adds "
                   "exactly one permit per elapsed tick, saturating at the burst, without overflow for any clock value; the tick `need` that "
                   "acquire computes before sleeping makes the reservation grantable (can_grant), every Permit::drop in between preserves "
                   "that, and the final critical section re-establishes the invariant; drop never underflows; acquire writes the state exactly "
                   "once, after its last cancellation point (assertion at every `?`: a cancelled wait has written nothing); the returned "
                   "permit carries 0 permits iff the refresh rate is infinite. Window bound: each of the three state writes is proved to be a "
                   "`step` (the potential free-permits minus limiter-clock drops by at least the permits it grants; only acquire's commit "
                   "grants), and lemma_window proves by induction over ANY sequence of steps that the permits granted are <= free permits at "
                   "the start + ticks the clock advanced <= burst + ticks elapsed, i.e. b + T/r (+1 for partial periods at the window's ends).",
        level_text_extra="RPC composition (unit streams): the per-stream task ReusableStream::run (its scope body lifted mechanically) sends an "
                   "OPEN frame / hands a stream to a requester on EVERY path only after its own acquire(1) on this stream queue's limiter in "
                   "the same iteration (ghost count of paid-for opens, client and server side alike); mux::StreamQueue::new builds the limiter "
                   "with exactly the rate it is given, rpc::Client::new and rpc::Service::add_server build their queue with exactly the "
                   "configured rate and R::INFLIGHT as stream limit and register that very queue under the RPC's capability; the per-request task of "
                   "rpc::Server::serve (lifted mechanically) serves exactly ONE request per reserved stream (ghost budget consumed by Handler::handle) and "
                   "receives it under exactly the handler's own max_req_size().",
        level_note="Not decided: the relation between the limiter clock (ticks = floor((now - start) / refresh), or the tick an acquire "
                   "slept until) and wall-clock time is read off the code, not proved; arrival-order service (tokio's fair mutex), and the per-connection RPC consequence (composition through the mux, "
                   "concurrent). Rely condition: between the wait and the final section only Permit::drop runs (acquires are serialised by "
                   "the acquire mutex, A4). A6: the i128 tick counter stays below 2^126. time::Duration::new / tokio watch as documented.",
        technique="contract-based deductive verification (Verus on extracted real functions and lifted closures; rely predicate can_grant)",
        design_ref="DESIGN.md §5 C15",
        assumptions=[],
    ),
    "C10": dict(
        units=["mux", "noise", "qc", "replica", "conv", "leader", "canonical", "handlers", "streams"],
        kani=["std_conv"],
        kani_quick=True,
        level="proof",
        level_text="For an EXPLICIT LIST of entry points, panic-freedom for every input as Verus obligations on the real text (arithmetic "
                   "overflow, division, index / slice range, unwrap / expect, unreachable!, assert!/debug_assert! as proof obligations), with no "
                   "precondition beyond the type invariant: mux::process_inbound_frames + header.rs (all 2^16 headers, all lengths), "
                   "ReadStream::read_exact (given what the dispatcher delivers), frame::mux_recv_proto / recv_proto (size checked against the limit before any "
                   "allocation; prost decode itself external), noise Stream::handshake, poll_read_frame, poll_read_payload, "
                   "poll_read and the write path, bytes::Buffer; CommitQC/TimeoutQC/ReplicaTimeout/LeaderProposal/ReplicaNewView/FinalBlock "
                   "verify + add (incl. the assert_eq! in Signers::weight), get_implied_block/high_vote/high_qc under verify()'s postcondition; "
                   "ViewNumber::next, View::next_view, ProposalJustification::view, ChonkyMsg/ConsensusMsg::view_number, Schedule::view_leader / "
                   "leader_weighted_eligibility (called with a message's view before its justification is verified: total for every view, frequency and weight), the selection function "
                   "and the four replica handlers before and after verification. Allocation in process_inbound_frames happens only after "
                   "the size permits are held; GenesisRaw::read / build: what decodes has the protocol version build() handles, so Genesis::read "
                   "(which re-encodes to compute the hash) never reaches unreachable!(); canonical_raw / read_fields total for every byte string (F8). Kani (complete, loop-free) on the real protobuf crate: "
                   "Duration/Timestamp decoding is total, every decodable Duration is re-encoded without overflow (F7), Duration and SocketAddr round-trip.",
        level_note="Not covered, and said so: prost decoding, quick_protobuf's primitives, snow and tokio internals, the RPC service loop, "
                   "preface, Utc's Display/Debug "
                   "(panic for out-of-range timestamps; only the optional debug page formats stored announcements). 'Never buffers more than its limits' is the permit accounting of C14 only.",
        technique="contract-based deductive verification (Verus panic-freedom obligations on extracted real functions) + Kani complete harnesses on real leaf decoders",
        design_ref="DESIGN.md §5 C10",
        assumptions=[],
    ),
    "C09": dict(
        units=["conv", "canonical"],
        kani=["std_conv", "phase"],
        kani_quick=True,
        level="proof",
        level_text="CONVERSION LAYER (value <-> prost message; sentence 1) AND CANONICAL RE-ENCODING (sentences 2-3, unit canonical: the real text of "
                   "proto_fmt.rs Wire::{from_tag,raw,from}, Reader::{new,read,read_field}, read_fields, canonical_raw: for EVERY byte string and descriptor "
                   "canonical_raw terminates without panic and, when it accepts, returns canon(desc, buf) - a total spec FUNCTION of the parsed field map: "
                   "fields in ascending number order, an empty repeated field omitted, several scalars as ONE packed TLV, one scalar under its own wire "
                   "type, strings / bytes / sub-messages one TLV per value, sub-messages canonicalised recursively; read_fields accepts only known, "
                   "non-map fields with the declared or the packed wire type. Being a function of the field map, the result does not depend on the order "
                   "in which different fields appeared or on packing). Verus, unit conv: the prost "
                   "message types are generated mechanically from /repo's .proto files on every run; the trait ProtoFmt carries the round-trip "
                   "contract (build ensures p == enc(self); read ensures forall x. enc(x) == *r ==> result == Ok(x)) and every `impl ProtoFmt` "
                   "block copied from /repo must satisfy it, so read(build(x)) == Ok(x) for EVERY value, and build is a function of the value: "
                   "GenesisHash, PayloadHash, MsgHash, View, BlockHeader, ReplicaCommit, Phase, Signers, CommitQC, ReplicaTimeout, TimeoutQC "
                   "(BTreeMap <-> two parallel repeated fields in key order, loop invariant over the zip), ProposalJustification, LeaderProposal "
                   "(incl. empty-but-present payloads), ReplicaNewView, ChonkyMsg, ConsensusMsg, FinalBlock, PreGenesisBlock, Block, Proposal, "
                   "ChonkyV2State, ReplicaState (the stored state), ValidatorInfo, LeaderSelection(Mode), NetAddress, Msg, Signed<V> with the three "
                   "Variant impls, bit_vec::BitVec (against the documented to_bytes/from_bytes/truncate semantics; lengths that are not multiples "
                   "of 8 included), roles::node Msg / Signed<V>, the preface Encryption / Endpoint messages, the consensus and gossip handshakes (the "
                   "build version through its string form), the RPC requests and responses of consensus, get_block, ping, push_validator_addrs "
                   "(a batch of Arc<Signed<NetAddress>>, loop invariant over the batch), push_block_store_state and push_tx (through the reverse "
                   "trait ProtoRepr, which carries the same contract; BlockStoreState / Last / Transaction), and the generic helpers required / read_required / read_optional. Kani (complete harnesses on the real "
                   "crates, concrete counterexamples): Duration (EVERY decodable value, after fix F7), SocketAddr (all addresses and ports), Phase, "
                   "View, ReplicaCommit round-trip; Duration/Timestamp decoding total.",
        level_note="OPEN KNOWN FINDING F9 (printed as KNOWN-FINDING on every run, see known_findings.json): SocketAddr::V6 with a non-zero flowinfo / scope id does not "
                   "round-trip (complete Kani harness socket_addr_v6_scope_roundtrip, concrete counterexample; the harness over the addresses SocketAddr::new can build passes). "
                   "Completeness of canonical_raw (that every valid serialisation IS normalised rather than refused) is not specified: its contract is about Ok results. "
                   "NOT decided: prost's own encoder / decoder and the build-time schema check; quick_protobuf's reader / writer primitives are "
                   "assumed as documented (a successful read consumes input, a length-delimited value is shorter than what was consumed, writes to a "
                   "Vec cannot fail; varint / fixed encodings are uninterpreted); the parse result of read_fields is NAMED (spec_fields / spec_keys), "
                   "not re-specified byte by byte, so 'hashes computed by different nodes agree' is decided up to the assumed primitives. Assumed leaves (A3/A2): ByteFmt of keccak digests, "
                   "ProtoFmt of PublicKey/Signature/AggregateSignature (blst), of bit_vec::BitVec (from_bytes/to_bytes/truncate), of SocketAddr and "
                   "Utc inside the Verus unit (SocketAddr is decided by Kani). Schedule / GenesisRaw decode through Schedule::new (validation + "
                   "sort) and are not under the full round-trip contract (it holds only for values satisfying the type's invariant); for them a "
                   "content-preservation contract is proved instead: build encodes every validator in order, the leader selection and every "
                   "genesis field; read hands exactly the decoded validators (as a multiset: new() sorts) and leader selection to Schedule::new "
                   "and returns field by field what the message carries; semver parse/print is assumed. `enc` (one spec function per type) is the wire schema mapping: a deliberate "
                   "format change has to change it. Vec equality is content equality; BTreeMap iterates in strictly increasing key order (A1).",
        technique="contract-based deductive verification (Verus: round-trip contract on the ProtoFmt trait, real impl blocks, proto types generated from .proto) + Kani complete harnesses on the real leaf conversions",
        design_ref="DESIGN.md §5 C09",
        assumptions=[],
    ),
    "C19": dict(
        units=["fetch", "blockstore", "handlers"],
        level="proof",
        level_text="SEQUENTIAL FRAGMENTS of the fetch queue (every clause as far as one task's code decides it). Deductive proof (Verus) over the real "
                   "text of gossip::fetch::Queue::{request, accept_block}, of the three closures that run under the queue's watch lock (lifted "
                   "mechanically), of the two async blocks inside accept_block's scope and of the get_block loop and per-call task of "
                   "gossip::Network::run_stream (lifted mechanically as async fns). Decided for every queue content, block number and peer "
                   "announcement: request() returns Ok only after completion was signalled on a channel it registered under the requested "
                   "number and Err only when the caller's context was cancelled - after a dropped channel (peer failed / timed out / "
                   "disconnected) it can do neither, and awaiting is possible only on a freshly registered channel, so the request is back in "
                   "the queue; the insert closure adds exactly that entry, the cancel closure removes only it; accept_block returns (n, sender) only if "
                   "n was the LOWEST key of a queue content it observed, THIS peer's announcement channel held a state containing n "
                   "(BlockStoreState::contains, under contract in unit blockstore), and the entry was removed from the shared queue by this very "
                   "call in the critical section that read it (one holder at a time); acceptors are woken whenever the lowest requested block "
                   "changes; the per-call task signals completion only after a block with the REQUESTED number was accepted by queue_block, and "
                   "performs the RPC under the configured get_block timeout (so a peer that never answers is timed out and the request returns to the queue). "
                   "Unit handlers: the state a connection starts from claims no block on the peer's behalf (PushServer::new), and the push_block_store_state "
                   "handler leaves exactly the announced state in the connection's channel after every accepted announcement (also one that only raises `first`); "
                   "the get_block handler answers a request for n with block n or nothing; EngineManager::wait_until_queued (unit blockstore) - the signal on which "
                   "run_block_fetcher stops asking for a block - returns only once that block has been queued for storage.",
        level_note="Not decided (A4): interleavings between requester, acceptors and per-call tasks (the spawned wait task is verified as a "
                   "function and composed in line, R-spawn), oneshot drop semantics (a dropped sender wakes the requester with Disconnected), "
                   "the fetcher task run_block_fetcher (one request per missing number, cancelled once queued). watch::send_if_modified runs "
                   "its closure atomically; BTreeMap::first_key_value is the least key (A1). The facts registered/completed/taken/observed/announced/"
                   "queued_for_storage are uninterpreted and produced only by the stubs named after them.",
        technique="contract-based deductive verification (Verus on extracted real functions, lifted closures and lifted async blocks; ghost history predicates)",
        design_ref="DESIGN.md §4 C19",
        assumptions=[],
    ),
    "C17": dict(
        units=["scope"],
        level="proof",
        level_text="SEQUENTIAL FRAGMENTS of the task scope (what each piece of code does when it runs; not the join across tasks). Deductive "
                   "proof (Verus) over the real text of scope::state::{TerminateGuard::set_err, State::take_err, State::terminated, the two Drop "
                   "impls, the getters}, scope::task::{Task::run, Task::run_blocking, PanicReporter::new/defuse/drop} and the part of "
                   "Scope::run / Scope::run_blocking after the root task is spawned. Decided for every error type and every order of reports: "
                   "set_err keeps the failure the statement prescribes (the FIRST error among errors, a panic overrides an error, nothing "
                   "overrides a panic), never leaves the record empty, and leaves the scope's context cancelled (invariant: a recorded failure "
                   "implies a cancelled context); dropping the last main-task guard cancels the context, dropping the last guard sends the "
                   "terminate signal; a task wrapper hands a successful result through unchanged, reports a failed routine's error to ITS scope "
                   "before returning Err, and runs the routine only while the panic reporter is armed (an armed reporter that is dropped reports "
                   "a panic); Scope::run / run_blocking read the recorded failure only AFTER the terminate signal was received (precondition of "
                   "take_err, from the debug_assert), return the root task's result iff nothing was recorded, the recorded error otherwise, "
                   "and re-raise only a recorded panic; Scope::{spawn, spawn_bg, spawn_blocking, spawn_bg_blocking, main_task, bg_task}: a main task "
                   "holds the cancel guard (the context stays active while it runs) unless all main tasks are gone, a background task never does.",
        level_note="Not decided (A4): that the terminate signal implies every task has finished (each task owns a guard through an Arc; "
                   "reference counts and drop order are not modelled), unwinding itself (a panic inside a routine is represented only by the "
                   "armed reporter's Drop), the Weak upgrade in main_task/bg_task, propagation of cancellation to child contexts (ctx/mod.rs) "
                   "and deadlines. The Mutex content and the context's cancellation flag are made explicit parameters of set_err (R-lock); the "
                   "spawn of the root task (Arc/Weak bookkeeping, unsafe spawn) is one abstracted region; one admitted composition axiom "
                   "(nothing recorded after termination => the root task returned Ok) connects Task::run's and set_err's postconditions across tasks.",
        technique="contract-based deductive verification (Verus on extracted real functions; lock content and cancellation flag made explicit; ghost history predicates)",
        design_ref="DESIGN.md §4 C17",
        assumptions=[],
    ),
}

NOT_APPLICABLE = {
    "C06": "liveness under a fairness assumption over whole histories; no per-call contract expresses 'eventually commits'",
}

NOTES = "see DESIGN.md (status table in section 0). All 19 properties are either claimed (18) or listed as not applicable with the reason (C06: liveness). Exit codes of every check: 0 held, 1 violation (VIOLATION line), 2 undecided / tool limit (never an alarm)."
HOOK_COMMITS = []

