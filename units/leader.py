"""U-leader (C11): Schedule::view_leader / LeaderSelection::leader_weighted_eligibility."""
from vx.unit import Unit
from units import common

F = "node/libs/roles/src/validator/messages/schedule.rs"
FC = "node/libs/roles/src/validator/messages/consensus.rs"

PRELUDE = r"""
// ---------------- prelude: abstract third-party types (assumed contracts) ----------------
#[verifier::external_body]
pub struct PublicKey { _p: u8 }                         // A3: BLS public key, opaque
impl Clone for PublicKey {
    #[verifier::external_body]
    fn clone(&self) -> (r: Self) ensures r == *self { unimplemented!() }      // A1: Clone returns an equal value
}
#[verifier::external_body]
pub struct KeyIndex { _p: u8 }                          // R-type: BTreeMap<PublicKey, usize> (not used by view_leader)

#[verifier::external_body]
pub struct Keccak256 { _p: u8 }                         // A3: keccak256 digest
pub uninterp spec fn keccak(msg: Seq<u8>) -> Seq<u8>;   // A3: keccak is *a function* (determinism only)
impl Keccak256 {
    pub uninterp spec fn bytes(&self) -> Seq<u8>;
    #[verifier::external_body]
    pub fn new(msg: &[u8]) -> (r: Self) ensures r.bytes() == keccak(msg@) { unimplemented!() }     // A3
    #[verifier::external_body]
    pub fn as_bytes(&self) -> (r: &[u8; 32]) ensures r@ == self.bytes() { unimplemented!() }       // A3
}

#[verifier::external_body]
pub struct BigUint { _p: u8 }                           // A2: num_bigint::BigUint, view = nat
pub uninterp spec fn be_val(s: Seq<u8>) -> nat;         // big-endian value of a byte string
pub uninterp spec fn big_of(n: nat) -> BigUint;
pub broadcast axiom fn big_of_val(n: nat) ensures #[trigger] big_of(n).val() == n;   // A2
impl BigUint {
    pub uninterp spec fn val(&self) -> nat;
    #[verifier::external_body]
    pub fn from_bytes_be(bytes: &[u8]) -> (r: BigUint) ensures r.val() == be_val(bytes@) { unimplemented!() }   // A2
    // A2: to_u64_digits = minimal little-endian base-2^64 digits, EMPTY for zero (num-bigint documentation)
    #[verifier::external_body]
    pub fn to_u64_digits(&self) -> (r: Vec<u64>)
        ensures self.val() == 0 ==> r@.len() == 0,
                0 < self.val() <= u64::MAX ==> r@.len() == 1 && r@[0] as nat == self.val(),
    { unimplemented!() }
}
impl core::ops::Rem for BigUint {
    type Output = BigUint;
    #[verifier::external_body]
    fn rem(self, o: BigUint) -> (r: BigUint) { unimplemented!() }
}
impl RemSpecImpl for BigUint {                           // A2: `%` panics on a zero divisor, else mathematical remainder
    open spec fn obeys_rem_spec() -> bool { true }
    open spec fn rem_req(self, o: BigUint) -> bool { o.val() > 0 }
    open spec fn rem_spec(self, o: BigUint) -> BigUint { big_of((self.val() % o.val()) as nat) }
}
impl From<u64> for BigUint {
    #[verifier::external_body]
    fn from(x: u64) -> (r: BigUint) { unimplemented!() }
}
impl FromSpecImpl<u64> for BigUint {                     // A2
    open spec fn obeys_from_spec() -> bool { true }
    open spec fn from_spec(x: u64) -> BigUint { big_of(x as nat) }
}
pub uninterp spec fn be_bytes_u64(x: u64) -> Seq<u8>;
#[verifier::external_body]
pub fn u64_to_be_bytes(x: u64) -> (r: [u8; 8]) ensures r@ == be_bytes_u64(x) { x.to_be_bytes() }   // A1 (R-std wrapper)
"""

SPEC = r"""
// ---------------- specification, written from the property statement (C11) ----------------
pub open spec fn prefix(vec: Seq<ValidatorInfo>, leaders: Seq<usize>, k: int) -> int
    decreases k
{
    if k <= 0 { 0 } else { prefix(vec, leaders, k - 1) + vec[leaders[k - 1] as int].weight }
}
pub open spec fn total(vec: Seq<ValidatorInfo>, k: int) -> int
    decreases k
{
    if k <= 0 { 0 } else { total(vec, k - 1) + vec[k - 1].weight }
}
impl Schedule {
    // type invariant established by Schedule::new (see unit `schedule`)
    pub open spec fn wf(&self) -> bool {
        &&& self.vec@.len() >= 1
        &&& self.leaders@.len() >= 1
        &&& forall|i: int| 0 <= i < self.leaders@.len() ==> (#[trigger] self.leaders@[i]) < self.vec@.len()
        &&& forall|i: int| 0 <= i < self.leaders@.len() ==> self.vec@[(#[trigger] self.leaders@[i]) as int].leader
        &&& forall|i: int, j: int| 0 <= i < j < self.leaders@.len() ==> self.leaders@[i] < self.leaders@[j]
        &&& forall|j: int| 0 <= j < self.vec@.len() && (#[trigger] self.vec@[j]).leader ==>
                exists|i: int| 0 <= i < self.leaders@.len() && self.leaders@[i] == j
        &&& forall|j: int| 0 <= j < self.vec@.len() ==> (#[trigger] self.vec@[j]).weight > 0
        &&& self.leader_weight == prefix(self.vec@, self.leaders@, self.leaders@.len() as int)
        &&& self.total_weight == total(self.vec@, self.vec@.len() as int)
        &&& self.total_weight >= 1
        &&& self.leader_weight >= 1
    }
    // "changing every `frequency` views (never rotating when the frequency is 0)"
    pub open spec fn spec_turn(&self, view: u64) -> u64 {
        if self.leader_selection.frequency == 0 { 0 } else { view / self.leader_selection.frequency }
    }
    // j-th eligible validator is the leader of `view`
    pub open spec fn is_leader_slot(&self, view: u64, j: int) -> bool {
        &&& 0 <= j < self.leaders@.len()
        &&& match self.leader_selection.mode {
                LeaderSelectionMode::RoundRobin => j == (self.spec_turn(view) as int) % (self.leaders@.len() as int),
                LeaderSelectionMode::Weighted => {
                    let e = spec_elig(self.spec_turn(view), self.leader_weight);
                    prefix(self.vec@, self.leaders@, j) <= e < prefix(self.vec@, self.leaders@, j + 1)
                }
            }
    }
}
pub open spec fn spec_elig(input: u64, w: u64) -> int {
    (be_val(keccak(be_bytes_u64(input))) % (w as nat)) as int
}
"""

THRESH_SPEC = r"""
pub open spec fn spec_f(n: nat) -> nat { if n >= 1 { ((n - 1) / 5) as nat } else { 0 } }
pub open spec fn spec_quorum(n: nat) -> int { n - spec_f(n) }
pub open spec fn spec_subquorum(n: nat) -> int { n - 3 * spec_f(n) }
"""
THRESH_CONTRACT = {
    "max_faulty_weight": "\n    requires total_weight >= 1,\n    ensures r as nat == spec_f(total_weight as nat),\n",
    "quorum_threshold": "\n    requires total_weight >= 1,\n    ensures r as int == spec_quorum(total_weight as nat),\n",
    "subquorum_threshold": "\n    requires total_weight >= 1,\n    ensures r as int == spec_subquorum(total_weight as nat),\n",
}

LEMMAS = r"""
// ---------------- corollaries of the contracts (C11) ----------------
pub proof fn lemma_prefix_mono(vec: Seq<ValidatorInfo>, leaders: Seq<usize>, a: int, b: int)
    requires 0 <= a <= b <= leaders.len(),
             forall|i: int| 0 <= i < leaders.len() ==> (#[trigger] leaders[i]) < vec.len(),
    ensures prefix(vec, leaders, a) <= prefix(vec, leaders, b),
    decreases b - a
{
    if a < b { lemma_prefix_mono(vec, leaders, a, b - 1); }
}
// exactly one validator: the slot is unique in both modes (weights are positive, so prefix is strictly increasing)
pub proof fn lemma_slot_unique(s: Schedule, view: u64, j1: int, j2: int)
    requires s.wf(), s.is_leader_slot(view, j1), s.is_leader_slot(view, j2),
    ensures j1 == j2,
{
    if j1 < j2 { lemma_prefix_mono(s.vec@, s.leaders@, j1 + 1, j2); }
    if j2 < j1 { lemma_prefix_mono(s.vec@, s.leaders@, j2 + 1, j1); }
}
// frequency 0: the leader slot does not depend on the view
pub proof fn lemma_freq0_never_rotates(s: Schedule, v1: u64, v2: u64, j: int)
    requires s.wf(), s.leader_selection.frequency == 0, s.is_leader_slot(v1, j),
    ensures s.is_leader_slot(v2, j),
{
}
// round-robin: same slot within a block of `frequency` views, next slot (cyclically) in the next block
pub proof fn lemma_round_robin_rotates(s: Schedule, v: u64, j: int)
    requires s.wf(), s.leader_selection.mode == LeaderSelectionMode::RoundRobin, s.leader_selection.frequency > 0,
             s.is_leader_slot(v, j), v as int + s.leader_selection.frequency as int <= u64::MAX,
    ensures s.is_leader_slot((v + s.leader_selection.frequency) as u64, if j + 1 == s.leaders@.len() { 0 } else { j + 1 }),
            forall|v2: u64| v2 / s.leader_selection.frequency == v / s.leader_selection.frequency ==> s.is_leader_slot(v2, j),
{
    let f = s.leader_selection.frequency as int;
    let n = s.leaders@.len() as int;
    vstd::arithmetic::div_mod::lemma_div_plus_one(v as int, f);
    let t = v as int / f;
    vstd::arithmetic::div_mod::lemma_div_pos_is_pos(v as int, f);
    lemma_succ_mod(t, n);
}
pub proof fn lemma_succ_mod(t: int, n: int)
    requires n > 0, t >= 0,
    ensures (t + 1) % n == if t % n + 1 == n { 0int } else { t % n + 1 },
{
    vstd::arithmetic::div_mod::lemma_fundamental_div_mod(t, n);
    vstd::arithmetic::div_mod::lemma_mod_bound(t, n);
    if t % n + 1 == n {
        assert(t + 1 == n * (t / n + 1)) by(nonlinear_arith) requires t == n * (t / n) + t % n, t % n + 1 == n;
        vstd::arithmetic::div_mod::lemma_mod_multiples_basic(t / n + 1, n);
        assert((n * (t / n + 1)) % n == 0) by { vstd::arithmetic::mul::lemma_mul_is_commutative(n, t / n + 1); }
    } else {
        assert(t + 1 == (t / n) * n + (t % n + 1)) by(nonlinear_arith) requires t == n * (t / n) + t % n;
        assert(t + 1 == n * (t / n) + (t % n + 1));
        vstd::arithmetic::div_mod::lemma_fundamental_div_mod_converse(t + 1, n, t / n, t % n + 1);
    }
}
// weighted: the number of residues e in [0, leader_weight) that select slot j is exactly that validator's weight
pub proof fn lemma_weighted_share(s: Schedule, j: int)
    requires s.wf(), 0 <= j < s.leaders@.len(),
    ensures prefix(s.vec@, s.leaders@, j + 1) - prefix(s.vec@, s.leaders@, j) == s.vec@[s.leaders@[j] as int].weight,
            0 <= prefix(s.vec@, s.leaders@, j),
            prefix(s.vec@, s.leaders@, j + 1) <= s.leader_weight,
{
    lemma_prefix_mono(s.vec@, s.leaders@, 0, j);
    lemma_prefix_mono(s.vec@, s.leaders@, j + 1, s.leaders@.len() as int);
}
"""


def build(repo):
    U = Unit("leader", ["C11"], desc="leader election",
             uses="use vstd::std_specs::ops::*;\nuse vstd::std_specs::convert::*;")
    U.repo = repo
    U.raw(common.STD_OPTION_COPIED + PRELUDE, label="prelude")
    U.item(FC, "struct ViewNumber", attrs="#[derive(Clone, Copy)]")
    U.item(F, "struct ValidatorInfo", subs=[("validator::PublicKey", "PublicKey")])
    U.item(F, "enum LeaderSelectionMode", attrs="#[derive(PartialEq, Eq, Structural)]")
    U.item(F, "struct LeaderSelection")
    U.item(F, "struct Schedule", subs=[("BTreeMap<validator::PublicKey, usize>", "KeyIndex")])
    U.raw(SPEC, label="spec")
    # small accessors (so that code using them still type-checks after a refactoring); contracts say what they return
    U.fn(F, "impl Schedule :: fn len", wrap="impl Schedule", ret="r", spec="    ensures r == self.vec@.len(),\n")
    U.fn(F, "impl Schedule :: fn total_weight", wrap="impl Schedule", ret="r", spec="    ensures r == self.total_weight,\n")
    U.fn(F, "impl Schedule :: fn leaders", wrap="impl Schedule", ret="r", spec="    ensures r@ == self.leaders@,\n")
    U.fn(F, "impl Schedule :: fn leader_selection", wrap="impl Schedule", ret="r", spec="    ensures *r == self.leader_selection,\n")
    # C07: the thresholds a Schedule reports are those of its TOTAL weight
    U.raw(THRESH_SPEC, label="threshold spec", props=["C07"])
    for f in ("max_faulty_weight", "quorum_threshold", "subquorum_threshold"):
        U.fn(F, "fn " + f, ret="r", props=["C07"], spec=THRESH_CONTRACT[f])
    for f in ("max_faulty_weight", "quorum_threshold", "subquorum_threshold"):
        U.fn(F, "impl Schedule :: fn " + f, wrap="impl Schedule", ret="r", props=["C07"],
             spec="    requires self.wf(),\n" + THRESH_CONTRACT[f].split("\n")[2].replace("total_weight", "self.total_weight") + "\n")
    U.fn(F, "impl Schedule :: fn get", wrap="impl Schedule", ret="r", spec="""
    ensures index < self.vec@.len() ==> r == Some(&self.vec@[index as int]),
            index >= self.vec@.len() ==> r.is_none(),
""")
    U.fn(F, "impl LeaderSelection :: fn leader_weighted_eligibility", wrap="impl LeaderSelection", ret="r",
         subs=[("input.to_be_bytes()", "u64_to_be_bytes(input)")],
         proof_at_start="broadcast use big_of_val;",
         spec="""
    requires total_weight > 0,
    ensures r as int == spec_elig(input, total_weight), r < total_weight,
""")
    U.fn(F, "impl Schedule :: fn view_leader", wrap="impl Schedule", ret="r",
         subs=[("validator::PublicKey", "PublicKey", None)],
         header_subs=[("validator::PublicKey", "PublicKey")],
         loops={0: dict(prefix="for l in self.leaders.iter()", iter="it", inv="""
            self.wf(),
            self.leader_selection.mode == LeaderSelectionMode::Weighted,
            turn == self.spec_turn(view_number.0),
            eligibility as int == spec_elig(turn, self.leader_weight),
            eligibility < self.leader_weight,
            offset == prefix(self.vec@, self.leaders@, it.index@ as int),
            offset <= eligibility,
""")},
         post_subs=[("let mut offset = 0;", "let mut offset: u64 = 0;"),
                    ("offset += v.weight;",
                     "proof { lemma_prefix_mono(self.vec@, self.leaders@, it.index@ as int + 1, self.leaders@.len() as int); } offset += v.weight;"),
                    ("return v.key.clone();",
                     "proof { assert(self.is_leader_slot(view_number.0, it.index@ as int)); } return v.key.clone();")],
         spec="""
    requires self.wf(),          // nothing about `frequency`: 0 is documented as "never rotates"
    ensures exists|j: int| self.is_leader_slot(view_number.0, j)
                && r == self.vec@[self.leaders@[j] as int].key
                && #[trigger] self.vec@[self.leaders@[j] as int].leader,
""")
    U.raw(LEMMAS, label="lemmas", canary=True)
    U.assume("A2: num_bigint::BigUint::{from_bytes_be, from, %, to_u64_digits} behave as documented (to_u64_digits of zero is empty)")
    U.assume("A3: keccak256 is a deterministic function; nothing about its distribution is assumed, so 'share proportional to "
             "weight' is proved as: the residues selecting validator j number exactly weight(j)")
    U.assume("Schedule::wf() is the type invariant established by Schedule::new (proved in unit `schedule` where claimed, else assumed)")
    return U
