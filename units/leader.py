"""U-leader (C11): Schedule::view_leader / LeaderSelection::leader_weighted_eligibility."""
from vx.unit import Unit
from units import common

F = "node/libs/roles/src/validator/messages/schedule.rs"
FC = "node/libs/roles/src/validator/messages/consensus.rs"

PRELUDE = r"""
// ---------------- prelude: abstract third-party types (assumed contracts) ----------------
#[verifier::external_body]
pub struct PublicKey { _p: u8 }                         // A3: BLS public key, opaque
impl Clone for PublicKey {
    #[verifier::external_body]
    fn clone(&self) -> (r: Self) ensures r == *self { unimplemented!() }      // A1: Clone returns an equal value
}
#[verifier::external_body]
pub struct KeyIndex { _p: u8 }                          // R-type: BTreeMap<PublicKey, usize> (not used by view_leader)

#[verifier::external_body]
pub struct Keccak256 { _p: u8 }                         // A3: keccak256 digest
pub uninterp spec fn keccak(msg: Seq<u8>) -> Seq<u8>;   // A3: keccak is *a function* (determinism only)
impl Keccak256 {
    pub uninterp spec fn bytes(&self) -> Seq<u8>;
    #[verifier::external_body]
    pub fn new(msg: &[u8]) -> (r: Self) ensures r.bytes() == keccak(msg@) { unimplemented!() }     // A3
    #[verifier::external_body]
    pub fn as_bytes(&self) -> (r: &[u8; 32]) ensures r@ == self.bytes() { unimplemented!() }       // A3
}

#[verifier::external_body]
pub struct BigUint { _p: u8 }                           // A2: num_bigint::BigUint, view = nat
pub uninterp spec fn be_val(s: Seq<u8>) -> nat;         // big-endian value of a byte string
pub uninterp spec fn big_of(n: nat) -> BigUint;
pub broadcast axiom fn big_of_val(n: nat) ensures #[trigger] big_of(n).val() == n;   // A2
impl BigUint {
    pub uninterp spec fn val(&self) -> nat;
    #[verifier::external_body]
    pub fn from_bytes_be(bytes: &[u8]) -> (r: BigUint) ensures r.val() == be_val(bytes@) { unimplemented!() }   // A2
    // A2: to_u64_digits = minimal little-endian base-2^64 digits, EMPTY for zero (num-bigint documentation)
    #[verifier::external_body]
    pub fn to_u64_digits(&self) -> (r: Vec<u64>)
        ensures self.val() == 0 ==> r@.len() == 0,
                0 < self.val() <= u64::MAX ==> r@.len() == 1 && r@[0] as nat == self.val(),
    { unimplemented!() }
    // A2: to_u32_digits = minimal little-endian base-2^32 digits (a value that needs two of them is NOT its first digit)
    #[verifier::external_body]
    pub fn to_u32_digits(&self) -> (r: Vec<u32>)
        ensures self.val() == 0 ==> r@.len() == 0,
                0 < self.val() <= u32::MAX ==> r@.len() == 1 && r@[0] as nat == self.val(),
                self.val() > u32::MAX ==> r@.len() >= 2 && r@[0] as nat == self.val() % 0x1_0000_0000,
    { unimplemented!() }
}
impl core::ops::Rem for BigUint {
    type Output = BigUint;
    #[verifier::external_body]
    fn rem(self, o: BigUint) -> (r: BigUint) { unimplemented!() }
}
impl RemSpecImpl for BigUint {                           // A2: `%` panics on a zero divisor, else mathematical remainder
    open spec fn obeys_rem_spec() -> bool { true }
    open spec fn rem_req(self, o: BigUint) -> bool { o.val() > 0 }
    open spec fn rem_spec(self, o: BigUint) -> BigUint { big_of((self.val() % o.val()) as nat) }
}
impl From<u64> for BigUint {
    #[verifier::external_body]
    fn from(x: u64) -> (r: BigUint) { unimplemented!() }
}
impl FromSpecImpl<u64> for BigUint {                     // A2
    open spec fn obeys_from_spec() -> bool { true }
    open spec fn from_spec(x: u64) -> BigUint { big_of(x as nat) }
}
pub uninterp spec fn be_bytes_u64(x: u64) -> Seq<u8>;
#[verifier::external_body]
pub fn u64_to_be_bytes(x: u64) -> (r: [u8; 8]) ensures r@ == be_bytes_u64(x) { x.to_be_bytes() }   // A1 (R-std wrapper)
"""

PRELUDE_NEW = r"""
// ---------------- prelude for Schedule::new (R-type: BTreeMap<PublicKey, _> as a key-ordered sequence; A3: Ord on keys is blst) ----------------
#[verifier::external_body] pub struct AnyhowError { _p: u8 }
#[verifier::external_body] pub fn anyhow_error() -> AnyhowError { unimplemented!() }
pub trait VerifContextOpt<T> { fn context(self, c: ()) -> Result<T, AnyhowError>; }
impl<T> VerifContextOpt<T> for Option<T> {       // anyhow::Context on Option (A1)
    #[verifier::external_body] fn context(self, c: ()) -> (r: Result<T, AnyhowError>)
        ensures r.is_ok() == self.is_some(), self.is_some() ==> r == Result::<T, AnyhowError>::Ok(self.unwrap()) { unimplemented!() }
}
pub uninterp spec fn key_lt(a: PublicKey, b: PublicKey) -> bool;            // the (total, strict) order of validator keys
pub broadcast axiom fn key_lt_irrefl(a: PublicKey) ensures !#[trigger] key_lt(a, a);
pub open spec fn sorted_by_key(s: Seq<ValidatorInfo>) -> bool {
    forall|i: int, j: int| 0 <= i < j < s.len() ==> key_lt(#[trigger] s[i].key, #[trigger] s[j].key)
}
#[verifier::external_body] pub struct KeyMap { _p: u8 }                     // BTreeMap<PublicKey, ValidatorInfo>
impl KeyMap {
    pub uninterp spec fn entries(&self) -> Seq<ValidatorInfo>;             // values in key order
    #[verifier::external_body] pub fn new() -> (r: Self) ensures r.entries().len() == 0 { unimplemented!() }
    #[verifier::external_body] pub fn contains_key(&self, k: &PublicKey) -> (r: bool)
        ensures r == (exists|i: int| 0 <= i < self.entries().len() && (#[trigger] self.entries()[i]).key == *k) { unimplemented!() }
    #[verifier::external_body] pub fn is_empty(&self) -> (r: bool) ensures r == (self.entries().len() == 0) { unimplemented!() }
    // A1 (BTreeMap::insert of an absent key): the value is placed at its position in key order; nothing else moves
    #[verifier::external_body] pub fn insert(&mut self, k: PublicKey, v: ValidatorInfo) -> (r: Option<ValidatorInfo>)
        requires v.key == k, sorted_by_key(old(self).entries()),
                 !(exists|i: int| 0 <= i < old(self).entries().len() && (#[trigger] old(self).entries()[i]).key == k),
        ensures sorted_by_key(final(self).entries()),
                exists|p: int| 0 <= p <= old(self).entries().len() && #[trigger] final(self).entries() == old(self).entries().insert(p, v),
    { unimplemented!() }
}
// R-forindex: `for v in validators` consumes the vector; the i-th element by value (A1: into_iter yields the elements in order)
#[verifier::external_body] pub fn verif_nth_owned(v: &Vec<ValidatorInfo>, i: usize) -> (r: ValidatorInfo) requires i < v@.len() ensures r == v@[i as int] { unimplemented!() }
// map.into_values().collect::<Vec<_>>()        (A1)
#[verifier::external_body] pub fn tmpl_map_into_values_collect(m: KeyMap) -> (r: Vec<ValidatorInfo>) ensures r@ == m.entries() { unimplemented!() }
// vec.iter().enumerate().map(F).collect::<BTreeMap<PublicKey, usize>>()      (A1); keys pairwise distinct => no entry is overwritten
#[verifier::external_body]
pub fn tmpl_iter_enumerate_map_collect_index<'a, F: FnMut((usize, &'a ValidatorInfo)) -> (PublicKey, usize)>(v: &'a Vec<ValidatorInfo>, f: F) -> (r: KeyIndex)
    requires
        forall|i: usize| i < v@.len() ==> f.requires(((i, #[trigger] &v@[i as int]),)),
        forall|i: usize, x: (PublicKey, usize)| i < v@.len() && #[trigger] f.ensures(((i, &v@[i as int]),), x) ==> x.0 == v@[i as int].key && x.1 == i,
        forall|i: int, j: int| 0 <= i < j < v@.len() ==> (#[trigger] v@[i]).key != (#[trigger] v@[j]).key,
    ensures r.inverse_of(v@),
{ unimplemented!() }
pub open spec fn fm_seq(gf: spec_fn(int) -> Option<usize>, k: int) -> Seq<usize>
    decreases k
{ if k <= 0 { Seq::empty() } else if gf(k - 1).is_some() { fm_seq(gf, k - 1).push(gf(k - 1).unwrap()) } else { fm_seq(gf, k - 1) } }
// vec.iter().enumerate().filter_map(F).collect::<Vec<usize>>()      (A1)
#[verifier::external_body]
pub fn tmpl_iter_enumerate_filter_map_collect<'a, F: FnMut((usize, &'a ValidatorInfo)) -> Option<usize>>(
    v: &'a Vec<ValidatorInfo>, f: F, Ghost(gf): Ghost<spec_fn(int) -> Option<usize>>) -> (r: Vec<usize>)
    requires
        forall|i: usize| i < v@.len() ==> f.requires(((i, #[trigger] &v@[i as int]),)),
        forall|i: usize, o: Option<usize>| i < v@.len() && #[trigger] f.ensures(((i, &v@[i as int]),), o) ==> o == gf(i as int),
    ensures r@ == fm_seq(gf, v@.len() as int),
{ unimplemented!() }
impl KeyIndex {
    // indexes[key] == i  <=>  vec[i].key == key
    pub uninterp spec fn map(&self) -> Map<PublicKey, usize>;
    pub open spec fn inverse_of(&self, vec: Seq<ValidatorInfo>) -> bool {
        &&& forall|i: int| 0 <= i < vec.len() ==> self.map().contains_key(#[trigger] vec[i].key) && self.map()[vec[i].key] == i
        &&& forall|k: PublicKey| #[trigger] self.map().contains_key(k) ==> self.map()[k] < vec.len() && vec[self.map()[k] as int].key == k
    }
    #[verifier::external_body] pub fn contains_key(&self, k: &PublicKey) -> (r: bool) ensures r == self.map().contains_key(*k) { unimplemented!() }
    #[verifier::external_body] pub fn get(&self, k: &PublicKey) -> (r: Option<&usize>)
        ensures r.is_some() == self.map().contains_key(*k), r.is_some() ==> *r.unwrap() == self.map()[*k] { unimplemented!() }
}
"""

LEMMAS_NEW = r"""
// ---------------- lemmas for Schedule::new ----------------
pub open spec fn lsum(vec: Seq<ValidatorInfo>, k: int) -> int
    decreases k
{ if k <= 0 { 0 } else { lsum(vec, k - 1) + (if vec[k - 1].leader { vec[k - 1].weight as int } else { 0 }) } }
pub open spec fn leader_idx(vec: Seq<ValidatorInfo>) -> spec_fn(int) -> Option<usize> {
    |i: int| if vec[i].leader { Some(i as usize) } else { None }
}
// inserting one entry anywhere adds exactly its weight to both sums
pub proof fn lemma_sums_insert(s: Seq<ValidatorInfo>, p: int, v: ValidatorInfo)
    requires 0 <= p <= s.len(),
    ensures total(s.insert(p, v), s.len() as int + 1) == total(s, s.len() as int) + v.weight,
            lsum(s.insert(p, v), s.len() as int + 1) == lsum(s, s.len() as int) + (if v.leader { v.weight as int } else { 0 }),
            0 <= lsum(s, s.len() as int) <= total(s, s.len() as int),
    decreases s.len() - p
{
    let t = s.insert(p, v);
    lemma_lsum_le_total(s, s.len() as int);
    if p == s.len() {
        assert(t.drop_last() =~= s);
        lemma_sums_prefix(t, s, s.len() as int);
    } else {
        let s1 = s.drop_last();
        lemma_sums_insert(s1, p, v);
        assert(t.drop_last() =~= s1.insert(p, v));
        assert(t[t.len() - 1] == s[s.len() - 1]);
        lemma_sums_prefix(t, s1.insert(p, v), s.len() as int);
        lemma_sums_prefix(s, s1, s.len() - 1);
    }
}
pub proof fn lemma_sums_prefix(a: Seq<ValidatorInfo>, b: Seq<ValidatorInfo>, k: int)
    requires 0 <= k <= a.len(), k <= b.len(), forall|i: int| 0 <= i < k ==> a[i] == b[i],
    ensures total(a, k) == total(b, k), lsum(a, k) == lsum(b, k),
    decreases k
{ if k > 0 { lemma_sums_prefix(a, b, k - 1); } }
pub proof fn lemma_lsum_le_total(s: Seq<ValidatorInfo>, k: int)
    requires 0 <= k <= s.len(),
    ensures 0 <= lsum(s, k) <= total(s, k),
    decreases k
{ if k > 0 { lemma_lsum_le_total(s, k - 1); } }
// the collected leader indices are exactly the eligible positions, increasing, and their prefix sum is the leader weight
pub proof fn lemma_leaders(vec: Seq<ValidatorInfo>, k: int)
    requires 0 <= k <= vec.len(), vec.len() <= usize::MAX,
    ensures
        forall|i: int| 0 <= i < fm_seq(leader_idx(vec), k).len() ==> (#[trigger] fm_seq(leader_idx(vec), k)[i]) < k && vec[fm_seq(leader_idx(vec), k)[i] as int].leader,
        forall|i: int, j: int| 0 <= i < j < fm_seq(leader_idx(vec), k).len() ==> fm_seq(leader_idx(vec), k)[i] < fm_seq(leader_idx(vec), k)[j],
        forall|j: int| 0 <= j < k && (#[trigger] vec[j]).leader ==> exists|i: int| 0 <= i < fm_seq(leader_idx(vec), k).len() && fm_seq(leader_idx(vec), k)[i] == j,
        prefix(vec, fm_seq(leader_idx(vec), k), fm_seq(leader_idx(vec), k).len() as int) == lsum(vec, k),
    decreases k
{
    if k > 0 {
        lemma_leaders(vec, k - 1);
        let f0 = fm_seq(leader_idx(vec), k - 1);
        let f1 = fm_seq(leader_idx(vec), k);
        if vec[k - 1].leader {
            assert(f1 == f0.push((k - 1) as usize));
            lemma_prefix_ext(vec, f1, f0, f0.len() as int);
            assert forall|j: int| 0 <= j < k && (#[trigger] vec[j]).leader implies exists|i: int| 0 <= i < f1.len() && f1[i] == j by {
                if j == k - 1 { assert(f1[f1.len() - 1] == j); }
                else { let i = choose|i: int| 0 <= i < f0.len() && f0[i] == j; assert(f1[i] == j); }
            }
        } else {
            assert(f1 == f0);
        }
    }
}
pub proof fn lemma_total_pos(vec: Seq<ValidatorInfo>, k: int)
    requires 1 <= k <= vec.len(), forall|j: int| 0 <= j < vec.len() ==> (#[trigger] vec[j]).weight > 0,
    ensures total(vec, k) >= 1,
    decreases k
{ if k > 1 { lemma_total_pos(vec, k - 1); } else { assert(total(vec, 0) == 0); } assert(vec[k - 1].weight > 0); }
pub proof fn lemma_prefix_pos(vec: Seq<ValidatorInfo>, leaders: Seq<usize>, k: int)
    requires 1 <= k <= leaders.len(), forall|i: int| 0 <= i < leaders.len() ==> (#[trigger] leaders[i]) < vec.len(),
             forall|j: int| 0 <= j < vec.len() ==> (#[trigger] vec[j]).weight > 0,
    ensures prefix(vec, leaders, k) >= 1,
    decreases k
{ if k > 1 { lemma_prefix_pos(vec, leaders, k - 1); } else { assert(prefix(vec, leaders, 0) == 0); } assert(leaders[k - 1] < vec.len()); assert(vec[leaders[k - 1] as int].weight > 0); }
pub proof fn lemma_prefix_ext(vec: Seq<ValidatorInfo>, a: Seq<usize>, b: Seq<usize>, k: int)
    requires 0 <= k <= a.len(), k <= b.len(), forall|i: int| 0 <= i < k ==> a[i] == b[i],
    ensures prefix(vec, a, k) == prefix(vec, b, k),
    decreases k
{ if k > 0 { lemma_prefix_ext(vec, a, b, k - 1); } }
"""

SPEC = r"""
// ---------------- specification, written from the property statement (C11) ----------------
pub open spec fn prefix(vec: Seq<ValidatorInfo>, leaders: Seq<usize>, k: int) -> int
    decreases k
{
    if k <= 0 { 0 } else { prefix(vec, leaders, k - 1) + vec[leaders[k - 1] as int].weight }
}
pub open spec fn total(vec: Seq<ValidatorInfo>, k: int) -> int
    decreases k
{
    if k <= 0 { 0 } else { total(vec, k - 1) + vec[k - 1].weight }
}
impl Schedule {
    // type invariant established by Schedule::new (see unit `schedule`)
    pub open spec fn wf(&self) -> bool {
        &&& self.vec@.len() >= 1
        &&& self.leaders@.len() >= 1
        &&& forall|i: int| 0 <= i < self.leaders@.len() ==> (#[trigger] self.leaders@[i]) < self.vec@.len()
        &&& forall|i: int| 0 <= i < self.leaders@.len() ==> self.vec@[(#[trigger] self.leaders@[i]) as int].leader
        &&& forall|i: int, j: int| 0 <= i < j < self.leaders@.len() ==> self.leaders@[i] < self.leaders@[j]
        &&& forall|j: int| 0 <= j < self.vec@.len() && (#[trigger] self.vec@[j]).leader ==>
                exists|i: int| 0 <= i < self.leaders@.len() && self.leaders@[i] == j
        &&& forall|j: int| 0 <= j < self.vec@.len() ==> (#[trigger] self.vec@[j]).weight > 0
        &&& self.leader_weight == prefix(self.vec@, self.leaders@, self.leaders@.len() as int)
        &&& self.total_weight == total(self.vec@, self.vec@.len() as int)
        &&& self.total_weight >= 1
        &&& self.leader_weight >= 1
        // established by Schedule::new: validators sorted by key (so the listing order is irrelevant) and `indexes` = inverse of `vec`
        &&& sorted_by_key(self.vec@)
        &&& self.indexes.inverse_of(self.vec@)
    }
    // "changing every `frequency` views (never rotating when the frequency is 0)"
    pub open spec fn spec_turn(&self, view: u64) -> u64 {
        if self.leader_selection.frequency == 0 { 0 } else { view / self.leader_selection.frequency }
    }
    // j-th eligible validator is the leader of `view`
    pub open spec fn is_leader_slot(&self, view: u64, j: int) -> bool {
        &&& 0 <= j < self.leaders@.len()
        &&& match self.leader_selection.mode {
                LeaderSelectionMode::RoundRobin => j == (self.spec_turn(view) as int) % (self.leaders@.len() as int),
                LeaderSelectionMode::Weighted => {
                    let e = spec_elig(self.spec_turn(view), self.leader_weight);
                    prefix(self.vec@, self.leaders@, j) <= e < prefix(self.vec@, self.leaders@, j + 1)
                }
            }
    }
}
pub open spec fn spec_elig(input: u64, w: u64) -> int {
    (be_val(keccak(be_bytes_u64(input))) % (w as nat)) as int
}
"""

THRESH_SPEC = r"""
pub open spec fn spec_f(n: nat) -> nat { if n >= 1 { ((n - 1) / 5) as nat } else { 0 } }
pub open spec fn spec_quorum(n: nat) -> int { n - spec_f(n) }
pub open spec fn spec_subquorum(n: nat) -> int { n - 3 * spec_f(n) }
"""
THRESH_CONTRACT = {
    "max_faulty_weight": "\n    requires total_weight >= 1,\n    ensures r as nat == spec_f(total_weight as nat),\n",
    "quorum_threshold": "\n    requires total_weight >= 1,\n    ensures r as int == spec_quorum(total_weight as nat),\n",
    "subquorum_threshold": "\n    requires total_weight >= 1,\n    ensures r as int == spec_subquorum(total_weight as nat),\n",
}

LEMMAS = r"""
// ---------------- corollaries of the contracts (C11) ----------------
pub proof fn lemma_prefix_mono(vec: Seq<ValidatorInfo>, leaders: Seq<usize>, a: int, b: int)
    requires 0 <= a <= b <= leaders.len(),
             forall|i: int| 0 <= i < leaders.len() ==> (#[trigger] leaders[i]) < vec.len(),
    ensures prefix(vec, leaders, a) <= prefix(vec, leaders, b),
    decreases b - a
{
    if a < b { lemma_prefix_mono(vec, leaders, a, b - 1); }
}
// exactly one validator: the slot is unique in both modes (weights are positive, so prefix is strictly increasing)
pub proof fn lemma_slot_unique(s: Schedule, view: u64, j1: int, j2: int)
    requires s.wf(), s.is_leader_slot(view, j1), s.is_leader_slot(view, j2),
    ensures j1 == j2,
{
    if j1 < j2 { lemma_prefix_mono(s.vec@, s.leaders@, j1 + 1, j2); }
    if j2 < j1 { lemma_prefix_mono(s.vec@, s.leaders@, j2 + 1, j1); }
}
// frequency 0: the leader slot does not depend on the view
pub proof fn lemma_freq0_never_rotates(s: Schedule, v1: u64, v2: u64, j: int)
    requires s.wf(), s.leader_selection.frequency == 0, s.is_leader_slot(v1, j),
    ensures s.is_leader_slot(v2, j),
{
}
// round-robin: same slot within a block of `frequency` views, next slot (cyclically) in the next block
pub proof fn lemma_round_robin_rotates(s: Schedule, v: u64, j: int)
    requires s.wf(), s.leader_selection.mode == LeaderSelectionMode::RoundRobin, s.leader_selection.frequency > 0,
             s.is_leader_slot(v, j), v as int + s.leader_selection.frequency as int <= u64::MAX,
    ensures s.is_leader_slot((v + s.leader_selection.frequency) as u64, if j + 1 == s.leaders@.len() { 0 } else { j + 1 }),
            forall|v2: u64| v2 / s.leader_selection.frequency == v / s.leader_selection.frequency ==> s.is_leader_slot(v2, j),
{
    let f = s.leader_selection.frequency as int;
    let n = s.leaders@.len() as int;
    vstd::arithmetic::div_mod::lemma_div_plus_one(v as int, f);
    let t = v as int / f;
    vstd::arithmetic::div_mod::lemma_div_pos_is_pos(v as int, f);
    lemma_succ_mod(t, n);
}
pub proof fn lemma_succ_mod(t: int, n: int)
    requires n > 0, t >= 0,
    ensures (t + 1) % n == if t % n + 1 == n { 0int } else { t % n + 1 },
{
    vstd::arithmetic::div_mod::lemma_fundamental_div_mod(t, n);
    vstd::arithmetic::div_mod::lemma_mod_bound(t, n);
    if t % n + 1 == n {
        assert(t + 1 == n * (t / n + 1)) by(nonlinear_arith) requires t == n * (t / n) + t % n, t % n + 1 == n;
        vstd::arithmetic::div_mod::lemma_mod_multiples_basic(t / n + 1, n);
        assert((n * (t / n + 1)) % n == 0) by { vstd::arithmetic::mul::lemma_mul_is_commutative(n, t / n + 1); }
    } else {
        assert(t + 1 == (t / n) * n + (t % n + 1)) by(nonlinear_arith) requires t == n * (t / n) + t % n;
        assert(t + 1 == n * (t / n) + (t % n + 1));
        vstd::arithmetic::div_mod::lemma_fundamental_div_mod_converse(t + 1, n, t / n, t % n + 1);
    }
}
// weighted: the number of residues e in [0, leader_weight) that select slot j is exactly that validator's weight
pub proof fn lemma_weighted_share(s: Schedule, j: int)
    requires s.wf(), 0 <= j < s.leaders@.len(),
    ensures prefix(s.vec@, s.leaders@, j + 1) - prefix(s.vec@, s.leaders@, j) == s.vec@[s.leaders@[j] as int].weight,
            0 <= prefix(s.vec@, s.leaders@, j),
            prefix(s.vec@, s.leaders@, j + 1) <= s.leader_weight,
{
    lemma_prefix_mono(s.vec@, s.leaders@, 0, j);
    lemma_prefix_mono(s.vec@, s.leaders@, j + 1, s.leaders@.len() as int);
}
"""


# the Schedule invariant, membership test and thresholds are ASSUMED (as stub contracts) by the units qc, implied, replica, blockstore,
# addrs: the properties those units serve run this unit too and count the failures of these sections
DEP_PROPS = ["C11", "C07", "C01", "C02", "C04", "C05", "C08", "C16"]


def build(repo):
    U = Unit("leader", ["C11"], desc="leader election",
             uses="use vstd::std_specs::ops::*;\nuse vstd::std_specs::convert::*;")
    U.repo = repo
    U.raw(common.STD_OPTION_COPIED + PRELUDE, label="prelude")
    U.item(FC, "struct ViewNumber", attrs="#[derive(Clone, Copy)]")
    U.item(F, "struct ValidatorInfo", subs=[("validator::PublicKey", "PublicKey")])
    U.item(F, "enum LeaderSelectionMode", attrs="#[derive(PartialEq, Eq, Structural)]")
    U.item(F, "struct LeaderSelection")
    U.item(F, "struct Schedule", subs=[("BTreeMap<validator::PublicKey, usize>", "KeyIndex")])
    U.raw(PRELUDE_NEW, label="prelude Schedule::new")
    U.raw(SPEC, label="spec")
    U.raw(LEMMAS_NEW, label="lemmas Schedule::new", canary=True)
    U.fn(F, "impl Schedule :: fn new", wrap="impl Schedule", ret="r", props=DEP_PROPS,   # establishes wf(): every quorum / membership rule of the other units relies on it
         post_subs=[("Ok(Self {", "proof { lemma_total_pos(vec@, vec@.len() as int); lemma_prefix_pos(vec@, leaders@, leaders@.len() as int); } Ok(Self {")],
         proof_at_start="broadcast use vstd::seq_lib::group_to_multiset_ensures; proof { assert(validators@.subrange(0, 0) =~= Seq::<ValidatorInfo>::empty()); }",
         header_subs=[("validators: impl IntoIterator<Item = ValidatorInfo>", "validators: Vec<ValidatorInfo>   /* R-type: the iterator's items, in order */"),
                      ("anyhow::Result<Self>", "Result<Self, AnyhowError>")],
         subs=[("BTreeMap::new()", "KeyMap::new()   /* R-type */"),
               ("let vec: Vec<_> = map.into_values().collect();", "proof { assert(validators@.subrange(0, validators@.len() as int) =~= validators@); } let vec: Vec<_> = tmpl_map_into_values_collect(map);   /* R-chain */"),
               ("BTreeMap<validator::PublicKey, usize>", "KeyIndex"),
               ("map.insert(v.key.clone(), v);", "let ghost verif_e0 = map.entries(); map.insert(v.key.clone(), v); "
                "proof { broadcast use vstd::seq_lib::group_to_multiset_ensures; let p = choose|p: int| 0 <= p <= verif_e0.len() && map.entries() == verif_e0.insert(p, v); lemma_sums_insert(verif_e0, p, v); "
                "assert(validators@.subrange(0, verif_i0 as int) =~= validators@.subrange(0, verif_i0 as int - 1).push(v)); "
                "assert forall|j: int| 0 <= j < map.entries().len() implies (#[trigger] map.entries()[j]).weight > 0 by { if j < p { assert(map.entries()[j] == verif_e0[j]); } else if j > p { assert(map.entries()[j] == verif_e0[j - 1]); } } }")],
         chains=[dict(recv="vec", methods=["iter", "enumerate", "map", "collect"],
                      closures={2: dict(ty="(usize, &ValidatorInfo)", ret="x: (PublicKey, usize)", spec="ensures x.0 == {p}.1.key && x.1 == {p}.0")},
                      template="{{ proof {{ broadcast use key_lt_irrefl; assert forall|i: int, j: int| 0 <= i < j < vec@.len() implies (#[trigger] vec@[i]).key != (#[trigger] vec@[j]).key by {{ assert(key_lt(vec@[i].key, vec@[j].key)); }} }} "
                               "tmpl_iter_enumerate_map_collect_index(&vec, {a2}) }}"),
                 dict(recv="vec", methods=["iter", "enumerate", "filter_map", "collect"],
                      closures={2: dict(ty="(usize, &ValidatorInfo)", ret="o: Option<usize>", spec="ensures o == (if {p}.1.leader { Some({p}.0) } else { None })")},
                      template="{{ proof {{ lemma_leaders(vec@, vec@.len() as int); }} tmpl_iter_enumerate_filter_map_collect(&vec, {a2}, Ghost(leader_idx(vec@))) }}")],
         index_loops={0: dict(prefix="for v in validators", len="validators.len()", spec_len="validators@.len()", at="verif_nth_owned(&validators, {i})", pat="v",
                              inv="""
            0 <= {i} <= validators@.len(),
            sorted_by_key(map.entries()), map.entries().len() == {i},
            forall|j: int| 0 <= j < map.entries().len() ==> (#[trigger] map.entries()[j]).weight > 0,
            total_weight == total(map.entries(), map.entries().len() as int),
            leader_weight == lsum(map.entries(), map.entries().len() as int),
            leader_weight <= total_weight,
            // every validator given so far is in the map (and nothing else): same multiset
            map.entries().to_multiset() == validators@.subrange(0, {i} as int).to_multiset(),
""")},
         spec="""
    ensures r matches Ok(s) ==> s.wf()
            // the schedule is the key-sorted arrangement of exactly the validators given: the order of the listing is irrelevant
            && sorted_by_key(s.vec@) && s.vec@.to_multiset() == validators@.to_multiset()
            && s.leader_selection == leader_selection,
""")
    U.fn(F, "impl Schedule :: fn contains", wrap="impl Schedule", ret="r", props=DEP_PROPS, header_subs=[("validator::PublicKey", "PublicKey")], spec="""
    requires self.wf(),
    ensures r == (exists|j: int| 0 <= j < self.vec@.len() && self.vec@[j].key == *validator),
""")
    U.fn(F, "impl Schedule :: fn index", wrap="impl Schedule", ret="r", props=DEP_PROPS, header_subs=[("validator::PublicKey", "PublicKey")], spec="""
    requires self.wf(),
    ensures r.is_some() ==> r.unwrap() < self.vec@.len() && self.vec@[r.unwrap() as int].key == *validator,
            r.is_none() ==> forall|j: int| 0 <= j < self.vec@.len() ==> self.vec@[j].key != *validator,
""")
    # small accessors (so that code using them still type-checks after a refactoring); contracts say what they return
    U.fn(F, "impl Schedule :: fn len", wrap="impl Schedule", ret="r", props=DEP_PROPS, spec="    ensures r == self.vec@.len(),\n")
    U.fn(F, "impl Schedule :: fn total_weight", wrap="impl Schedule", ret="r", spec="    ensures r == self.total_weight,\n")
    U.fn(F, "impl Schedule :: fn leaders", wrap="impl Schedule", ret="r", spec="    ensures r@ == self.leaders@,\n")
    U.fn(F, "impl Schedule :: fn leader_selection", wrap="impl Schedule", ret="r", spec="    ensures *r == self.leader_selection,\n")
    # C07: the thresholds a Schedule reports are those of its TOTAL weight
    U.raw(THRESH_SPEC, label="threshold spec", props=["C07"])
    for f in ("max_faulty_weight", "quorum_threshold", "subquorum_threshold"):
        U.fn(F, "fn " + f, ret="r", props=DEP_PROPS, spec=THRESH_CONTRACT[f])
    for f in ("max_faulty_weight", "quorum_threshold", "subquorum_threshold"):
        U.fn(F, "impl Schedule :: fn " + f, wrap="impl Schedule", ret="r", props=DEP_PROPS,
             spec="    requires self.wf(),\n" + THRESH_CONTRACT[f].split("\n")[2].replace("total_weight", "self.total_weight") + "\n")
    U.fn(F, "impl Schedule :: fn get", wrap="impl Schedule", ret="r", spec="""
    ensures index < self.vec@.len() ==> r == Some(&self.vec@[index as int]),
            index >= self.vec@.len() ==> r.is_none(),
""")
    # C10 too: view_leader is called with the view of a network message before its justification is checked, so it must be total (F1, F2)
    U.fn(F, "impl LeaderSelection :: fn leader_weighted_eligibility", wrap="impl LeaderSelection", ret="r", props=["C11", "C10"],
         subs=[("input.to_be_bytes()", "u64_to_be_bytes(input)")],
         proof_at_start="broadcast use big_of_val;",
         spec="""
    requires total_weight > 0,
    ensures r as int == spec_elig(input, total_weight), r < total_weight,
""")
    U.fn(F, "impl Schedule :: fn view_leader", wrap="impl Schedule", ret="r", props=["C11", "C10"],
         subs=[("validator::PublicKey", "PublicKey", None)],
         header_subs=[("validator::PublicKey", "PublicKey")],
         loops={0: dict(prefix="for l in self.leaders.iter()", iter="it", inv="""
            self.wf(),
            self.leader_selection.mode == LeaderSelectionMode::Weighted,
            turn == self.spec_turn(view_number.0),
            eligibility as int == spec_elig(turn, self.leader_weight),
            eligibility < self.leader_weight,
            offset == prefix(self.vec@, self.leaders@, it.index@ as int),
            offset <= eligibility,
""")},
         post_subs=[("let mut offset = 0;", "let mut offset: u64 = 0;"),
                    ("offset += v.weight;",
                     "proof { lemma_prefix_mono(self.vec@, self.leaders@, it.index@ as int + 1, self.leaders@.len() as int); } offset += v.weight;"),
                    ("return v.key.clone();",
                     "proof { assert(self.is_leader_slot(view_number.0, it.index@ as int)); } return v.key.clone();")],
         spec="""
    requires self.wf(),          // nothing about `frequency`: 0 is documented as "never rotates"
    ensures exists|j: int| self.is_leader_slot(view_number.0, j)
                && r == self.vec@[self.leaders@[j] as int].key
                && #[trigger] self.vec@[self.leaders@[j] as int].leader,
""")
    U.raw(LEMMAS, label="lemmas", canary=True)
    U.assume("A2: num_bigint::BigUint::{from_bytes_be, from, %, to_u64_digits} behave as documented (to_u64_digits of zero is empty)")
    U.assume("A3: keccak256 is a deterministic function; nothing about its distribution is assumed, so 'share proportional to "
             "weight' is proved as: the residues selecting validator j number exactly weight(j)")
    U.assume("Schedule::wf() is the type invariant established by Schedule::new (proved in unit `schedule` where claimed, else assumed)")
    return U
