"""U-limiter (C15): the token-bucket rate limiter state machine."""
from vx.unit import Unit
from units import common

F = "node/libs/concurrency/src/limiter/mod.rs"

PRELUDE = r"""
// ---------------- prelude (A2: time crate; A4: tokio watch/mutex; R-type: runtime handles opaque) ----------------
#[verifier::external_body] pub struct Ctx { _p: u8 }
impl Ctx { #[verifier::external_body] pub fn is_active(&self) -> bool { unimplemented!() } }      // offered so that code asking for it is decided
#[verifier::external_body] pub struct Canceled { _p: u8 }
#[verifier::external_body] pub struct Instant { _p: u8 }
#[verifier::external_body] pub struct Deadline { _p: u8 }
#[verifier::external_body] #[derive(Clone, Copy)] pub struct Duration { _p: u8 }
#[verifier::external_body] pub struct StateCell { _p: u8 }          // Mutex<watch::Sender<State>>
#[verifier::external_body] pub struct AcquireLock { _p: u8 }        // sync::Mutex<watch::Receiver<State>>
#[verifier::external_body] pub struct AcquireGuard { _p: u8 }
pub type Nanos = i128;
pub spec const NANOS_MAX_SPEC: int = 9223372036854775807int * 1000000000int + 999999999int;     // time::Duration::MAX.whole_nanoseconds()
#[verifier::external_body] pub fn duration_max_nanos() -> (r: i128) ensures r == NANOS_MAX_SPEC { unimplemented!() }
impl Duration {
    // A2 (time 0.3): Duration::new(s, n) panics iff normalising n overflows s; with 0 <= n < 10^9 it cannot
    #[verifier::external_body]
    pub fn new(seconds: i64, nanoseconds: i32) -> (r: Duration) requires 0 <= nanoseconds < 1000000000
        ensures seconds >= 0 ==> r.nanos() == seconds * 1000000000 + nanoseconds { unimplemented!() }
    #[verifier::external_body] pub fn max() -> (r: Duration) ensures r.nanos() == NANOS_MAX_SPEC { unimplemented!() }
    // A2 (time 0.3): the other constructors, offered so that code using them is decided
    #[verifier::external_body] pub fn nanoseconds(n: i64) -> (r: Duration) ensures r.nanos() == n { unimplemented!() }
    #[verifier::external_body] pub fn seconds(n: i64) -> (r: Duration) ensures r.nanos() == n * 1000000000 { unimplemented!() }
    pub uninterp spec fn nanos(&self) -> int;
    #[verifier::external_body] pub fn whole_nanoseconds(&self) -> (r: i128) ensures r == self.nanos(), -NANOS_MAX_SPEC - 1000000000 <= r <= NANOS_MAX_SPEC { unimplemented!() }
}
impl Instant {
    #[verifier::external_body] pub fn checked_add(&self, d: Duration) -> Option<Instant> { unimplemented!() }
    // now - start
    #[verifier::external_body] pub fn since(&self, start: &Instant) -> Duration { unimplemented!() }
}
impl Ctx {
    #[verifier::external_body] pub fn now(&self) -> Instant { unimplemented!() }
    #[verifier::external_body] pub async fn canceled(&self) { unimplemented!() }
    #[verifier::external_body] pub async fn sleep_until_deadline(&self, d: Deadline) -> (r: Result<(), Canceled>) { unimplemented!() }
}
#[verifier::external_body] pub fn deadline_finite(t: Instant) -> Deadline { unimplemented!() }
#[verifier::external_body] pub fn deadline_infinite() -> Deadline { unimplemented!() }
// R-cast: `x as i64` / `x as i32` / `x as i128` must not change the value
// R-std: `v.try_into().unwrap_or(d)` for i128 -> usize (Result::unwrap_or is generic over Destruct, which assume_specification cannot name)
#[verifier::external_body]
pub fn verif_i128_to_usize_or(v: i128, d: usize) -> (r: usize)
    ensures 0 <= v <= usize::MAX ==> r == v, !(0 <= v <= usize::MAX) ==> r == d
{ v.try_into().unwrap_or(d) }
#[verifier::external_body]
pub fn verif_max_i128(a: i128, b: i128) -> (r: i128) ensures r == (if a >= b { a } else { b }) { std::cmp::max(a, b) }     // A1 (R-std)
pub fn cast_i128_i64(x: i128) -> (r: i64) requires i64::MIN <= x <= i64::MAX ensures r == x { x as i64 }
pub fn cast_i128_i32(x: i128) -> (r: i32) requires i32::MIN <= x <= i32::MAX ensures r == x { x as i32 }
"""

SPEC = r"""
// ---------------- specification (C15) ----------------
impl State {
    // reserved permits are part of the permits; the bucket never holds more than the burst
    pub open spec fn inv(&self, l: &Limiter) -> bool { self.reserved <= self.permits <= l.burst && 0 <= self.refresh_ticks < TICKS_BOUND }
    // permits a caller may still take right now
    pub open spec fn free(&self) -> int { self.permits - self.reserved }
    // "after advancing to tick `need`, p more permits can be reserved": what acquire() establishes before it sleeps, what every
    // Permit::drop in between preserves (acquires are serialised by the `acquire` mutex), and what the final critical section consumes
    pub open spec fn can_grant(&self, l: &Limiter, need: int, p: int) -> bool {
        &&& self.reserved + p <= l.burst
        &&& self.permits + (if need > self.refresh_ticks { need - self.refresh_ticks } else { 0 }) >= self.reserved + p
    }
}
// one write to the limiter state that grants g >= 0 permits: the potential  free - clock  drops by at least g
// (a tick adds at most one permit; a reservation moves permits from free to granted; consumption removes a reserved permit)
pub open spec fn step(a: State, b: State, g: int, l: &Limiter) -> bool {
    g >= 0 && b.inv(l) && b.free() + g - b.refresh_ticks <= a.free() - a.refresh_ticks && b.refresh_ticks >= a.refresh_ticks
}
// A6: the i128 tick counter (elapsed nanoseconds / refresh period, or the tick an acquire waits for) stays far below 2^127
pub spec const TICKS_BOUND: int = 0x4000_0000_0000_0000_0000_0000_0000_0000int;
"""


LEMMA_WINDOW = r"""
// ---------------- C15: the window bound, over any sequence of writes to the limiter state ----------------
// Every write to the state is one of the three closures above (State::advance inside them); each is proved to be a `step`.
// Along ANY sequence of steps the permits granted are bounded by the free permits at the start plus the ticks the limiter clock
// advanced: at most  burst + (ticks elapsed)  -- with ticks = floor(elapsed time / refresh period) that is  b + T/r (+1 for the
// partial period at the window's ends).
pub open spec fn sum_to(g: Seq<int>, k: int) -> int decreases k { if k <= 0 { 0 } else { sum_to(g, k - 1) + g[k - 1] } }
pub proof fn lemma_window(st: Seq<State>, g: Seq<int>, l: &Limiter, k: int)
    requires st.len() == g.len() + 1, 0 <= k <= g.len(), st[0].inv(l),
             forall|i: int| 0 <= i < g.len() ==> step(#[trigger] st[i], st[i + 1], g[i], l),
    ensures
        st[k].inv(l),
        sum_to(g, k) <= st[0].free() - st[k].free() + (st[k].refresh_ticks - st[0].refresh_ticks),
        sum_to(g, k) <= l.burst + (st[k].refresh_ticks - st[0].refresh_ticks),
    decreases k
{
    if k > 0 {
        lemma_window(st, g, l, k - 1);
        assert(step(st[k - 1], st[k], g[k - 1], l));
    }
}
"""


def build(repo):
    U = Unit("limiter", ["C15"], desc="rate limiter", uses="")
    U.repo = repo
    U.raw(common.STD_MIN + PRELUDE, label="prelude limiter")
    U.item(F, "struct State")
    U.item(F, "struct Limiter", subs=[("time::Instant", "Instant"), ("Mutex<sync::watch::Sender<State>>", "StateCell"),
                                       ("sync::Mutex<sync::watch::Receiver<State>>", "AcquireLock")])
    U.item(F, "struct Permit", subs=[("ctx::Ctx", "Ctx")])
    U.raw(SPEC, label="spec limiter")
    U.fn(F, "fn duration_or_max", ret="r",
         header_subs=[("time::Duration", "Duration")],
         subs=[("debug_assert!(d >= 0);", "assert(d >= 0);   // R-dbg"),
               ("const NANOS_MAX: Nanos = time::Duration::MAX.whole_nanoseconds();", "let NANOS_MAX: Nanos = duration_max_nanos();   /* R-std: const of the time crate */"),
               ("time::Duration::MAX", "Duration::max()", None),
               ("time::Duration::new((d / NANOS_PER_SEC) as i64, (d % NANOS_PER_SEC) as i32)",
                "Duration::new(cast_i128_i64(d / NANOS_PER_SEC), cast_i128_i32(d % NANOS_PER_SEC))   /* R-cast */", None),
               ("time::Duration::", "Duration::", None)],
         spec="""
    requires d >= 0,      // never panics for any non-negative nanosecond count
    // a SATURATING conversion: the wait handed to the clock is never shorter than the computed one (a shortened wait grants permits early)
    ensures r.nanos() == (if d <= NANOS_MAX_SPEC { d as int } else { NANOS_MAX_SPEC }),
""")
    U.fn(F, "fn usize_or_max", ret="r",
         subs=[("debug_assert!(v >= 0);", "assert(v >= 0);   // R-dbg"),
               ("v.try_into().unwrap_or(usize::MAX)", "verif_i128_to_usize_or(v, usize::MAX)   /* R-std */")],
         spec="    requires v >= 0,\n    ensures r as int == (if v <= usize::MAX { v as int } else { usize::MAX as int }),\n")
    U.fn(F, "impl State :: fn advance", wrap="impl State",
         subs=[("std::cmp::min(", "verif_min_usize("), ("std::cmp::max(", "verif_max_i128(", None)],
         spec="""
    requires old(self).inv(l), refresh_ticks < TICKS_BOUND,
    ensures final(self).inv(l), final(self).reserved == old(self).reserved,
            // the limiter clock never goes backwards ...
            final(self).refresh_ticks == (if refresh_ticks < old(self).refresh_ticks { old(self).refresh_ticks } else { refresh_ticks }),
            // ... and each elapsed tick adds one permit, saturating at the burst (no overflow for any clock value)
            final(self).permits as int == (if refresh_ticks < old(self).refresh_ticks { old(self).permits as int }
                else if old(self).permits + (refresh_ticks - old(self).refresh_ticks) <= l.burst { old(self).permits + (refresh_ticks - old(self).refresh_ticks) }
                else { l.burst as int }),
            // a pending reservation stays grantable
            forall|need: int, p: int| #[trigger] old(self).can_grant(l, need, p) ==> final(self).can_grant(l, need, p),
            step(*old(self), *final(self), 0, l),
""")
    # Drop for Permit: the closure handed to send_modify, lifted
    U.lift_closure(F, "impl Drop for Permit<'_> :: fn drop", "|s|", "permit_drop_closure",
                   "(s: &mut State, this: &Permit<'_>)",
                   subs=[("self.", "this.", None),
                         ("(this.ctx.now() - this.limiter.start).whole_nanoseconds()", "this.ctx.now().since(&this.limiter.start).whole_nanoseconds()   /* R-op: Instant - Instant */")],
                   post_subs=[("s.advance(refresh_ticks, this.limiter);", """proof {
                if verif_elapsed >= 0 {
                    assert(verif_elapsed as int / this.limiter.refresh as int <= verif_elapsed) by(nonlinear_arith)
                        requires this.limiter.refresh >= 1, verif_elapsed >= 0;
                }
                assert(refresh_ticks < TICKS_BOUND);
            }
            s.advance(refresh_ticks, this.limiter);"""),
                              ("let refresh_ticks =\n                this.ctx.now().since(&this.limiter.start).whole_nanoseconds()", "let verif_elapsed = this.ctx.now().since(&this.limiter.start).whole_nanoseconds(); let refresh_ticks =\n                verif_elapsed   /* R-let */")],
                   spec="""
    requires old(s).inv(this.limiter),
             this.permits > 0,                                    // guard `if self.permits == 0 { return }` of drop() (checked below)
             this.permits > 0 ==> this.limiter.refresh > 0,       // a non-empty permit exists only for a finite refresh rate (acquire returns permits: 0 otherwise)
             old(s).reserved >= this.permits,                     // this permit's share is part of `reserved` (it was added when the permit was constructed)
    ensures final(s).inv(this.limiter),
            final(s).reserved == old(s).reserved - this.permits,
            // consuming reserved permits never makes a pending reservation un-grantable
            forall|need: int, p: int| #[trigger] old(s).can_grant(this.limiter, need, p) ==> final(s).can_grant(this.limiter, need, p),
            step(*old(s), *final(s), 0, this.limiter),
""")
    # acquire: final critical section, lifted
    U.lift_closure(F, "impl Limiter :: fn acquire", "|s| {\n            s.advance(need, self);", "acquire_commit_closure",
                   "(s: &mut State, need: i128, permits: usize, this: &Limiter) -> (r: bool)",
                   subs=[("self", "this", None)],
                   spec="""
    requires old(s).inv(this), need < TICKS_BOUND,
             old(s).can_grant(this, need as int, permits as int),      // rely: since the wait only Permit::drop ran (A4)
    ensures final(s).inv(this), final(s).reserved == old(s).reserved + permits, !r,
            step(*old(s), *final(s), permits as int, this),       // the ONLY step that grants permits
""")
    U.raw(LEMMA_WINDOW, label="lemma window bound", canary=True)
    U.raw("""
// ---------------- stubs for the enclosing functions (A4) ----------------
#[verifier::external_body] pub fn canceled_value() -> Canceled { unimplemented!() }
// R-stub: `self.limiter.state.lock().unwrap().send_modify(<closure above>)`
#[verifier::external_body]
pub fn state_send_modify_drop(cell: &StateCell, this: &Permit<'_>)
    requires this.permits > 0
{ unimplemented!() }
#[verifier::external_body]
pub async fn lock_acquire(ctx: &Ctx, l: &AcquireLock) -> (r: Result<AcquireGuard, Canceled>) { unimplemented!() }
// sync::wait_for on the state watch: returns a state for which the predicate holds; states satisfy the invariant (proved for every writer);
// A6: the tick counter is far from overflowing
#[verifier::external_body]
pub async fn wait_for_state<'a, F: Fn(&State) -> bool>(ctx: &Ctx, g: &'a mut AcquireGuard, f: F, Ghost(l): Ghost<&Limiter>) -> (r: Result<&'a State, Canceled>)
    requires forall|s: &State| s.inv(l) ==> #[trigger] f.requires((s,)),
    ensures r matches Ok(s) ==> s.inv(l) && f.ensures((s,), true) && s.refresh_ticks + usize::MAX < TICKS_BOUND,
{ unimplemented!() }
// R-stub: `self.state.lock().unwrap().send_if_modified(<closure above>)` -- the ONLY write acquire() makes to the limiter state
#[verifier::external_body]
pub fn state_commit(cell: &StateCell, need: i128, permits: usize, l: &Limiter, Ghost(grantable): Ghost<bool>)
    requires grantable      // the tick computed before sleeping makes the reservation grantable (can_grant), and it is below the tick bound
{ unimplemented!() }
// W-ghost: identity; an early (cancelled) return is only allowed while acquire() has not written to the state
pub trait VerifNoWrite<T>: Sized { 
    spec fn as_result(self) -> Result<T, Canceled>;
    fn verif_nowrite(self, w: Ghost<int>) -> (r: Result<T, Canceled>) requires self.as_result().is_err() ==> w@ == 0 ensures r == self.as_result();
}
impl<T> VerifNoWrite<T> for Result<T, Canceled> {
    open spec fn as_result(self) -> Result<T, Canceled> { self }
    fn verif_nowrite(self, w: Ghost<int>) -> (r: Result<T, Canceled>) { self }
}
pub assume_specification [i128::saturating_mul] (a: i128, b: i128) -> (r: i128)      // A1
    ensures (a > 0 && b > 0) ==> r > 0, (a >= 0 && b >= 0) ==> r >= 0;
""", label="stubs acquire")
    U.fn(F, "impl Drop for Permit<'_> :: fn drop", wrap="impl Permit<'_>", name="drop_permit",
         subs=[("self.limiter.state.lock().unwrap().send_modify($C);", "state_send_modify_drop(&self.limiter.state, self);   /* R-stub: closure verified as permit_drop_closure */")],
         spec="    ensures true,\n")
    U.fn(F, "impl Limiter :: fn acquire", wrap="impl Limiter", ret="r",
         header_subs=[("ctx::Ctx", "Ctx"), ("ctx::OrCanceled<Permit<'a>>", "Result<Permit<'a>, Canceled>")],
         proof_at_start="let ghost mut verif_writes: int = 0; let ghost mut verif_grantable: bool = false;   /* W-ghost */",
         subs=[("Err(ctx::Canceled)", "Err(canceled_value())", None), ("std::cmp::min(", "verif_min_usize(   /* R-std */", None),
               ("sync::lock(ctx, &self.acquire).await?.into_async()", "lock_acquire(ctx, &self.acquire).await?   /* R-stub */"),
               ("sync::wait_for(ctx, &mut acquire, $C).await?", "wait_for_state(ctx, &mut acquire, $C, Ghost(self)).await?"),
               ("state.refresh_ticks + (state.reserved + permits).saturating_sub(state.permits) as i128",
                "{ let verif_need = state.refresh_ticks + (state.reserved + permits).saturating_sub(state.permits) as i128; "
                "proof { verif_grantable = state.can_grant(self, verif_need as int, permits as int) && verif_need < TICKS_BOUND; } verif_need }   /* W-ghost */"),
               ("Some(t) => time::Deadline::Finite(t),", "Some(t) => deadline_finite(t),"), ("None => time::Deadline::Infinite,", "None => deadline_infinite(),"),
               ("self.state.lock().unwrap().send_if_modified($C);",
                "state_commit(&self.state, need, permits, self, Ghost(verif_grantable)); proof { verif_writes = verif_writes + 1; }   /* R-stub: closure verified as acquire_commit_closure */"),
               (".await?", ".await.verif_nowrite(Ghost(verif_writes))?", 3)],
         closures=[dict(prefix="|s|", ty="&State", ret="b: bool", spec="requires {p}.inv(self) ensures b == (self.burst - {p}.reserved >= permits)")],
         spec="""
    // a cancelled wait consumes nothing: every early return happens before the single state write (assertions woven at each `?`)
    ensures r matches Ok(p) ==> p.permits == (if self.refresh <= 0 { 0 } else { permits }),
""")
    U.assume("A4: acquires are serialised by the `acquire` mutex and the state is changed only under the `state` mutex (closures run atomically); "
             "FIFO service order is tokio's fair mutex and is not decided")
    U.assume("A6: the i128 tick counter stays below 2^126 (it counts nanoseconds / refresh period)")
    U.assume("A2: time::Duration::new panics only on overflow of the seconds carry")
    return U
