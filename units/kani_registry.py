"""Kani harness groups: spliced as #[cfg(kani)] modules into a scratch copy of /repo/node (never into /repo)."""

GROUPS = {
    "thresholds": dict(
        crate="zksync_consensus_roles",
        splice=[("libs/roles/src/validator/messages/schedule.rs", "kani/thresholds.rs")],
        harnesses=[dict(name="thresholds_full_domain", kind="complete", timeout=1200)],
    ),
    "is_newer": dict(
        crate="zksync_consensus_roles",
        splice=[("libs/roles/src/validator/messages/discovery.rs", "kani/is_newer.rs")],
        harnesses=[dict(name="is_newer_strict_total_order", kind="complete", timeout=1800, quick=True)],
    ),
    "phase": dict(
        crate="zksync_consensus_roles",
        splice=[("libs/roles/src/validator/messages/v2/consensus.rs", "kani/phase.rs")],
        stubbing=True,
        harnesses=[dict(name="phase_roundtrip_prepare", kind="complete", timeout=600),
                   dict(name="phase_roundtrip_commit", kind="complete", timeout=600),
                   dict(name="phase_roundtrip_timeout", kind="complete", timeout=600),
                   dict(name="view_roundtrip", kind="complete", timeout=1800),
                   dict(name="replica_commit_roundtrip", kind="complete", timeout=1800)],
    ),
    "std_conv": dict(
        crate="zksync_protobuf",
        splice=[("libs/protobuf/src/std_conv.rs", "kani/std_conv.rs")],
        stubbing=True,
        # C09 (round trips) and C10 (totality of the decoders) run different subsets in their quick tier
        harnesses=[dict(name="duration_read_total", kind="complete", timeout=500, quick=True),
                   dict(name="duration_roundtrip", kind="complete", timeout=1200),
                   dict(name="duration_build_after_read_total", kind="complete", timeout=1200, quick=True),
                   dict(name="utc_read_total", kind="complete", timeout=500, quick=["C10"]),
                   dict(name="socket_addr_roundtrip", kind="complete", timeout=1800, quick=["C09"]),
                   dict(name="socket_addr_v6_scope_roundtrip", kind="complete", timeout=1800, quick=["C09"]),
                   dict(name="socket_addr_read_total", kind="bounded(ip field <= 20 bytes)", timeout=1800, quick=True)],
    ),
    "mux_header": dict(
        crate="zksync_consensus_network",
        splice=[("components/network/src/mux/header.rs", "kani/mux_header.rs")],
        harnesses=[dict(name="header_codec_bijection", kind="complete", timeout=900),
                   dict(name="header_encode_decode", kind="complete", timeout=900)],
    ),
    "noise_buffer": dict(
        crate="zksync_consensus_network",
        splice=[("components/network/src/noise/bytes.rs", "kani/noise_buffer.rs")],
        harnesses=[dict(name="buffer_ops_bounded", kind="bounded(capacity 6, 4 operations)", timeout=2400)],
    ),
}
