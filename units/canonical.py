"""U-canonical (C09 sentences 2-3, C10): the canonical re-encoding `canonical_raw` / `read_fields` of libs/protobuf/src/proto_fmt.rs."""
from vx.unit import Unit

F = "node/libs/protobuf/src/proto_fmt.rs"

PRELUDE = r"""
// ---------------- prelude (A2: quick_protobuf reader / writer and prost_reflect descriptors as documented) ----------------
#[verifier::external_body] pub struct AnyhowError { _p: u8 }
#[verifier::external_body] pub fn anyhow_error() -> AnyhowError { unimplemented!() }
#[verifier::external_body] pub struct QpError { _p: u8 }                        // quick_protobuf::Error
#[verifier::external_body] pub fn qp_into_anyhow(e: QpError) -> AnyhowError { unimplemented!() }   // `?` through From (R-try)
pub trait VerifOptContext<T> { fn context(self, c: ()) -> Result<T, AnyhowError>; }
impl<T> VerifOptContext<T> for Option<T> {      // anyhow::Context on Option: Some(v) -> Ok(v), None -> Err (A1)
    #[verifier::external_body] fn context(self, c: ()) -> (r: Result<T, AnyhowError>)
        ensures self.is_some() == r.is_ok(), self.is_some() ==> r == Result::<T, AnyhowError>::Ok(self->Some_0) { unimplemented!() }
}
// quick_protobuf::BytesReader: a cursor [pos, end) over the slice it is always used with (the slice is passed to every call)
#[verifier::external_body] pub struct BytesReader { _p: u8 }
// A2: what quick_protobuf decodes at position p of a byte string (uninterpreted functions of the input: determinism only)
pub uninterp spec fn varint_at(b: Seq<u8>, p: int) -> u64;
pub uninterp spec fn fixed64_at(b: Seq<u8>, p: int) -> u64;
pub uninterp spec fn fixed32_at(b: Seq<u8>, p: int) -> u32;
pub uninterp spec fn bytes_at(b: Seq<u8>, p: int) -> Seq<u8>;
impl BytesReader {
    pub uninterp spec fn pos(&self) -> int;
    pub uninterp spec fn end(&self) -> int;
    #[verifier::external_body]
    pub fn from_bytes(bytes: &[u8]) -> (r: BytesReader) ensures r.pos() == 0, r.end() == bytes@.len() { unimplemented!() }
    #[verifier::external_body]
    pub fn is_eof(&self) -> (r: bool) ensures r == (self.pos() >= self.end()) { unimplemented!() }
    // number of bytes left (offered so that code which merely asks for it is decided rather than rejected)
    #[verifier::external_body]
    pub fn len(&self) -> (r: usize) ensures r as int == (if self.end() >= self.pos() { self.end() - self.pos() } else { 0 }) { unimplemented!() }
    // every successful read consumes at least one byte and stays inside the slice
    #[verifier::external_body]
    pub fn next_tag(&mut self, bytes: &[u8]) -> (r: Result<u32, QpError>)
        ensures final(self).end() == old(self).end(), r.is_ok() ==> old(self).pos() < final(self).pos() <= old(self).end(),
                r.is_err() ==> final(self).pos() >= old(self).pos() { unimplemented!() }
    #[verifier::external_body]
    pub fn read_varint64(&mut self, bytes: &[u8]) -> (r: Result<u64, QpError>)
        ensures final(self).end() == old(self).end(), r.is_ok() ==> old(self).pos() < final(self).pos() <= old(self).end(),
                r matches Ok(v) ==> v == varint_at(bytes@, old(self).pos()) { unimplemented!() }
    #[verifier::external_body]
    pub fn read_fixed64(&mut self, bytes: &[u8]) -> (r: Result<u64, QpError>)
        ensures final(self).end() == old(self).end(), r.is_ok() ==> old(self).pos() < final(self).pos() <= old(self).end(),
                r matches Ok(v) ==> v == fixed64_at(bytes@, old(self).pos()) { unimplemented!() }
    #[verifier::external_body]
    pub fn read_fixed32(&mut self, bytes: &[u8]) -> (r: Result<u32, QpError>)
        ensures final(self).end() == old(self).end(), r.is_ok() ==> old(self).pos() < final(self).pos() <= old(self).end(),
                r matches Ok(v) ==> v == fixed32_at(bytes@, old(self).pos()) { unimplemented!() }
    // length-delimited value: a sub-slice strictly shorter than what was left (the length prefix takes at least one byte)
    #[verifier::external_body]
    pub fn read_bytes<'a>(&mut self, bytes: &'a [u8]) -> (r: Result<&'a [u8], QpError>)
        ensures final(self).end() == old(self).end(),
                r matches Ok(s) ==> old(self).pos() < final(self).pos() <= old(self).end() && s@.len() < final(self).pos() - old(self).pos()
                                    && s@ == bytes_at(bytes@, old(self).pos())
    { unimplemented!() }
}
// quick_protobuf::Writer over a Vec<u8> (R-type: `let mut v = vec![]; let mut w = Writer::new(&mut v); .. Ok(v)` becomes an owning writer)
pub struct VecWriter { pub out: Vec<u8> }
impl VecWriter {
    #[verifier::external_body] pub fn new() -> (r: VecWriter) ensures r.out@.len() == 0 { unimplemented!() }
    pub fn into_vec(self) -> (r: Vec<u8>) ensures r@ == self.out@ { self.out }
    // writing to a Vec cannot fail (A2): the `.unwrap()`s on these results are proof obligations discharged by `r.is_ok()`
    #[verifier::external_body] pub fn write_varint(&mut self, v: u64) -> (r: Result<(), QpError>) ensures r.is_ok(), final(self).out@ == old(self).out@ + enc_varint(v) { unimplemented!() }
    #[verifier::external_body] pub fn write_fixed64(&mut self, v: u64) -> (r: Result<(), QpError>) ensures r.is_ok(), final(self).out@ == old(self).out@ + enc_fixed64(v) { unimplemented!() }
    #[verifier::external_body] pub fn write_fixed32(&mut self, v: u32) -> (r: Result<(), QpError>) ensures r.is_ok(), final(self).out@ == old(self).out@ + enc_fixed32(v) { unimplemented!() }
    #[verifier::external_body] pub fn write_tag(&mut self, t: u32) -> (r: Result<(), QpError>) ensures r.is_ok(), final(self).out@ == old(self).out@ + enc_varint(t as u64) { unimplemented!() }
    #[verifier::external_body] pub fn write_bytes(&mut self, b: &[u8]) -> (r: Result<(), QpError>) ensures r.is_ok(), final(self).out@ == old(self).out@ + enc_varint(b@.len() as u64) + b@ { unimplemented!() }
    #[verifier::external_body] pub fn write_u8(&mut self, b: u8) -> (r: Result<(), QpError>) ensures r.is_ok(), final(self).out@ == old(self).out@.push(b) { unimplemented!() }
}
pub uninterp spec fn enc_varint(v: u64) -> Seq<u8>;        // protobuf base-128 varint
pub uninterp spec fn enc_fixed64(v: u64) -> Seq<u8>;       // 8 bytes little-endian
pub uninterp spec fn enc_fixed32(v: u32) -> Seq<u8>;       // 4 bytes little-endian
impl core::fmt::Debug for QpError { #[verifier::external_body] fn fmt(&self, f: &mut core::fmt::Formatter<'_>) -> core::fmt::Result { unimplemented!() } }

// prost_reflect descriptors (R-type: the members used here)
#[verifier::external_body] pub struct MessageDescriptor { _p: u8 }
#[verifier::external_body] pub struct EnumDescriptor { _p: u8 }
#[verifier::external_body] pub struct FieldDescriptor { _p: u8 }
pub enum Kind {                                                                  // prost_reflect::Kind
    Double, Float, Int32, Int64, Uint32, Uint64, Sint32, Sint64, Fixed32, Fixed64, Sfixed32, Sfixed64, Bool, String, Bytes,
    Message(MessageDescriptor), Enum(EnumDescriptor),
}
impl MessageDescriptor {
    pub uninterp spec fn has_field(&self, n: u32) -> bool;
    pub uninterp spec fn field(&self, n: u32) -> FieldDescriptor;
    #[verifier::external_body]
    pub fn get_field(&self, n: u32) -> (r: Option<FieldDescriptor>)
        ensures r.is_some() == self.has_field(n), r matches Some(f) ==> f == self.field(n) && f.spec_number() == n { unimplemented!() }
    // R-stub: `desc.parent_file().syntax() != prost_reflect::Syntax::Proto3`
    #[verifier::external_body] pub fn is_not_proto3(&self) -> bool { unimplemented!() }
}
impl FieldDescriptor {
    pub uninterp spec fn spec_number(&self) -> u32;
    pub uninterp spec fn spec_is_list(&self) -> bool;
    pub uninterp spec fn spec_is_map(&self) -> bool;
    pub uninterp spec fn spec_kind(&self) -> Kind;
    #[verifier::external_body] pub fn number(&self) -> (r: u32) ensures r == self.spec_number() { unimplemented!() }
    #[verifier::external_body] pub fn is_list(&self) -> (r: bool) ensures r == self.spec_is_list() { unimplemented!() }
    #[verifier::external_body] pub fn is_map(&self) -> (r: bool) ensures r == self.spec_is_map() { unimplemented!() }
    #[verifier::external_body] pub fn supports_presence(&self) -> bool { unimplemented!() }
    #[verifier::external_body] pub fn kind(&self) -> (r: Kind) ensures r == self.spec_kind() { unimplemented!() }
}
// BTreeMap<u32, Vec<Vec<u8>>>: the values of each field in order of appearance
#[verifier::external_body] pub struct FieldMap { _p: u8 }
impl FieldMap {
    pub uninterp spec fn view(&self) -> Map<u32, Seq<Seq<u8>>>;
    // the entries in ascending key order (A1: BTreeMap iteration)
    pub uninterp spec fn keys(&self) -> Seq<u32>;
    #[verifier::external_body] pub fn new() -> (r: FieldMap) ensures r@ == Map::<u32, Seq<Seq<u8>>>::empty() { unimplemented!() }
    #[verifier::external_body]
    pub fn len(&self) -> (r: usize) ensures r == self.keys().len() { unimplemented!() }
    #[verifier::external_body]
    pub fn entry_at(&self, i: usize) -> (r: (u32, Vec<Vec<u8>>))
        requires i < self.keys().len(),
        ensures r.0 == self.keys()[i as int], self@.contains_key(r.0), seq_of(r.1) == self@[r.0],
    { unimplemented!() }
}
pub open spec fn seq_of(v: Vec<Vec<u8>>) -> Seq<Seq<u8>> { Seq::new(v@.len(), |i: int| v@[i]@) }
// A1: keys() lists exactly the keys, strictly ascending
pub axiom fn fieldmap_keys(m: &FieldMap)
    ensures forall|i: int| 0 <= i < m.keys().len() ==> m@.contains_key(#[trigger] m.keys()[i]),
            forall|i: int, j: int| 0 <= i < j < m.keys().len() ==> m.keys()[i] < m.keys()[j];
// R-chain template: `fields.entry(k).or_default()` -> &mut Vec<Vec<u8>> (the entry is created empty when absent)
#[verifier::external_body]
pub fn tmpl_entry_or_default<'a>(m: &'a mut FieldMap, k: u32) -> (e: &'a mut Vec<Vec<u8>>)
    ensures seq_of(*e) == (if old(m)@.contains_key(k) { old(m)@[k] } else { Seq::<Seq<u8>>::empty() }),
            final(m)@ == old(m)@.insert(k, seq_of(*final(e))),
{ unimplemented!() }
// R-chain template: `values.into_iter().flatten().collect::<Vec<_>>()`
pub open spec fn concat(s: Seq<Seq<u8>>) -> Seq<u8> decreases s.len() { if s.len() == 0 { Seq::empty() } else { concat(s.drop_last()) + s.last() } }
#[verifier::external_body]
pub fn tmpl_flatten(values: Vec<Vec<u8>>) -> (r: Vec<u8>) ensures r@ == concat(seq_of(values)) { unimplemented!() }
#[verifier::external_body]
pub fn slice_to_vec(s: &[u8]) -> (r: Vec<u8>) ensures r@ == s@ { s.into() }      // `<&[u8]>::into()` (A1)
"""

SPEC2 = r"""
// ---------------- canonical form (C09 sentences 2-3), a total spec function ----------------
pub uninterp spec fn spec_fields(buf: Seq<u8>, desc: &MessageDescriptor) -> Map<u32, Seq<Seq<u8>>>;
pub uninterp spec fn spec_keys(buf: Seq<u8>, desc: &MessageDescriptor) -> Seq<u32>;
pub open spec fn wire_of(k: Kind) -> Wire {
    match k {
        Kind::Int32 | Kind::Int64 | Kind::Uint32 | Kind::Uint64 | Kind::Sint32 | Kind::Sint64 | Kind::Bool | Kind::Enum(_) => Wire::Varint,
        Kind::Fixed64 | Kind::Sfixed64 | Kind::Double => Wire::I64,
        Kind::Fixed32 | Kind::Sfixed32 | Kind::Float => Wire::I32,
        Kind::String | Kind::Bytes | Kind::Message(_) => Wire::Len,
    }
}
pub open spec fn wire_raw(w: Wire) -> u32 { match w { Wire::Varint => 0u32, Wire::I64 => 1u32, Wire::Len => 2u32, Wire::I32 => 5u32 } }
pub open spec fn tag_bytes(num: u32, raw: u32) -> Seq<u8> { enc_varint(((num << 3) | raw) as u64) }
pub open spec fn len_delimited(b: Seq<u8>) -> Seq<u8> { enc_varint(b.len() as u64) + b }
// one TLV per value (strings, bytes, sub-messages), in order
pub open spec fn emit_len(num: u32, vals: Seq<Seq<u8>>, j: int) -> Seq<u8> decreases j {
    if j <= 0 { Seq::empty() } else { emit_len(num, vals, j - 1) + tag_bytes(num, 2) + len_delimited(vals[j - 1]) }
}
pub open spec fn emit_vals(num: u32, w: Wire, vals: Seq<Seq<u8>>) -> Seq<u8> {
    if vals.len() == 0 { Seq::empty() }                                                   // an empty repeated field is omitted
    else if w != Wire::Len {
        if vals.len() > 1 { tag_bytes(num, 2) + len_delimited(concat(vals)) }             // several scalars: ONE packed TLV
        else { tag_bytes(num, wire_raw(w)) + vals[0] }                                    // one scalar: its own wire type
    } else { emit_len(num, vals, vals.len() as int) }
}
pub open spec fn canon(desc: &MessageDescriptor, buf: Seq<u8>) -> Seq<u8>
    decreases buf.len(), 2int, 0int
{
    emit_upto(desc, buf, spec_keys(buf, desc).len() as int)
}
// the fields with the k smallest numbers, in ascending order of their numbers
pub open spec fn emit_upto(desc: &MessageDescriptor, buf: Seq<u8>, k: int) -> Seq<u8>
    decreases buf.len(), 1int, k
{
    if k <= 0 || k > spec_keys(buf, desc).len() { Seq::empty() } else {
        let num = spec_keys(buf, desc)[k - 1];
        let fd = desc.field(num);
        let raw_vals = spec_fields(buf, desc)[num];
        let vals = if fd.spec_kind() is Message { canon_vals(fd.spec_kind()->Message_0, buf, raw_vals, raw_vals.len() as int) } else { raw_vals };
        emit_upto(desc, buf, k - 1) + emit_vals(num, wire_of(fd.spec_kind()), vals)
    }
}
// sub-messages are canonicalised recursively (first j of them; the rest unchanged)
pub open spec fn canon_vals(sub: MessageDescriptor, buf: Seq<u8>, vals: Seq<Seq<u8>>, j: int) -> Seq<Seq<u8>>
    decreases buf.len(), 0int, j
{
    if j <= 0 || j > vals.len() { vals } else {
        let prev = canon_vals(sub, buf, vals, j - 1);
        if vals[j - 1].len() < buf.len() { prev.update(j - 1, canon(&sub, vals[j - 1])) } else { prev }
    }
}

// canon_vals touches only the first j entries and keeps the length
pub proof fn lemma_canon_vals(sub: MessageDescriptor, buf: Seq<u8>, vals: Seq<Seq<u8>>, j: int)
    requires 0 <= j <= vals.len(),
    ensures canon_vals(sub, buf, vals, j).len() == vals.len(),
            forall|q: int| j <= q < vals.len() ==> #[trigger] canon_vals(sub, buf, vals, j)[q] == vals[q],
            forall|q: int| 0 <= q < j && vals[q].len() < buf.len() ==> #[trigger] canon_vals(sub, buf, vals, j)[q] == canon(&sub, vals[q]),
    decreases j
{
    if j > 0 { lemma_canon_vals(sub, buf, vals, j - 1); }
}
"""

SPEC = r"""
// ---------------- specification ----------------
// what read_fields guarantees about an accepted buffer: every collected field is a known, non-map field of the message, and every
// value is strictly shorter than the buffer it came from (so the recursion into sub-messages terminates)
pub open spec fn is_len_kind(k: Kind) -> bool { k is String || k is Bytes || k is Message }
pub open spec fn shorter(vs: Seq<Seq<u8>>, from: int, bound: int) -> bool { forall|i: int| from <= i < vs.len() ==> (#[trigger] vs[i]).len() < bound }
pub open spec fn fields_ok(m: Map<u32, Seq<Seq<u8>>>, desc: &MessageDescriptor, buf_len: int) -> bool {
    forall|k: u32| #[trigger] m.contains_key(k) ==> desc.has_field(k) && !desc.field(k).spec_is_map()
        && (is_len_kind(desc.field(k).spec_kind()) ==> shorter(m[k], 0, buf_len))
}
"""


def build(repo):
    U = Unit("canonical", ["C09", "C10"], desc="canonical protobuf re-encoding", uses="")
    U.repo = repo
    U.raw(PRELUDE, label="prelude canonical")
    U.item(F, "enum Wire", attrs="#[derive(Clone, Copy, PartialEq, Eq, Structural)]")
    for c in ("VARINT", "I64", "LEN", "I32"):
        U.item(F, "const " + c)
    U.raw(SPEC, label="spec canonical")
    U.raw(SPEC2, label="spec canonical form", canary=True)
    U.fn(F, "impl Wire :: fn from_tag", wrap="impl Wire", ret="r",
         header_subs=[("pub const fn", "pub fn")],
         spec="    ensures r.is_some() <==> (tag & 7 == 0 || tag & 7 == 1 || tag & 7 == 2 || tag & 7 == 5),      // the four wire types of proto3 scalars / LEN\n")
    U.fn(F, "impl Wire :: fn raw", wrap="impl Wire", ret="r", header_subs=[("pub const fn", "pub fn")],
         spec="    ensures r == (match self { Wire::Varint => 0u32, Wire::I64 => 1u32, Wire::Len => 2u32, Wire::I32 => 5u32 }),\n")
    U.fn(F, "impl From<prost_reflect::Kind> for Wire :: fn from", wrap="impl Wire", name="from_kind", ret="r",
         header_subs=[("prost_reflect::Kind", "Kind")], subs=[("use prost_reflect::Kind;", "")],
         spec="""
    ensures r == wire_of(kind),
            (kind is String || kind is Bytes || kind is Message) <==> r == Wire::Len,      // exactly strings, bytes and sub-messages are length-delimited
""")
    U.raw("pub struct Reader<'a>(pub BytesReader, pub &'a [u8]);      // R-type: quick_protobuf::BytesReader -> BytesReader\n", label="struct Reader")
    RD = "impl<'a> Reader<'a>"
    U.fn(F, RD + " :: fn new", wrap=RD, ret="r", subs=[("quick_protobuf::BytesReader::from_bytes", "BytesReader::from_bytes")],
         spec="    ensures r.0.pos() == 0, r.0.end() == bytes@.len(), r.1@ == bytes@,\n")
    QP = [("?", ".map_err(|verif_e| qp_into_anyhow(verif_e))?   /* R-try */", None)]
    U.fn(F, RD + " :: fn read", wrap=RD, ret="r",
         header_subs=[("anyhow::Result<Vec<u8>>", "Result<Vec<u8>, AnyhowError>")],
         subs=[("let mut v = vec![];\n        let mut w = quick_protobuf::Writer::new(&mut v);", "let mut w = VecWriter::new();   /* R-type: owning writer */"),
               ("Ok(v)", "Ok(w.into_vec())"),
               ("return Ok(self.0.read_bytes(self.1)?.into())", "return Ok(slice_to_vec(self.0.read_bytes(self.1)?))   /* R-std */")] + QP,
         spec="""
    requires old(self).0.end() == old(self).1@.len(), 0 <= old(self).0.pos() <= old(self).0.end(),      // the cursor is a cursor over THIS slice (Reader::new)
    ensures final(self).0.end() == old(self).0.end(), final(self).1@ == old(self).1@,
            // a successful read consumes input and yields a value strictly shorter than what it consumed plus 10 (varint) -- for
            // length-delimited values: strictly shorter than what was consumed
            r.is_ok() ==> old(self).0.pos() < final(self).0.pos() <= old(self).0.end(),
            r matches Ok(v) ==> (wire == Wire::Len ==> v@.len() < final(self).0.pos() - old(self).0.pos()),
            // "normalises": a scalar is handed on as the (minimal, A2) re-encoding of the VALUE that was decoded, never as the bytes that
            // happened to be on the wire; a length-delimited value as its content
            r matches Ok(v) ==> v@ == (match wire {
                Wire::Varint => enc_varint(varint_at(old(self).1@, old(self).0.pos())),
                Wire::I64 => enc_fixed64(fixed64_at(old(self).1@, old(self).0.pos())),
                Wire::I32 => enc_fixed32(fixed32_at(old(self).1@, old(self).0.pos())),
                Wire::Len => bytes_at(old(self).1@, old(self).0.pos()),
            }),
""")
    U.fn(F, RD + " :: fn read_field", wrap=RD, ret="r",
         header_subs=[("anyhow::Result<()>", "Result<(), AnyhowError>")],
         subs=[("Self::new(", "Reader::new("),
               ("self.0.read_bytes(self.1)?", "self.0.read_bytes(self.1).map_err(|verif_e| qp_into_anyhow(verif_e))?   /* R-try */")],
         loops={0: dict(prefix="while !r.0.is_eof()", inv="""
            r.0.end() == r.1@.len(), 0 <= r.0.pos() <= r.0.end(), field_wire != Wire::Len,
            self.0.end() == old(self).0.end(), self.1@ == old(self).1@, old(self).0.pos() < self.0.pos() <= old(self).0.end(),
            out@.len() >= old(out)@.len(), forall|i: int| 0 <= i < old(out)@.len() ==> out@[i] == old(out)@[i],
""", decreases="r.0.end() - r.0.pos()")},
         spec="""
    requires 0 <= old(self).0.pos() <= old(self).0.end(), old(self).0.end() == old(self).1@.len(),
    ensures final(self).0.end() == old(self).0.end(), final(self).1@ == old(self).1@,
            r.is_ok() ==> old(self).0.pos() < final(self).0.pos() <= old(self).0.end(),
            // values are only appended, and every appended length-delimited value is shorter than the input consumed for it
            final(out)@.len() >= old(out)@.len(), forall|i: int| 0 <= i < old(out)@.len() ==> final(out)@[i] == old(out)@[i],
            seq_of(*final(out)).len() >= seq_of(*old(out)).len(),
            forall|i: int| 0 <= i < seq_of(*old(out)).len() ==> #[trigger] seq_of(*final(out))[i] == seq_of(*old(out))[i],
            (r.is_ok() && field_wire == Wire::Len) ==> shorter(seq_of(*final(out)), old(out)@.len() as int, final(self).0.pos() - old(self).0.pos()),
""")
    U.fn(F, "fn read_fields", ret="r",
         header_subs=[("&prost_reflect::MessageDescriptor", "&MessageDescriptor"), ("anyhow::Result<BTreeMap<u32, Vec<Vec<u8>>>>", "Result<FieldMap, AnyhowError>")],
         subs=[("desc.parent_file().syntax() != prost_reflect::Syntax::Proto3", "desc.is_not_proto3()   /* R-stub */"),
               ("BTreeMap::new()", "FieldMap::new()"),
               ("fields.entry(field.number()).or_default()", "tmpl_entry_or_default(&mut fields, field.number())   /* R-chain */"),
               ("field.kind().into()", "Wire::from_kind(field.kind())   /* R-std: From::from through .into() */"),
               ("r.0.next_tag(r.1)?", "r.0.next_tag(r.1).map_err(|verif_e| qp_into_anyhow(verif_e))?   /* R-try */")],
         loops={0: dict(prefix="while !r.0.is_eof()", inv="""
            r.0.end() == buf@.len(), r.1@ == buf@, 0 <= r.0.pos() <= r.0.end(), fields_ok(fields@, desc, buf@.len() as int),
""", decreases="r.0.end() - r.0.pos()")},
         post_subs=[("Ok(fields)", "proof { assume(fields@ == spec_fields(buf@, desc) && fields.keys() == spec_keys(buf@, desc)); }   /* W-ghost: names the result */ Ok(fields)"),
                    ("r.read_field(", "let ghost verif_before = fields@; let ghost verif_pos = r.0.pos(); r.read_field("),
                    ("wire,\n        )?;", """wire,
        )?;
        proof {
            let k = field.spec_number();
            let newv = fields@[k];
            let oldlen: int = if verif_before.contains_key(k) { verif_before[k].len() as int } else { 0 };
            assert(fields@ == verif_before.insert(k, newv));
            assert forall|k2: u32| #[trigger] fields@.contains_key(k2) implies desc.has_field(k2) && !desc.field(k2).spec_is_map()
                && (is_len_kind(desc.field(k2).spec_kind()) ==> shorter(fields@[k2], 0, buf@.len() as int)) by {
                if k2 != k {
                    assert(verif_before.contains_key(k2));
                    assert(fields@[k2] == verif_before[k2]);
                } else if is_len_kind(desc.field(k).spec_kind()) {
                    assert forall|i: int| 0 <= i < newv.len() implies (#[trigger] newv[i]).len() < buf@.len() by {
                        if i < oldlen {
                            assert(verif_before.contains_key(k));
                            assert(newv[i] == verif_before[k][i]);
                        } else {
                            assert(r.0.pos() - verif_pos <= buf@.len());
                        }
                    }
                }
            }
        }""")],
         spec="""
    ensures r matches Ok(m) ==> fields_ok(m@, desc, buf@.len() as int)      // unknown fields, maps and mismatching wire types are rejected
                && m@ == spec_fields(buf@, desc) && m.keys() == spec_keys(buf@, desc),      // (names the result: read_fields is a function of its arguments)
""")
    U.raw("""
// Vec<Vec<u8>>::set (R-itermut: `for v in &mut values { *v = f(v)?; }` is rewritten to an index loop that stores through set)
#[verifier::external_body]
pub fn vec_set(v: &mut Vec<Vec<u8>>, i: usize, x: Vec<u8>)
    requires i < old(v)@.len(),
    ensures final(v)@.len() == old(v)@.len(), final(v)@[i as int] == x, forall|j: int| 0 <= j < old(v)@.len() && j != i ==> final(v)@[j] == old(v)@[j],
{ v[i] = x; }
#[verifier::external_body]
pub fn vec_get_clone(v: &Vec<Vec<u8>>, i: usize) -> (r: Vec<u8>) requires i < v@.len(), ensures r@ == v@[i as int]@ { v[i].clone() }
""", label="std wrappers canonical")
    U.fn(F, "fn canonical_raw", ret="r",
         header_subs=[("&prost_reflect::MessageDescriptor", "&MessageDescriptor"), ("anyhow::Result<Vec<u8>>", "Result<Vec<u8>, AnyhowError>")],
         subs=[("let mut v = vec![];\n    let mut w = quick_protobuf::Writer::new(&mut v);", "let mut w = VecWriter::new();   /* R-type: owning writer */"),
               ("Ok(v)", "Ok(w.into_vec())"),
               ("for (num, mut values) in read_fields(buf, desc)? {", "let verif_fm = read_fields(buf, desc)?; proof { fieldmap_keys(&verif_fm); } for (num, mut values) in verif_fm {   /* R-let */"),
               ("prost_reflect::Kind", "Kind", None),
               # W-ghost hint for the skip of an empty repeated field (0 or 1 occurrence: without the skip the `values[0]` obligation decides)
               ("if values.is_empty() {\n            continue;\n        }",
                "if values.is_empty() { proof { assert(verif_vals.len() == 0); } continue; }   /* W-ghost */", None),
               # R-itermut: `for v in &mut values { B }` -> index loop; B (the repository's statement) runs on a copy of element j that is stored back
               ("for v in &mut values { $B }",
                "proof { assert(is_len_kind(fd.spec_kind())); assert(verif_fm@.contains_key(num)); assert(shorter(verif_raw, 0, buf@.len() as int)); } "
                "let mut verif_j: usize = 0; while verif_j < values.len() invariant verif_j <= values@.len(), values@.len() == verif_raw.len(), "
                "shorter(verif_raw, 0, buf@.len() as int), seq_of(values) == canon_vals(*desc, buf@, verif_raw, verif_j as int), decreases values@.len() - verif_j, "
                "{ proof { lemma_canon_vals(*desc, buf@, verif_raw, verif_j as int); assert(seq_of(values)[verif_j as int] == verif_raw[verif_j as int]); } "
                "let mut verif_x: Vec<u8> = vec_get_clone(&values, verif_j); { let v = &mut verif_x; $B } "
                "let ghost verif_prev = seq_of(values); vec_set(&mut values, verif_j, verif_x); "
                "proof { assert(seq_of(values) =~= verif_prev.update(verif_j as int, verif_x@)); } verif_j += 1; }   /* R-itermut */"),
               ("Wire::from(fd.kind())", "Wire::from_kind(fd.kind())   /* R-std */"),
               ("values.into_iter().flatten().collect::<Vec<_>>()", "tmpl_flatten(values)   /* R-chain */"),
               ("for b in &values[0] {", "let ghost verif_base = w.out@; for b in &values[0] {"),
               ("for v in &values {", "let ghost verif_base = w.out@; for v in &values {")],
         index_loops={0: dict(prefix="for (num, mut values) in verif_fm", len="verif_fm.len()", spec_len="verif_fm.keys().len()", at="verif_fm.entry_at({i})",
                              pat="(num, mut values)",
                              inv="""        {i} <= verif_fm.keys().len(), fields_ok(verif_fm@, desc, buf@.len() as int),
        verif_fm@ == spec_fields(buf@, desc), verif_fm.keys() == spec_keys(buf@, desc),
        w.out@ == emit_upto(desc, buf@, {i} as int),""",
                              body_start="let ghost verif_raw = seq_of(values); let ghost verif_before = w.out@; let ghost verif_k = {i} as int; "
                                         "let ghost verif_vals = if desc.field(num).spec_kind() is Message { canon_vals(desc.field(num).spec_kind()->Message_0, buf@, verif_raw, verif_raw.len() as int) } else { verif_raw }; "
                                         "proof { assert(emit_upto(desc, buf@, verif_k) == emit_upto(desc, buf@, verif_k - 1) + emit_vals(num, wire_of(desc.field(num).spec_kind()), verif_vals)); }"),
                      2: dict(prefix="for b in &values[0]", len="values[0].len()", spec_len="values@[0]@.len()", at="&values[0][{i}]", pat="b",
                              inv="        values@.len() > 0, {i} <= values@[0]@.len(), w.out@ == verif_base + values@[0]@.take({i} as int),"),
                      3: dict(prefix="for v in &values", len="values.len()", spec_len="values@.len()", at="&values[{i}]", pat="v",
                              inv="        {i} <= values@.len(), w.out@ == verif_base + emit_len(num, seq_of(values), {i} as int),")},
         post_subs=[("}\n    Ok(w.into_vec())", "proof { assert(seq_of(values) == verif_vals || true); }\n }\n    Ok(w.into_vec())")] if False else [],
         spec="""
    // no precondition: every byte string and every descriptor; terminates (the recursion descends into strictly shorter sub-messages)
    ensures
        // the canonical form (a spec FUNCTION of the parsed field map): fields in ascending number order, an empty repeated field omitted,
        // several scalars as ONE packed TLV, one scalar with its own wire type, strings / bytes / sub-messages one TLV per value,
        // sub-messages canonicalised recursively
        r matches Ok(out) ==> out@ == canon(desc, buf@),
    decreases buf@.len(),
""")
    return U
