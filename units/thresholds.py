"""U-thresholds (C07): max_faulty_weight / quorum_threshold / subquorum_threshold and their arithmetic."""
from vx.unit import Unit

F = "node/libs/roles/src/validator/messages/schedule.rs"


def build(repo):
    U = Unit("thresholds", ["C07"], desc="threshold arithmetic of the validator schedule")
    U.repo = repo
    U.raw("""
// ---- specification, written from the property statement (C07) ----
pub open spec fn spec_f(n: nat) -> nat { if n >= 1 { ((n - 1) / 5) as nat } else { 0 } }
pub open spec fn spec_quorum(n: nat) -> int { n - spec_f(n) }
pub open spec fn spec_subquorum(n: nat) -> int { n - 3 * spec_f(n) }
""", label="spec")
    U.fn(F, "fn max_faulty_weight", ret="r", spec="""
    requires total_weight >= 1,
    ensures r as nat == spec_f(total_weight as nat),
""")
    U.fn(F, "fn quorum_threshold", ret="r", spec="""
    requires total_weight >= 1,
    ensures r as int == spec_quorum(total_weight as nat),
""")
    U.fn(F, "fn subquorum_threshold", ret="r", spec="""
    requires total_weight >= 1,
    ensures r as int == spec_subquorum(total_weight as nat),
""")
    U.raw("""
// ---- the inequalities of the statement, for every n >= 1 (no bound) ----
pub proof fn thresholds_intersect(n: nat)
    requires n >= 1,
    ensures
        5 * spec_f(n) + 1 <= n,                                         // n >= 5f+1
        2 * spec_quorum(n) - n > spec_f(n),                             // two quorums share more than f
        2 * spec_quorum(n) - n - spec_f(n) >= spec_subquorum(n),        // commit ∩ timeout quorum, minus faulty, reaches the sub-quorum
        2 * spec_f(n) < spec_subquorum(n),                              // conflicting reporters (<= 2f) stay below the sub-quorum
        spec_quorum(n) + spec_subquorum(n) > n + spec_f(n),
        1 <= spec_subquorum(n) <= spec_quorum(n) <= n,
        spec_f(n) < spec_quorum(n),
{
}

// the three computations are functions of n that fit u64 whenever n does (no overflow possible)
pub proof fn thresholds_fit(n: nat)
    requires 1 <= n <= u64::MAX,
    ensures 0 <= spec_f(n) <= u64::MAX, 0 <= spec_quorum(n) <= u64::MAX, 0 <= spec_subquorum(n) <= u64::MAX,
            3 * spec_f(n) <= u64::MAX,
{
}
""", label="lemmas", canary=True)
    U.assume("A6: none — u64 arithmetic in the three functions is checked for overflow/underflow by Verus, "
             "spec integers appear only in ghost code")
    return U
