"""U-handlers (C19, C18, C08): the gossip RPC handlers of one connection (gossip/runner.rs): what a peer's push_block_store_state /
push_validator_addrs / get_block request does to the node, and the state a connection starts from."""
from vx.unit import Unit
from units import roles_types as T
from units import common

F_RUN = "node/components/network/src/gossip/runner.rs"
F_GOS = "node/components/network/src/gossip/mod.rs"
F_BS = "node/libs/engine/src/block_store.rs"

PRELUDE = r"""
// ---------------- prelude (A4: tokio watch channel as documented; A5: engine manager contracts proved in unit blockstore) ----------------
#[verifier::external_body] pub struct Ctx { _p: u8 }
#[verifier::external_body] pub struct AnyhowError { _p: u8 }
#[verifier::external_body] pub fn anyhow_error() -> AnyhowError { unimplemented!() }
pub enum CtxError { Canceled(()), Internal(AnyhowError) }
pub const kB: usize = 1024;                                                   // zksync_protobuf::kB
// engine::Last: the last stored block (number or commit certificate); only its number matters here (Last::number is under contract in unit blockstore)
#[verifier::external_body] pub struct Last { _p: u8 }
impl Clone for Last { #[verifier::external_body] fn clone(&self) -> (r: Self) ensures r == *self { unimplemented!() } }   // A1: derive(Clone)
impl PartialEq for Last { #[verifier::external_body] fn eq(&self, o: &Self) -> (r: bool) { unimplemented!() } }      // A1: derive(PartialEq) is structural
impl PartialEqSpecImpl for Last {
    open spec fn obeys_eq_spec() -> bool { true }
    open spec fn eq_spec(&self, o: &Self) -> bool { *self == *o }
}
impl Last {
    pub uninterp spec fn num(&self) -> BlockNumber;
    #[verifier::external_body] pub fn number(&self) -> (r: BlockNumber) ensures r == self.num() { unimplemented!() }
}
"""

SPEC = r"""
// ---------------- specification (C19: "only to a peer that has announced that it stores that block") ----------------
impl BlockStoreState {
    // the announcement says that block n is stored
    pub open spec fn spec_contains(&self, n: BlockNumber) -> bool { self.last.is_some() && self.first.0 <= n.0 <= self.last.unwrap().num().0 }
    pub open spec fn valid(&self) -> bool { self.last.is_some() ==> self.first.0 <= self.last.unwrap().num().0 }
}
// sync::watch::Sender<BlockStoreState> of one connection: the peer's latest announcement, read by Queue::accept_block (unit fetch)
#[verifier::external_body] pub struct AvailableSender { _p: u8 }
#[verifier::external_body] pub struct AvailableReceiver { _p: u8 }
impl AvailableSender { pub uninterp spec fn chan(&self) -> int; }
// history fact: `st` became the value of channel `chan` (A4). Produced by exactly the stubs below; every value a subscriber of the
// channel can observe (`announced(chan, st)` of unit fetch) is one of these.
pub uninterp spec fn stored(chan: int, st: BlockStoreState) -> bool;
#[verifier::external_body]
pub fn watch_channel(init: BlockStoreState) -> (r: (AvailableSender, AvailableReceiver))
    // a fresh connection must not claim any block on the peer's behalf
    requires forall|n: BlockNumber| !init.spec_contains(n),
    ensures stored(r.0.chan(), init),
{ unimplemented!() }
impl AvailableSender {
    // tokio: send_replace stores the value unconditionally and wakes the subscribers
    #[verifier::external_body]
    pub fn send_replace(&self, v: BlockStoreState) -> (r: BlockStoreState) ensures stored(self.chan(), v) { unimplemented!() }
    // tokio: send fails WITHOUT storing when there is no receiver
    #[verifier::external_body]
    pub fn send(&self, v: BlockStoreState) -> (r: Result<(), BlockStoreState>) ensures r.is_ok() ==> stored(self.chan(), v) { unimplemented!() }
    // tokio: the closure edits the value in place; what it leaves behind is the stored value whether or not it asks for a wake-up
    #[verifier::external_body]
    pub fn send_if_modified<F: FnOnce(&mut BlockStoreState) -> bool>(&self, f: F) -> (r: bool)
        requires forall|s: &mut BlockStoreState| #[trigger] f.requires((s,)),
        ensures exists|s: &mut BlockStoreState| #[trigger] f.ensures((s,), r) && stored(self.chan(), *final(s)),
    { unimplemented!() }
    #[verifier::external_body]
    pub fn send_modify<F: FnOnce(&mut BlockStoreState)>(&self, f: F)
        requires forall|s: &mut BlockStoreState| #[trigger] f.requires((s,)),
        ensures exists|s: &mut BlockStoreState| #[trigger] f.ensures((s,), ()) && stored(self.chan(), *final(s)),
    { unimplemented!() }
    #[verifier::external_body] pub fn subscribe(&self) -> AvailableReceiver { unimplemented!() }
    #[verifier::external_body] pub fn borrow(&self) -> (r: &BlockStoreState) ensures stored(self.chan(), *r) { unimplemented!() }
}
"""

NET = r"""
// ---------------- gossip::Network as far as the handlers use it ----------------
#[verifier::external_body] pub struct Schedule { _p: u8 }                     // validator::Schedule (unit leader)
#[verifier::external_body] pub struct Block { _p: u8 }                        // validator::Block (unit blockstore)
impl Block { pub uninterp spec fn num(&self) -> BlockNumber; }
pub struct ScheduleWithLifetime { pub schedule: Schedule, pub activation_block: BlockNumber, pub expiration_block: Option<BlockNumber> }
#[verifier::external_body] pub struct EngineManager { _p: u8 }
impl EngineManager {
    pub uninterp spec fn spec_first_block(&self) -> BlockNumber;
    // the schedule the engine manager holds for an epoch (its epoch_schedule map, maintained by EngineManagerRunner)
    pub uninterp spec fn schedule_of(&self, e: EpochNumber) -> Option<ScheduleWithLifetime>;
    #[verifier::external_body] pub fn first_block(&self) -> (r: BlockNumber) ensures r == self.spec_first_block() { unimplemented!() }
    #[verifier::external_body]
    pub fn validator_schedule(&self, epoch: EpochNumber) -> (r: Option<ScheduleWithLifetime>) ensures r == self.schedule_of(epoch) { unimplemented!() }
    // unit blockstore (EngineManager::get_block is under contract there): only THE block with the requested number is returned
    #[verifier::external_body]
    pub async fn get_block(&self, ctx: &Ctx, number: BlockNumber) -> (r: Result<Option<Block>, CtxError>)
        ensures r matches Ok(Some(b)) ==> b.num() == number { unimplemented!() }
}
#[verifier::external_body] pub struct SignedNetAddress { _p: u8 }             // Arc<validator::Signed<validator::NetAddress>>
#[verifier::external_body] pub struct ValidatorAddrsWatch { _p: u8 }
// history fact: the batch `data` was handed to the address book IN ONE PIECE together with committee `s` (unit addrs: an accepted batch is
// applied completely, a rejected one is never published -- both are statements about the batch given to ONE call of update)
pub uninterp spec fn offered(w: &ValidatorAddrsWatch, s: &Schedule, data: Seq<SignedNetAddress>) -> bool;
impl ValidatorAddrsWatch {
    #[verifier::external_body]
    pub async fn update(&self, validators: &Schedule, data: &[SignedNetAddress]) -> (r: Result<(), AnyhowError>)
        ensures r.is_ok() ==> offered(self, validators, data@) { unimplemented!() }
}
#[verifier::external_body] pub struct AtomicUsize { _p: u8 }
#[verifier::external_body] pub struct AtomicOrdering { _p: u8 }
impl AtomicOrdering { #[verifier::external_body] pub fn seq_cst() -> Self { unimplemented!() } }
impl AtomicUsize { #[verifier::external_body] pub fn fetch_add(&self, v: usize, o: AtomicOrdering) -> usize { unimplemented!() } }
pub struct Config { pub max_block_size: usize, pub max_tx_size: usize }      // R-type: the size limits of gossip::Config
pub struct Network {      // R-type: the members of gossip::Network the handlers use
    pub cfg: Config,
    pub epoch_number: Option<EpochNumber>,
    pub engine_manager: EngineManager,
    pub validator_addrs: ValidatorAddrsWatch,
    pub push_validator_addrs_calls: AtomicUsize,
}
pub struct PushValidatorAddrsReq(pub Vec<SignedNetAddress>);                 // rpc::push_validator_addrs::Req
pub struct PushBlockStoreStateReq { pub state: BlockStoreState }             // rpc::push_block_store_state::Req
pub struct GetBlockReq(pub BlockNumber);                                      // rpc::get_block::Req
pub struct GetBlockResp(pub Option<Block>);                                   // rpc::get_block::Resp
"""


def build(repo):
    U = Unit("handlers", ["C19", "C18", "C08", "C10"], desc="gossip RPC handlers of one connection", uses=T.USES)
    U.repo = repo
    U.item(T.F_BLOCK, "struct BlockNumber", attrs=T.D_COPY)
    U.item(T.F_CONS, "struct EpochNumber", attrs=T.D_COPY)
    U.raw("pub open spec fn ord_u64(a: u64, b: u64) -> Ordering {\n    if a < b { Ordering::Less } else if a == b { Ordering::Equal } else { Ordering::Greater } }\n", label="ord")
    U.raw(T.ord_newtype("BlockNumber"), label="derive(PartialOrd) spec")
    U.raw(common.STD_COMBINATORS + PRELUDE, label="prelude handlers")
    NB = [("validator::BlockNumber", "BlockNumber", None)]
    U.item(F_BS, "struct BlockStoreState", subs=NB)
    U.raw(T.clone_impl("BlockStoreState") + """
impl PartialEq for BlockStoreState { #[verifier::external_body] fn eq(&self, o: &Self) -> (r: bool) { unimplemented!() } }      // A1: derive(PartialEq) is structural
impl PartialEqSpecImpl for BlockStoreState {
    open spec fn obeys_eq_spec() -> bool { true }
    open spec fn eq_spec(&self, o: &Self) -> bool { *self == *o }
}
""" + SPEC + NET, label="spec handlers")
    # the two BlockStoreState functions the fetch path relies on (also under contract in unit blockstore, against the real `Last`)
    U.fn(F_BS, "impl BlockStoreState :: fn contains", wrap="impl BlockStoreState", ret="r", header_subs=NB, props=["C19"],
         spec="    ensures r == self.spec_contains(number),\n")
    U.fn(F_BS, "impl BlockStoreState :: fn verify", wrap="impl BlockStoreState", ret="r", props=["C19"],
         header_subs=[("anyhow::Result<()>", "Result<(), AnyhowError>")],
         spec="    ensures r.is_ok() <==> self.valid(),\n")
    # ---- Network accessors
    U.fn(F_GOS, "impl Network :: fn first_block", wrap="impl Network", ret="r", header_subs=NB, props=["C19"],
         spec="    ensures r == self.engine_manager.spec_first_block(),\n")
    U.fn(F_GOS, "impl Network :: fn validator_schedule", wrap="impl Network", ret="r", props=["C18"],
         header_subs=[("anyhow::Result<Option<validator::Schedule>>", "Result<Option<Schedule>, AnyhowError>")],
         spec="""
    ensures
        // the committee used for the address book is the one the engine manager holds for THIS network's epoch
        r matches Ok(Some(s)) ==> self.epoch_number matches Some(e) && self.engine_manager.schedule_of(e) matches Some(l) && l.schedule == s,
        r matches Ok(None) ==> self.epoch_number.is_none(),
""")
    # ---- PushServer
    U.item(F_RUN, "struct PushServer", subs=[("sync::watch::Sender<BlockStoreState>", "AvailableSender")])
    U.fn(F_RUN, "impl<'a> PushServer<'a> :: fn new", wrap="impl<'a> PushServer<'a>", ret="r", props=["C19"],
         subs=[("sync::watch::channel($A)", "watch_channel($A)   /* R-std: precondition = the initial announcement claims no block */")],
         spec="    ensures true,     // the obligation is the precondition of watch_channel\n")
    HS = [("ctx::Ctx", "Ctx")]   # Self is `&PushServer`: `&self` auto-derefs to the same fields inside `impl PushServer`
    U.fn(F_RUN, "impl rpc::Handler<rpc::push_block_store_state::Rpc> for &PushServer<'_> :: fn handle", name="handle_push_block_store_state", wrap="impl<'a> PushServer<'a>",
         ret="r", props=["C19"],
         header_subs=HS + [("rpc::push_block_store_state::Req", "PushBlockStoreStateReq"), ("anyhow::Result<()>", "Result<(), AnyhowError>")],
         # should the handler ever edit the stored value in place, the closure has to leave exactly the announced state behind
         closures=[dict(after=".send_if_modified(", optional=True, ty="&mut BlockStoreState", ret="verif_b: bool", spec="ensures *final({p}) == req.state"),
                   dict(after=".send_modify(", optional=True, ty="&mut BlockStoreState", spec="ensures *final({p}) == req.state")],
         spec="""
    ensures
        // every announcement the peer makes REPLACES what this connection believes the peer stores (in particular one that only raises
        // `first`: the peer pruned): after Ok the connection's channel holds exactly the announced state
        r.is_ok() ==> stored(self.blocks.chan(), req.state),
""")
    U.fn(F_RUN, "impl rpc::Handler<rpc::push_validator_addrs::Rpc> for &PushServer<'_> :: fn handle", name="handle_push_validator_addrs", wrap="impl<'a> PushServer<'a>",
         ret="r", props=["C18"],
         header_subs=HS + [("rpc::push_validator_addrs::Req", "PushValidatorAddrsReq"), ("anyhow::Result<()>", "Result<(), AnyhowError>")],
         subs=[("Ordering::SeqCst", "AtomicOrdering::seq_cst()")],
         spec="""
    ensures
        // a peer's batch reaches the address book in one piece, together with the committee of this network's epoch
        // ("a batch that is rejected leaves the address book unchanged" is a statement about the batch handed to one update() call)
        r.is_ok() ==> (self.net.epoch_number matches Some(e) ==>
            exists|s: &Schedule| self.net.engine_manager.schedule_of(e) matches Some(l) && l.schedule == *s
                                 && #[trigger] offered(&self.net.validator_addrs, s, req.0@)),
""")
    # ---- request size limits (C10: "never buffers more than its configured limits"): the limit the RPC server passes to mux_recv_proto
    U.fn(F_RUN, "impl rpc::Handler<rpc::push_tx::Rpc> for &PushServer<'_> :: fn max_req_size", name="max_req_size_push_tx",
         wrap="impl<'a> PushServer<'a>", ret="r", props=["C10"],
         spec="    ensures r == self.net.cfg.max_tx_size,      // a pushed transaction is buffered up to the CONFIGURED transaction size, nothing else\n")
    for rpc_name in ("push_validator_addrs", "push_block_store_state"):
        U.fn(F_RUN, "impl rpc::Handler<rpc::%s::Rpc> for &PushServer<'_> :: fn max_req_size" % rpc_name, name="max_req_size_" + rpc_name,
             wrap="impl<'a> PushServer<'a>", ret="r", props=["C10"],
             spec="    ensures true,      // a constant that does not depend on anything the peer sends; the obligation is that computing it cannot overflow\n")
    U.fn(F_RUN, "impl rpc::Handler<rpc::get_block::Rpc> for &Network :: fn max_req_size", name="max_req_size_get_block",
         wrap="impl Network", ret="r", props=["C10"],
         spec="    ensures true,\n")
    U.fn(F_RUN, "impl rpc::Handler<rpc::get_block::Rpc> for &Network :: fn handle", name="handle_get_block", wrap="impl Network", ret="r", props=["C08", "C19"],
         header_subs=[("ctx::Ctx", "Ctx"), ("rpc::get_block::Req", "GetBlockReq"),
                      ("anyhow::Result<rpc::get_block::Resp>", "Result<GetBlockResp, AnyhowError>")],
         subs=[("rpc::get_block::Resp(", "GetBlockResp("),
               (".await?", ".await.map_err(|verif_e: CtxError| -> (verif_a: AnyhowError) { anyhow_error() })?   /* R-try: ctx::Error -> anyhow */")],
         spec="""
    ensures
        // a peer asking for block n is answered with block n or with nothing
        r matches Ok(resp) ==> (resp.0 matches Some(b) ==> b.num() == req.0),
""")
    U.assume("A4: tokio watch::Sender::{send_replace, send, send_if_modified, send_modify, borrow} as documented; `stored(chan, st)` is an "
             "uninterpreted history fact produced only by these stubs")
    U.assume("EngineManager::get_block's contract is proved in unit blockstore; ValidatorAddrsWatch::update's in unit addrs (modularity)")
    return U
