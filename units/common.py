"""Shared prelude fragments (assumption class A1: std functions this vstd lacks, written from the std docs)."""

STD_OPTION_COPIED = r"""
pub assume_specification<'a, T: Copy> [Option::<&'a T>::copied] (o: Option<&'a T>) -> (r: Option<T>)    // A1
    ensures o.is_none() ==> r.is_none(), o.is_some() ==> r == Some(*o.unwrap());
"""

STD_MIN = r"""
// R-std: std::cmp::min on usize (generic over Ord + Destruct, which assume_specification cannot name)
#[verifier::external_body]
pub fn verif_min_usize(a: usize, b: usize) -> (r: usize) ensures r == (if a <= b { a } else { b }) { std::cmp::min(a, b) }   // A1
"""
STD_BOXED_SLICE = r"""
pub assume_specification<T, A: core::alloc::Allocator> [Vec::<T, A>::into_boxed_slice] (v: Vec<T, A>) -> (r: Box<[T], A>)   // A1
    ensures r@ == v@;
"""

STD_IS_NONE_OR = r"""
pub assume_specification<T, F: FnOnce(T) -> bool> [Option::<T>::is_none_or] (o: Option<T>, f: F) -> (r: bool)     // A1
    requires o.is_some() ==> f.requires((o.unwrap(),)),
    ensures o.is_none() ==> r, o.is_some() ==> f.ensures((o.unwrap(),), r);
"""
