"""Shared prelude fragments (assumption class A1: std functions this vstd lacks, written from the std docs)."""

STD_OPTION_COPIED = r"""
pub assume_specification<'a, T: Copy> [Option::<&'a T>::copied] (o: Option<&'a T>) -> (r: Option<T>)    // A1
    ensures o.is_none() ==> r.is_none(), o.is_some() ==> r == Some(*o.unwrap());
"""

STD_MIN = r"""
// R-std: std::cmp::min on usize (generic over Ord + Destruct, which assume_specification cannot name)
#[verifier::external_body]
pub fn verif_min_usize(a: usize, b: usize) -> (r: usize) ensures r == (if a <= b { a } else { b }) { std::cmp::min(a, b) }   // A1
"""
STD_BOXED_SLICE = r"""
pub assume_specification<T, A: core::alloc::Allocator> [Vec::<T, A>::into_boxed_slice] (v: Vec<T, A>) -> (r: Box<[T], A>)   // A1
    ensures r@ == v@;
"""

STD_IS_NONE_OR = r"""
pub assume_specification<T, F: FnOnce(T) -> bool> [Option::<T>::is_none_or] (o: Option<T>, f: F) -> (r: bool)     // A1
    requires o.is_some() ==> f.requires((o.unwrap(),)),
    ensures o.is_none() ==> r, o.is_some() ==> f.ensures((o.unwrap(),), r);
"""

# A1: documented semantics of the Option / Result combinators vstd does not specify. They make code that uses them acceptable to
# Verus; a closure handed to them still has to be annotated (W-closure) for anything to be known about its result.
STD_COMBINATORS = r"""
pub assume_specification<T, U, F: FnOnce(T) -> U> [Option::<T>::map_or] (o: Option<T>, default: U, f: F) -> (r: U)     // A1
    requires o.is_some() ==> f.requires((o.unwrap(),)),
    ensures o.is_none() ==> r == default, o.is_some() ==> f.ensures((o.unwrap(),), r);
pub assume_specification<T, F: FnOnce(T) -> bool> [Option::<T>::is_some_and] (o: Option<T>, f: F) -> (r: bool)       // A1
    requires o.is_some() ==> f.requires((o.unwrap(),)),
    ensures o.is_none() ==> !r, o.is_some() ==> f.ensures((o.unwrap(),), r);
pub assume_specification<T, U> [Option::<T>::and] (a: Option<T>, b: Option<U>) -> (r: Option<U>)                     // A1
    ensures r == (if a.is_some() { b } else { None::<U> });
pub assume_specification<T> [Option::<T>::or] (a: Option<T>, b: Option<T>) -> (r: Option<T>)                         // A1
    ensures r == (if a.is_some() { a } else { b });
pub assume_specification<T, P: FnOnce(&T) -> bool> [Option::<T>::filter] (o: Option<T>, p: P) -> (r: Option<T>)      // A1
    requires o matches Some(v) ==> p.requires((&v,)),
    ensures o matches None ==> r == None::<T>,
            o matches Some(v) ==> (p.ensures((&v,), true) ==> r == Some(v)) && (p.ensures((&v,), false) ==> r == None::<T>) && (r == Some(v) || r == None::<T>);
pub assume_specification<T, E> [Option::<Result<T, E>>::transpose] (o: Option<Result<T, E>>) -> (r: Result<Option<T>, E>)   // A1
    ensures o matches None ==> r == Ok::<Option<T>, E>(None),
            o matches Some(Ok(v)) ==> r == Ok::<Option<T>, E>(Some(v)),
            o matches Some(Err(e)) ==> r == Err::<Option<T>, E>(e);
pub assume_specification<T, E> [Result::<T, E>::unwrap_or] (a: Result<T, E>, d: T) -> (r: T)                         // A1
    ensures r == (match a { Ok(v) => v, Err(_) => d });
pub assume_specification<T: Default, E> [Result::<T, E>::unwrap_or_default] (a: Result<T, E>) -> (r: T)                // A1 (the default value itself is not specified)
    ensures a matches Ok(v) ==> r == v;
pub assume_specification<T, E, U, F: FnOnce(T) -> Result<U, E>> [Result::<T, E>::and_then] (a: Result<T, E>, f: F) -> (r: Result<U, E>)   // A1
    requires a matches Ok(v) ==> f.requires((v,)),
    ensures a matches Ok(v) ==> f.ensures((v,), r), a matches Err(e) ==> r == Err::<U, E>(e);
pub assume_specification<T, E, F: FnOnce(T) -> bool> [Result::<T, E>::is_ok_and] (a: Result<T, E>, f: F) -> (r: bool)   // A1
    requires a matches Ok(v) ==> f.requires((v,)),
    ensures a matches Ok(v) ==> f.ensures((v,), r), a.is_err() ==> !r;
"""

# needs #![feature(allocator_api)] in the unit's crate_attrs
STD_VEC_DEDUP = r"""
// A1: Vec::dedup_by_key removes consecutive elements with equal keys: what is left is no longer than before (which elements stay is not
// specified here; a vector of at most one element is unchanged)
pub assume_specification<T, A: core::alloc::Allocator, F: FnMut(&mut T) -> K, K: PartialEq> [Vec::<T, A>::dedup_by_key] (v: &mut Vec<T, A>, key: F)
    ensures final(v)@.len() <= old(v)@.len(), old(v)@.len() <= 1 ==> final(v)@ == old(v)@;
pub assume_specification<T: PartialEq, A: core::alloc::Allocator> [Vec::<T, A>::dedup] (v: &mut Vec<T, A>)
    ensures final(v)@.len() <= old(v)@.len(), old(v)@.len() <= 1 ==> final(v)@ == old(v)@;
"""
