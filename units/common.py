"""Shared prelude fragments (assumption class A1: std functions this vstd lacks, written from the std docs)."""

STD_OPTION_COPIED = r"""
pub assume_specification<'a, T: Copy> [Option::<&'a T>::copied] (o: Option<&'a T>) -> (r: Option<T>)    // A1
    ensures o.is_none() ==> r.is_none(), o.is_some() ==> r == Some(*o.unwrap());
"""
