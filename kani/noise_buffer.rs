
// ---- spliced by /verif/vx/kani.py (never committed to /repo) ----
#[cfg(kani)]
mod verif_noise_buffer {
    use super::*;
    const CAP: usize = 6;
    /// BOUNDED (capacity 6, at most 4 operations, unwinding assertions on): a reference model (Vec<u8> of the content) is kept next
    /// to the real Buffer through an arbitrary sequence of push / take / shift / extend-after-write; content and lengths always agree
    /// and no operation panics when its documented precondition holds. Twin of the Verus contracts of bytes::Buffer (C13).
    #[kani::proof]
    #[kani::unwind(8)]
    fn buffer_ops_bounded() {
        let mut b = Buffer::new(CAP);
        let mut model: [u8; CAP] = [0; CAP];
        let mut mlen: usize = 0;
        let mut step = 0;
        while step < 4 {
            let op: u8 = kani::any();
            if op == 0 {
                // push up to 3 symbolic bytes
                let src: [u8; 3] = kani::any();
                let n: usize = kani::any();
                kani::assume(n <= 3);
                let pushed = b.push(&src[..n]);
                let room = b.capacity() + pushed;     // capacity before the push
                assert!(pushed == core::cmp::min(n, room));
                let mut i = 0;
                while i < pushed { model[mlen + i] = src[i]; i += 1; }
                mlen += pushed;
            } else if op == 1 {
                let n: usize = kani::any();
                kani::assume(n <= b.len());
                b.take(n);
                let mut i = 0;
                while i + n < mlen { model[i] = model[i + n]; i += 1; }
                mlen -= n;
            } else if op == 2 {
                b.shift();
                assert!(b.capacity() == CAP - mlen);
            } else {
                // write through as_mut_capacity, then extend
                let n: usize = kani::any();
                let v: u8 = kani::any();
                kani::assume(n <= b.capacity() && n <= 2);
                let cap = b.as_mut_capacity();
                let mut i = 0;
                while i < n { cap[i] = v; i += 1; }
                b.extend(n);
                let mut i = 0;
                while i < n { model[mlen + i] = v; i += 1; }
                mlen += n;
            }
            assert!(b.len() == mlen);
            let s = b.as_slice();
            let mut i = 0;
            while i < mlen { assert!(s[i] == model[i]); i += 1; }
            step += 1;
        }
        kani::cover!(mlen == CAP);
    }
}
