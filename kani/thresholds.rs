
// ---- spliced by /verif/vx/kani.py (never committed to /repo) ----
#[cfg(kani)]
mod verif_thresholds {
    use super::*;
    /// complete: loop-free, full 64-bit domain. Any failure comes with a concrete n.
    #[kani::proof]
    fn thresholds_full_domain() {
        let n: u64 = kani::any();
        kani::assume(n >= 1);
        let f = max_faulty_weight(n);
        let q = quorum_threshold(n);
        let s = subquorum_threshold(n);
        let (n, f, q, s) = (n as u128, f as u128, q as u128, s as u128);
        assert!(5 * f + 1 <= n, "n >= 5f+1");
        assert!(q == n - f, "quorum = n-f");
        assert!(s == n - 3 * f, "subquorum = n-3f");
        assert!(2 * q > n + f, "two quorums share more than f");
        assert!(2 * q >= n + f + s, "commit and timeout quorum share the subquorum of correct weight");
        assert!(2 * f < s, "conflicting weight stays below the subquorum");
        kani::cover!(n == u64::MAX as u128);
    }
}
