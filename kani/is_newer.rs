
// ---- spliced by /verif/vx/kani.py (never committed to /repo) ----
#[cfg(kani)]
mod verif_is_newer {
    use super::*;
    fn any_addr() -> NetAddress {
        let secs: i64 = kani::any();
        let nanos: i32 = kani::any();
        kani::assume(secs > -1_000_000_000_000 && secs < 1_000_000_000_000);
        kani::assume(nanos >= 0 && nanos < 1_000_000_000);
        NetAddress {
            // the address is symbolic too (every IPv4 / IPv6 address and port): the order must not depend on it
            addr: if kani::any() { std::net::SocketAddr::from((kani::any::<[u8; 4]>(), kani::any::<u16>())) }
                  else { std::net::SocketAddr::from((kani::any::<[u8; 16]>(), kani::any::<u16>())) },
            version: kani::any(),
            timestamp: time::UNIX_EPOCH + time::Duration::new(secs, nanos),
        }
    }
    /// complete (loop-free): is_newer is the strict lexicographic order on (version, timestamp):
    /// irreflexive, asymmetric, transitive, total on distinct (version, timestamp) pairs, and agrees with the spec used by unit `addrs`
    #[kani::proof]
    fn is_newer_strict_total_order() {
        let (a, b, c) = (any_addr(), any_addr(), any_addr());
        assert!(!a.is_newer(&a));
        assert!(!(a.is_newer(&b) && b.is_newer(&a)));
        if a.is_newer(&b) && b.is_newer(&c) { assert!(a.is_newer(&c)); }
        if (a.version, a.timestamp) != (b.version, b.timestamp) { assert!(a.is_newer(&b) || b.is_newer(&a)); }
        let spec = a.version > b.version || (a.version == b.version && a.timestamp > b.timestamp);
        assert!(a.is_newer(&b) == spec);
        kani::cover!(a.version == u64::MAX && b.version == 0);
    }
}
