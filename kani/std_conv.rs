
// ---- spliced by /verif/vx/kani.py (never committed to /repo) ----
#[cfg(kani)]
mod verif_std_conv {
    use super::*;
    fn no_backtrace() -> std::backtrace::Backtrace { std::backtrace::Backtrace::disabled() }
    /// complete (loop-free): Duration::read never panics, for every (seconds, nanos) a peer can send (F3)
    #[kani::proof]
    #[kani::stub(std::backtrace::Backtrace::capture, no_backtrace)]
    fn duration_read_total() {
        let r = proto::std::Duration { seconds: kani::any(), nanos: kani::any() };
        // the result is forgotten, not dropped: dropping an anyhow::Error goes through a vtable that CBMC resolves very slowly
        core::mem::forget(<time::Duration as ProtoFmt>::read(&r));
    }
    /// complete (loop-free): read(build(d)) == d for every Duration
    #[kani::proof]
    #[kani::stub(std::backtrace::Backtrace::capture, no_backtrace)]
    fn duration_roundtrip() {
        let secs: i64 = kani::any();
        let nanos: i32 = kani::any();
        kani::assume(nanos > -1_000_000_000 && nanos < 1_000_000_000);
        kani::assume((secs >= 0 && nanos >= 0) || (secs <= 0 && nanos <= 0));
        kani::assume(secs > i64::MIN);
        let d = time::Duration::new(secs, nanos);
        let back = <time::Duration as ProtoFmt>::read(&d.build());
        assert!(back.is_ok());
        assert!(back.unwrap() == d);
    }
    /// complete (loop-free): a Duration that DECODES is re-encoded without panicking (received values are re-encoded when their
    /// hash is computed: Signed::verify -> Msg::hash -> canonical -> build), for every (seconds, nanos) a peer can send (F7)
    #[kani::proof]
    #[kani::stub(std::backtrace::Backtrace::capture, no_backtrace)]
    fn duration_build_after_read_total() {
        let r = proto::std::Duration { seconds: kani::any(), nanos: kani::any() };
        match <time::Duration as ProtoFmt>::read(&r) {
            Ok(d) => {
                let p = d.build();
                // and what was decoded is what is re-encoded (round trip also at the lower end of the range)
                let back = <time::Duration as ProtoFmt>::read(&p);
                assert!(back.is_ok());
                assert!(back.unwrap() == d);
            }
            Err(e) => core::mem::forget(e),
        }
    }
    /// complete (loop-free): Timestamp -> Utc never panics
    #[kani::proof]
    #[kani::stub(std::backtrace::Backtrace::capture, no_backtrace)]
    fn utc_read_total() {
        let r = proto::std::Timestamp { seconds: kani::any(), nanos: kani::any() };
        core::mem::forget(<time::Utc as ProtoFmt>::read(&r));
    }
}
#[cfg(kani)]
mod verif_std_conv_addr {
    use super::*;
    fn no_backtrace() -> std::backtrace::Backtrace { std::backtrace::Backtrace::disabled() }
    /// complete (loops bounded by the constant 16, unwinding assertions on): read(build(a)) == a for EVERY IPv4/IPv6 socket address
    #[kani::proof]
    #[kani::unwind(18)]
    #[kani::stub(std::backtrace::Backtrace::capture, no_backtrace)]
    fn socket_addr_roundtrip() {
        let port: u16 = kani::any();
        let a: std::net::SocketAddr = if kani::any() {
            let o: [u8; 4] = kani::any();
            std::net::SocketAddr::new(std::net::IpAddr::from(o), port)
        } else {
            let o: [u8; 16] = kani::any();
            std::net::SocketAddr::new(std::net::IpAddr::from(o), port)
        };
        let back = <std::net::SocketAddr as ProtoFmt>::read(&a.build());
        assert!(back.is_ok());
        assert!(back.unwrap() == a);
    }

    /// complete: the same for IPv6 socket addresses with ANY flow info and scope id -- the part of the value space `SocketAddr::new` cannot
    /// build (e.g. a parsed "[fe80::1%5]:80"). Recorded as known finding F9: the wire format has no field for either, so they are lost.
    #[kani::proof]
    #[kani::unwind(18)]
    #[kani::stub(std::backtrace::Backtrace::capture, no_backtrace)]
    fn socket_addr_v6_scope_roundtrip() {
        let o: [u8; 16] = kani::any();
        let a = std::net::SocketAddr::V6(std::net::SocketAddrV6::new(std::net::Ipv6Addr::from(o), kani::any(), kani::any(), kani::any()));
        let back = <std::net::SocketAddr as ProtoFmt>::read(&a.build());
        assert!(back.is_ok());
        assert!(back.unwrap() == a);
    }

    /// bounded (ip field of at most 20 bytes, every content, port any u32 or absent): decoding a SocketAddr never panics.
    /// Lengths 0..=20 cover both accepted lengths (4, 16), their neighbours and the rejecting arm.
    #[kani::proof]
    #[kani::unwind(22)]
    #[kani::stub(std::backtrace::Backtrace::capture, no_backtrace)]
    fn socket_addr_read_total() {
        let buf: [u8; 20] = kani::any();
        let n: usize = kani::any();
        kani::assume(n <= 20);
        let ip: Option<Vec<u8>> = if kani::any() { Some(buf[..n].to_vec()) } else { None };
        let port: Option<u32> = if kani::any() { Some(kani::any()) } else { None };
        let r = proto::std::SocketAddr { ip, port };
        let res = <std::net::SocketAddr as ProtoFmt>::read(&r);
        kani::cover!(res.is_ok());
        kani::cover!(res.is_err());
        std::mem::forget(res);
    }
}
