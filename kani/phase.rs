
// ---- spliced by /verif/vx/kani.py (never committed to /repo) ----
#[cfg(kani)]
mod verif_phase {
    use super::*;
    /// complete: all three values. read(build(p)) == p  (the stored replica state survives its wire encoding, C03/C09)
    #[kani::proof]
    fn phase_roundtrip() {
        let k: u8 = kani::any();
        kani::assume(k < 3);
        let p = match k { 0 => Phase::Prepare, 1 => Phase::Commit, _ => Phase::Timeout };
        let back = <Phase as ProtoFmt>::read(&p.build());
        assert!(back.is_ok());
        assert!(back.unwrap() == p);
    }
}
