
// ---- spliced by /verif/vx/kani.py (never committed to /repo) ----
#[cfg(kani)]
mod verif_phase {
    use super::*;
    /// complete: the three values are enumerated by three concrete harnesses. read(build(p)) == p
    /// (the stored replica state survives its wire encoding, C03/C09)
    fn check(p: Phase) {
        // (an Err is forgotten, not dropped: dropping an anyhow::Error goes through a vtable CBMC resolves very slowly)
        match <Phase as ProtoFmt>::read(&p.build()) {
            Ok(back) => assert!(back == p),
            Err(e) => { core::mem::forget(e); panic!("decode of an encoded Phase failed"); }
        }
    }
    #[kani::proof] fn phase_roundtrip_prepare() { check(Phase::Prepare) }
    #[kani::proof] fn phase_roundtrip_commit() { check(Phase::Commit) }
    #[kani::proof] fn phase_roundtrip_timeout() { check(Phase::Timeout) }
}
#[cfg(kani)]
mod verif_roles_conv {
    use super::*;
    use crate::validator::{v2::BlockHeader, BlockNumber, PayloadHash, GenesisHash};
    use zksync_consensus_crypto::keccak256::Keccak256;
    fn no_backtrace() -> std::backtrace::Backtrace { std::backtrace::Backtrace::disabled() }
    fn any_view() -> View {
        let g: [u8; 32] = kani::any();
        View { genesis: GenesisHash(Keccak256::from_bytes(g)), epoch: EpochNumber(kani::any()), number: ViewNumber(kani::any()) }
    }
    /// complete (loops bounded by the constant 32, unwinding assertions on): read(build(v)) == v for every View
    #[kani::proof]
    #[kani::unwind(34)]
    #[kani::stub(std::backtrace::Backtrace::capture, no_backtrace)]
    fn view_roundtrip() {
        let v = any_view();
        let back = <View as ProtoFmt>::read(&v.build());
        assert!(back.is_ok());
        assert!(back.unwrap() == v);
    }
    /// complete: read(build(c)) == c for every ReplicaCommit (view + block header)
    #[kani::proof]
    #[kani::unwind(34)]
    #[kani::stub(std::backtrace::Backtrace::capture, no_backtrace)]
    fn replica_commit_roundtrip() {
        let p: [u8; 32] = kani::any();
        let c = ReplicaCommit { view: any_view(), proposal: BlockHeader { number: BlockNumber(kani::any()), payload: PayloadHash(Keccak256::from_bytes(p)) } };
        let back = <ReplicaCommit as ProtoFmt>::read(&c.build());
        assert!(back.is_ok());
        assert!(back.unwrap() == c);
    }
}
