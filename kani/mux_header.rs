
// ---- spliced by /verif/vx/kani.py (never committed to /repo) ----
#[cfg(kani)]
mod verif_mux_header {
    use super::*;
    /// complete (loop-free, all 2^16 headers): the header codec is a bijection on valid triples and every frame kind is one of
    /// the FOUR values a 2-bit field can take (three named + 0xC000), C14 / C10 twin of the Verus bit-vector lemmas
    #[kani::proof]
    fn header_codec_bijection() {
        let raw: u16 = kani::any();
        let h = Header::from(raw.to_le_bytes());
        // decode then encode: identity on all 16-bit headers
        let (f, s, id) = (h.frame_kind(), h.stream_kind(), h.stream_id());
        assert!(Header::new(f, s, id).0 == raw);
        assert!(h.raw() == raw.to_le_bytes());
        // the three fields occupy disjoint bits
        assert!(f.0 & s.0 == 0 && f.0 & id.0 == 0 && s.0 & id.0 == 0);
        assert!(id.0 <= StreamId::MASK);
        assert!(s == StreamKind::ACCEPT || s == StreamKind::CONNECT);
        assert!(f == FrameKind::OPEN || f == FrameKind::DATA || f == FrameKind::CLOSE || f.0 == 0b1100000000000000);
        kani::cover!(f.0 == 0b1100000000000000);
    }
    /// complete: encode then decode returns the triple, for every frame kind, stream kind and every id <= MASK
    #[kani::proof]
    fn header_encode_decode() {
        let fk: u8 = kani::any();
        kani::assume(fk < 3);
        let f = if fk == 0 { FrameKind::OPEN } else if fk == 1 { FrameKind::DATA } else { FrameKind::CLOSE };
        let s = if kani::any() { StreamKind::ACCEPT } else { StreamKind::CONNECT };
        let idv: u16 = kani::any();
        kani::assume(idv <= StreamId::MASK);
        let id = StreamId::new(idv);
        let h = Header::from(Header::new(f, s, id).raw());
        assert!(h.frame_kind() == f && h.stream_kind() == s && h.stream_id() == id);
        kani::cover!(idv == StreamId::MASK && fk == 2);
    }
}
