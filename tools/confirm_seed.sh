#!/bin/bash
# usage: confirm_seed.sh <worktree> <seeddir> <id> <crate> <demo cargo test args...>
# Confirms: demo fails with mutation, existing crate tests pass with mutation, demo passes without. Writes /verif/seeded/<id>/.
wt="$1"; sd="$2"; id="$3"; crate="$4"; shift 4
out=/verif/seeded/$id; mkdir -p $out
log=$out/confirm.log; : > $log
cd $wt || exit 3
git checkout -q -- . ; git clean -fdq -e seed -e node/target
export CARGO_NET_OFFLINE=true
git apply $sd/patch.diff || { echo "patch failed" >> $log; exit 3; }
# existing tests with mutation (before adding the demo)
(cd node && cargo test -p $crate --offline -j 6 2>&1 | grep -E "^test result|FAILED|failed" ) > $out/.t1 2>&1
echo "existing tests of $crate WITH mutation:" >> $log; cat $out/.t1 >> $log
# load-sensitive tests (fixed sleeps) fail now and then on a busy machine, also on the clean tree: re-run each failing test alone, still with the mutation
if grep -q "test result: FAILED" $out/.t1; then
  allok=1
  for t in $(grep -E "^test .* \.\.\. FAILED" $out/.t1 | awk '{print $2}'); do
    r=$(cd node && cargo test -p $crate --offline -j 6 --lib -- $t --exact 2>&1 | grep -E "^test result" | head -1)
    echo "re-run alone WITH mutation: $t -> $r" >> $log
    echo "$r" | grep -q "test result: ok. 1 passed" || allok=0
  done
  [ $allok = 1 ] && sed -i 's/test result: FAILED/test result: (flaky under load, passed when re-run alone) failed-then-ok/' $out/.t1
fi
git apply $sd/demo.diff || { echo "demo patch failed" >> $log; exit 3; }
(cd node && cargo test -p $crate --offline -j 6 "$@" 2>&1 | grep -E "^test |^test result|panicked" | head -20) > $out/.t2 2>&1
echo "demo WITH mutation (cargo test -p $crate $*):" >> $log; cat $out/.t2 >> $log
git apply -R $sd/patch.diff
(cd node && cargo test -p $crate --offline -j 6 "$@" 2>&1 | grep -E "^test |^test result|panicked" | head -20) > $out/.t3 2>&1
echo "demo WITHOUT mutation:" >> $log; cat $out/.t3 >> $log
git checkout -q -- . ; git clean -fdq -e seed -e node/target
cp $sd/patch.diff $sd/demo.diff $out/; cp $sd/meta.json $out/meta.agent.json
ok1=$(grep -c "test result: ok" $out/.t1); bad1=$(grep -c "FAILED\|failed;" $out/.t1 | head -1)
f2=$(grep -c "test result: FAILED\|panicked" $out/.t2); ok3=$(grep -c "test result: ok" $out/.t3); f3=$(grep -c "test result: FAILED" $out/.t3)
verdict="CONFIRMED"
grep -q "test result: FAILED" $out/.t1 && verdict="REJECTED(existing tests fail)"
[ "$f2" -ge 1 ] || verdict="REJECTED(demo does not fail with mutation)"
[ "$f3" -eq 0 ] && [ "$ok3" -ge 1 ] || verdict="REJECTED(demo fails without mutation)"
echo "VERDICT $id: $verdict" | tee -a $log
rm -f $out/.t1 $out/.t2 $out/.t3
