#!/usr/bin/env python3
"""Write MANIFEST.json from units/registry.py (single source of truth)."""
import importlib.util, json, os, sys
ROOT = os.path.dirname(os.path.dirname(os.path.abspath(__file__)))
spec = importlib.util.spec_from_file_location("reg", os.path.join(ROOT, "units", "registry.py"))
reg = importlib.util.module_from_spec(spec); spec.loader.exec_module(reg)
checks = []
for pid in sorted(reg.PROPS):
    P = reg.PROPS[pid]
    checks.append(dict(
        property_id=pid,
        quick_cmd="./check %s --tier quick" % pid,
        thorough_cmd="./check %s --tier thorough" % pid,
        evidence_file="evidence/%s.json" % pid,
        replay_cmd_template="./check --replay {path}",
        engine="vx",
        level_claimed=dict(category=P.get("level", "proof"), text=P["level_text"] + ((" " + P["level_text_extra"]) if P.get("level_text_extra") else ""), design_ref=P.get("design_ref", "DESIGN.md §5")),
        level_note=P["level_note"],
        technique=P["technique"],
    ))
man = dict(
    version=1,
    setup_cmd="./check --setup",
    hooks=dict(
        guard="matter_labs_era_consensus_verif",
        enable="none needed: Verus works on text extracted from /repo at check time; Kani harness modules are spliced as #[cfg(kani)] into a scratch copy of /repo/node, never into /repo",
        baseline_off_cmd="cd /repo/node && cargo nextest run --workspace --no-fail-fast --test-threads 8 --offline || cargo test --workspace --no-fail-fast --offline",
        source_commits=getattr(reg, "HOOK_COMMITS", []),
        add_only=True,
    ),
    engines=[dict(name="vx", path="vx/", serves_properties=sorted(reg.PROPS),
                  kind_free_text="mechanical extraction of real function text from /repo + woven contracts, discharged by Verus (unbounded); Kani harnesses on the real crates for complete loop-free proofs, counterexamples and bounded cross-checks")],
    checks=checks,
    notes=getattr(reg, "NOTES", ""),
    not_applicable=[dict(property_id=k, reason=v) for k, v in sorted(reg.NOT_APPLICABLE.items())],
)
with open(os.path.join(ROOT, "MANIFEST.json"), "w") as f:
    json.dump(man, f, indent=1)
print("MANIFEST.json written:", len(checks), "checks,", len(man["not_applicable"]), "n/a")
try:
    import jsonschema
    jsonschema.validate(man, json.load(open("/root/.vp/MANIFEST.schema.json")))
    print("schema ok")
except ImportError:
    pass
