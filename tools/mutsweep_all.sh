#!/bin/bash
# background driver: mutation sweep over several units, 3 at a time (development aid). args: unit:k ...
cd "$(dirname "$0")/.."
mkdir -p .work
printf "%s\n" "$@" | xargs -P 3 -I{} sh -c 'u=$(echo {} | cut -d: -f1); k=$(echo {} | cut -d: -f2); python3 tools/mutsweep.py $u $k > .work/mutsweep_$u.log 2>&1; grep -A2 "^SURVIVOR\|^unit" .work/mutsweep_$u.log'
