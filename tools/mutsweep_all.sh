#!/bin/bash
# background driver: mutation sweep over several units, 3 at a time (development aid)
cd "$(dirname "$0")/.."
units="${@:-limiter prune addrs fetch scope streams admission thresholds noise mux implied qc leader blockstore}"
printf "%s\n" $units | xargs -P 3 -I{} sh -c 'python3 tools/mutsweep.py {} 2 > .work/mutsweep_{}.log 2>&1; grep -A2 "^SURVIVOR\|^unit" .work/mutsweep_{}.log'
