#!/bin/bash
# usage: tools/seedtest.sh <patch.diff> <Cxx> [more props]   -- applies the patch to /repo, runs the quick checks, reverts.
set -u
patch="$1"; shift
cd /repo || exit 3
if [ -n "$(git status --porcelain --untracked-files=no)" ]; then echo "repo dirty"; exit 3; fi
if ! git apply --recount "$patch" 2>/dev/null; then
  if ! patch -p1 -s --no-backup-if-mismatch < "$patch"; then echo "PATCH DOES NOT APPLY"; git checkout -- .; exit 3; fi
fi
git diff --stat | tail -1
cd /verif
rm -rf /verif/.work/_ev_backup && cp -a /verif/evidence /verif/.work/_ev_backup
for p in "$@"; do
  ./check "$p" --tier quick | grep -v "^unit\|^kani" | head -8
  echo "rc=${PIPESTATUS[0]} ($p)"
done
git -C /repo checkout -- .
rm -rf /verif/evidence && mv /verif/.work/_ev_backup /verif/evidence
git -C /repo status --porcelain --untracked-files=no
