#!/bin/bash
# usage: tools/round4.sh <Cxx> <k> <new-id> <test-name-filter> [props to check...]
# confirms seed k of the round-4 agent for property Cxx (worktree /tmp/s4-Cxx) and runs the quick checks against it.
p=$1; k=$2; id=$3; filt=$4; shift 4
wt=/tmp/s4-$p; sd=$wt/seed/$k
crate=$(python3 -c "import json;print(json.load(open('$sd/meta.json'))['crate'])")
/verif/tools/confirm_seed.sh $wt $sd $id $crate -- $filt
for q in "${@:-$p}"; do :; done
/verif/tools/seedtest.sh /verif/seeded/$id/patch.diff "${@:-$p}" 2>&1 | grep -v "^ok \|WARNING" | tee /verif/seeded/$id/check.log
