#!/usr/bin/env python3
"""Mutation sweep of my own contracts: for every function a unit extracts, apply small syntactic mutations to the REAL source (in a
scratch worktree, never /repo), re-run the unit, and list the mutants that still verify (survivors = candidates for weak contracts).
usage: tools/mutsweep.py <unit> [max_mutants_per_fn] [only-fn-substring]
Writes /verif/.work/mutsweep/<unit>.jsonl; prints survivors. Development aid only: nothing registered in MANIFEST.json depends on it."""
import json, os, random, re, subprocess, sys, time, shutil

ROOT = os.path.dirname(os.path.dirname(os.path.abspath(__file__)))
sys.path.insert(0, ROOT)

OPS = [
    (r"(?<![<>=!-])<=(?!=)", "<"), (r"(?<![<>=!-])>=(?!=)", ">"),
    (r"(?<![<>=!&|-])<(?![<=])", "<="), (r"(?<![<>=!-])>(?![>=])", ">="),
    (r"==", "!="), (r"!=", "=="), (r"&&", "||"), (r"\|\|", "&&"),
    (r"\+ 1\b", "+ 2"), (r"- 1\b", "- 2"), (r"\.next\(\)", ""), (r"\bSome\(", "Some(!!"),
]


def mutants_for(lines, a, b, rng, k):
    """lines: file lines; [a,b] 1-based span of the fn. returns list of (lineno, newline, desc)."""
    cands = []
    depth_generic = 0
    for ln in range(a, b):  # skip signature line a? keep
        s = lines[ln]
        st = s.strip()
        if not st or st.startswith("//") or st.startswith("#[") or "tracing::" in st or "fn " in st and ln == a - 1 + 0:
            continue
        code = s.split("//")[0]
        if re.search(r"\bfn\b|->|impl\b|<.*>::|Vec<|Option<|Result<|Arc<|&'|: &", code) and re.search(r"[<>]", code):
            # type-ish line: only non-angle operators
            ops = [o for o in OPS if "<" not in o[0] and ">" not in o[0]]
        else:
            ops = OPS
        for pat, rep in ops:
            for m in re.finditer(pat, code):
                if rep == "Some(!!":
                    continue
                new = code[:m.start()] + rep + code[m.end():] + s[len(code):]
                if new != s:
                    cands.append((ln, new, "%s -> %s at col %d" % (m.group(0), rep or "(removed)", m.start())))
        # statement deletion: a single-line statement ending with `;` that is not a let/return
        if st.endswith(";") and not st.startswith(("let ", "return", "use ", "}", "pub ", "const ", "type ")) and st.count("(") == st.count(")") \
                and st.count("{") == st.count("}"):
            cands.append((ln, s[:len(s) - len(s.lstrip())] + "/* deleted */\n", "delete statement `%s`" % st[:60]))
    rng.shuffle(cands)
    # prefer distinct lines
    out, seen = [], set()
    for c in cands:
        if c[0] in seen:
            continue
        seen.add(c[0])
        out.append(c)
        if len(out) >= k:
            break
    return out


def main():
    unit = sys.argv[1]
    k = int(sys.argv[2]) if len(sys.argv) > 2 else 3
    only = sys.argv[3] if len(sys.argv) > 3 else None
    wt = "/var/tmp/mutsweep-" + unit
    subprocess.run(["git", "-C", "/repo", "worktree", "remove", "--force", wt], capture_output=True)
    shutil.rmtree(wt, ignore_errors=True)
    subprocess.run(["git", "-C", "/repo", "worktree", "add", "--detach", wt, "HEAD", "-q"], check=True)
    os.environ["VERIF_REPO"] = wt
    os.environ["VERIF_NO_BASELINE"] = "1"
    from vx import main as M
    M.REPO = wt
    U = M.load_unit(unit)
    outdir = os.path.join(ROOT, ".work", "mutsweep")
    os.makedirs(outdir, exist_ok=True)
    outp = os.path.join(outdir, unit + ".jsonl")
    rng = random.Random(1)
    targets = []
    for s in U.sections:
        if s.kind != "fn" or not s.meta.get("file"):
            continue
        if only and only not in s.label:
            continue
        targets.append((s.label, s.meta["file"], s.meta["lines"]))
    print("unit %s: %d functions" % (unit, len(targets)), flush=True)
    t0 = time.time()
    R0 = M.run_unit(unit, "_mut_" + unit, "quick", 0)
    print("baseline: %s (%.0fs)" % (R0.status, time.time() - t0), flush=True)
    if R0.status != "HELD":
        return 1
    surv = 0
    tot = 0
    with open(outp, "w") as out:
        for label, file, (a, b) in targets:
            p = os.path.join(wt, file)
            orig = open(p).read()
            lines = orig.splitlines(keepends=True)
            for ln, new, desc in mutants_for(lines, a, b, rng, k):
                ml = list(lines)
                ml[ln] = new
                open(p, "w").write("".join(ml))
                # items cache is keyed by mtime/size; fine
                t1 = time.time()
                R = M.run_unit(unit, "_mut_" + unit, "quick", 0)
                tot += 1
                rec = dict(unit=unit, fn=label, file=file, line=ln + 1, desc=desc, old=lines[ln].strip(), new=new.strip(), status=R.status,
                           reason=(R.reason or "")[:200], failures=[f["section"] for f in R.failures][:3], wall=round(time.time() - t1, 1))
                out.write(json.dumps(rec) + "\n")
                out.flush()
                if R.status == "HELD":
                    surv += 1
                    print("SURVIVOR %s:%d [%s] %s\n    - %s\n    + %s" % (file, ln + 1, label, desc, lines[ln].strip(), new.strip()), flush=True)
            open(p, "w").write(orig)
    print("unit %s: %d mutants, %d survivors, %.0fs" % (unit, tot, surv, time.time() - t0), flush=True)
    subprocess.run(["git", "-C", "/repo", "worktree", "remove", "--force", wt], capture_output=True)
    return 0


if __name__ == "__main__":
    sys.exit(main())
