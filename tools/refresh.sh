#!/bin/bash
# run every registered quick check on the current (clean) tree so that committed evidence is from a passing run
cd /verif
if [ -n "$(git -C /repo status --porcelain --untracked-files=no)" ]; then echo "repo dirty"; exit 3; fi
rc=0
for p in $(python3 -c "import json;print(' '.join(c['property_id'] for c in json.load(open('MANIFEST.json'))['checks']))"); do
  ./check $p --tier quick | tail -1 || rc=1
done
tools/validate.py || rc=1
exit $rc
