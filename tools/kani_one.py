#!/usr/bin/env python3
"""usage: tools/kani_one.py <group> <harness>   -- run one Kani harness of a group on the current /repo tree (development aid)"""
import sys, os, json
sys.path.insert(0, os.path.dirname(os.path.dirname(os.path.abspath(__file__))))
from vx import kani as K
from units import kani_registry as KR
g, h = sys.argv[1], sys.argv[2]
G = KR.GROUPS[g]
G["harnesses"] = [H for H in G["harnesses"] if H["name"] == h]
res = K.run_group([g], "_dev", "thorough", os.environ.get("VERIF_REPO", "/repo"), os.path.dirname(os.path.dirname(os.path.abspath(__file__))))
for r in res:
    print(json.dumps({k: (v if k != "detail" else str(v)[:600]) for k, v in r.items()}, indent=1))
