#!/usr/bin/env python3
"""usage: seedmeta.py <seed-id> <property> <caught_by text>"""
import json,sys
sid,prop,caught=sys.argv[1:4]
d='/verif/seeded/'+sid
a=json.load(open(d+'/meta.agent.json'))
log=open(d+'/confirm.log').read()
m=dict(property=prop, breaks=a.get('summary'), needs_to_manifest=a.get('needs_to_manifest'), files_changed=a.get('files_changed'),
       demo_cmd=a.get('demo_cmd'), confirmed_by_me=log.strip().splitlines()[-1],
       what_i_ran="tools/confirm_seed.sh: existing crate tests with mutation (pass); demo with mutation (fails); demo without (passes) - see confirm.log",
       caught_by=caught, base_commit="e043778 (pre-fix snapshot)")
json.dump(m,open(d+'/meta.json','w'),indent=1)
