#!/usr/bin/env python3
"""usage: seedmeta.py <seed-id> <property> <round> <caught_by text>   -- writes seeded/<id>/meta.json from the agent's meta + my logs"""
import json,sys,subprocess
sid,prop,rnd,caught=sys.argv[1:5]
d='/verif/seeded/'+sid
a=json.load(open(d+'/meta.agent.json'))
log=open(d+'/confirm.log').read()
base=subprocess.run(['git','-C','/repo','rev-parse','--short','HEAD'],capture_output=True,text=True).stdout.strip()
m=dict(property=prop, breaks=a.get('breaks') or a.get('summary'), needs_to_manifest=a.get('needs_to_manifest'), files_changed=a.get('files_changed'),
       demo_cmd="cd node && CARGO_NET_OFFLINE=true cargo test -p %s --offline -- %s" % (a.get('crate'), a.get('demo_filter','')),
       confirmed_by_me=log.strip().splitlines()[-1],
       what_i_ran="tools/confirm_seed.sh in the agent's scratch worktree: existing crate tests with the change (pass); demo with the change (fails); demo without (passes) - see confirm.log; then tools/seedtest.sh (apply to /repo, quick check, revert) - see check.log",
       caught_by=caught, base_commit=base+" (HEAD of /repo when the agents started)", round=int(rnd))
json.dump(m,open(d+'/meta.json','w'),indent=1)
