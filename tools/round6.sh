#!/bin/bash
# usage: tools/round6.sh <Cxx> <k> <new-id> [props to check...]   (worktree /tmp/s6-Cxx)
p=$1; k=$2; id=$3; shift 3
wt=${SEEDWT:-/tmp/s7-}$p; sd=$wt/seed/$k
crate=$(python3 -c "import json;print(json.load(open('$sd/meta.json'))['crate'])")
filt=$(python3 -c "import json;print(json.load(open('$sd/meta.json')).get('demo_filter',''))")
/verif/tools/confirm_seed.sh $wt $sd $id $crate -- $filt
/verif/tools/seedtest.sh /verif/seeded/$id/patch.diff "${@:-$p}" 2>&1 | grep -v "^ok \|WARNING" | tee /verif/seeded/$id/check.log
