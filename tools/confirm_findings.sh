#!/bin/bash
# Replays the finding tests on the pre-fix snapshot (must fail) and on /repo HEAD (must pass). Writes findings/confirm.log
set -u
log=/verif/findings/confirm.log; : > $log
export CARGO_NET_OFFLINE=true
for which in pre post; do
  if [ $which = pre ]; then rev=e043778; else rev=HEAD; fi      # (F8 was found later: its pre-fix tree is b50bed1, which e043778 also fails)
  wt=/tmp/find-$which
  git -C /repo worktree remove --force $wt 2>/dev/null
  git -C /repo worktree add -q --detach $wt $rev || exit 3
  cp -a --reflink=auto /repo/node/target $wt/node/target
  mkdir -p $wt/node/libs/roles/tests $wt/node/libs/protobuf/tests
  cp /verif/findings/roles_findings.rs $wt/node/libs/roles/tests/verif_findings.rs
  cp /verif/findings/protobuf_findings.rs $wt/node/libs/protobuf/tests/verif_findings.rs
  cat /verif/findings/mux_finding_f4.rs >> $wt/node/components/network/src/mux/tests/mod.rs
  (cd $wt && git apply /verif/findings/protobuf_finding_f8.diff)      # F8: a unit test inside the protobuf crate (uses its test message A)
  echo "===== $which ($rev) =====" >> $log
  (cd $wt/node && cargo test -p zksync_consensus_roles --offline -j 6 --test verif_findings 2>&1 | grep -E "^test |test result|panicked at" ) >> $log
  (cd $wt/node && cargo test -p zksync_protobuf --offline -j 6 --test verif_findings 2>&1 | grep -E "^test |test result|panicked at" ) >> $log
  (cd $wt/node && cargo test -p zksync_protobuf --offline -j 6 --lib -- f8_ 2>&1 | grep -E "^test |test result|panicked at" ) >> $log
  (cd $wt/node && timeout 900 cargo test -p zksync_consensus_network --offline -j 6 verif_f4 2>&1 | grep -E "^test |test result|panicked at|^error|signal" | head -8 ) >> $log
  git -C /repo worktree remove --force $wt
done
echo done >> $log
