#!/usr/bin/env python3-vt
import json, sys, glob, jsonschema
ok=True
m=json.load(open('/verif/MANIFEST.json'))
jsonschema.validate(m, json.load(open('/root/.vp/MANIFEST.schema.json'))); print('manifest ok')
es=json.load(open('/root/.vp/EVIDENCE.schema.json'))
for f in sorted(glob.glob('/verif/evidence/*.json')):
    try:
        jsonschema.validate(json.load(open(f)), es); print('ok', f)
    except Exception as e:
        ok=False; print('BAD', f, str(e)[:300])
sys.exit(0 if ok else 1)
