#!/usr/bin/env python3
"""writes <wt>/seed/PROMPT.txt for a seed agent: property text + rules + list of ideas already used (from DESIGN.md tables). The agent sees nothing else of /verif."""
import re, collections, json, sys
wtprefix, pids = sys.argv[1], sys.argv[2:]
used = collections.defaultdict(list)
for l in open('/verif/DESIGN.md'):
    m = re.match(r'\| (C\d\d)-[\d/]+ \| (.*?) \|', l)
    if m: used[m.group(1)].append(m.group(2))
tmpl = """You are helping evaluate a verification effort on the Rust repository matter-labs/era-consensus (ChonkyBFT consensus for zkSync Era). You have your OWN scratch git worktree of it at {wt} (cargo workspace root: {wt}/node). Work ONLY inside {wt}. Never touch /repo or /verif, do not read anything under /verif or under /root/.claude. There is no network: always run cargo with `CARGO_NET_OFFLINE=true cargo ... --offline -j 5` (all dependencies are cached; the first build of a crate takes a few minutes).

PROPERTY (also in {wt}/seed/PROPERTY.txt):
{title}
{statement}

TASK: write THREE different, independent changes ("mutations") to the non-test source code of the repository, each of which BREAKS this property, while (a) the workspace still compiles, (b) all EXISTING tests of the crate(s) it touches still pass unchanged (run `cargo test -p <crate> --offline` for each touched crate with your change applied and confirm; pre-existing flaky failures do not count but say so - `gossip::tests::push_tx::test_push_tx_propagation` is load-sensitive), and (c) you provide a DEMONSTRATION: a new test (added to an existing test module or a new test file of that crate) that FAILS with your change and PASSES without it.

Make the changes REALISTIC and SUBTLE - the kind of bug a maintainer could introduce in a refactoring or an "optimisation" and a reviewer could miss: a small edit inside an existing expression, a changed comparison, a moved statement, a wrong field or helper, a dropped check on one path, two cooperating sites that each look fine alone. Each must need something SPECIFIC to manifest (a particular interleaving, a crash or fault at a particular point, a multi-step sequence of operations, an unusual or boundary input) - NOT something ordinary use or the existing tests expose at once. Prefer SMALL edits inside existing functions rather than rewrites or brand-new code; do not change public signatures; do not touch tests, docs, Cargo files or .proto files in the mutation patch. The three changes should be in different functions (ideally different files) and exercise different clauses of the property.

Ideas that were ALREADY used in earlier rounds - do NOT repeat these, find different ones:
{used}

DELIVERABLES, for k = 1, 2, 3, in {wt}/seed/<k>/ :
  patch.diff  - `git diff` of ONLY the mutation (source files), applies with `git apply` at the worktree root on a clean checkout
  demo.diff   - `git diff` of ONLY the demonstration test (applies on a clean checkout AND on top of patch.diff)
  meta.json   - {{"property": "{pid}", "crate": "<cargo package name the demo test lives in, e.g. zksync_consensus_network>", "demo_filter": "<test name substring to pass to cargo test>", "breaks": "<what the change does and which clause it breaks>", "needs_to_manifest": "<what specific input / sequence / interleaving is needed>", "files_changed": [...], "existing_tests": "<what you ran and the result>"}}
To produce the diffs: make the mutation, `git diff > seed/k/patch.diff`, then add the demo test and `git diff -- <test files> > seed/k/demo.diff` (for a NEW test file run `git add -N <file>` first so that git diff shows it; make sure demo.diff contains only the test and patch.diff only the mutation), verify: demo fails with mutation, `git apply -R seed/k/patch.diff`, demo passes without. Leave the worktree CLEAN (`git checkout -- . && git clean -fdq -e seed -e node/target`) between mutations and at the end, keeping only the seed/ directory and node/target.

Finish with a short report: for each k one line describing the change, plus anything you noticed in the existing code that already looks like a genuine violation of the property (a real bug), with the input that triggers it.
"""
props = {json.loads(l)['id']: json.loads(l) for l in open('/verif/properties.jsonl')}
for pid in pids:
    p = props[pid]; wt = wtprefix + pid
    open(wt + '/seed/PROPERTY.txt', 'w').write(p['title'] + "\n\n" + p['statement'] + "\n")
    open(wt + '/seed/PROMPT.txt', 'w').write(tmpl.format(wt=wt, title=p['title'], statement=p['statement'], pid=pid, used="\n".join("- " + u for u in used[pid]) or "- (none)"))
    print(wt + '/seed/PROMPT.txt')
